"""C01 — compilation is total: any source text is accepted or cleanly rejected (DESIGN.md 7.10).

proof side : lean/MorfuseModel/Emit/* (emitter parameterised by the manager, both passes,
             Preallocate's arena formula, ScriptMaster::GetProgramScript) + Props/C01.lean
translator : lean/MorfuseModel/Gen/EmitConsts.lean regenerated on every run from the binary built out of
             $VERIF_REPO (opcode table through its accessors, sizeof of the arena objects, the table
             bounds of Compiler.h, the counting ring size, set_primes), cross-checked with the source text
tie        : harness/compile.cpp (real lexer/parser/compiler through ScriptMaster::GetProgramScript under
             ASan + hook H3) dumps outcome, sizes, bytes, label sets and the parse tree; the Lean driver
             (`driver emit`) runs the model on that tree; both answers are compared field by field;
             the property monitor runs on every engine answer
"""
import collections
import glob
import hashlib
import json
import os
import re
import subprocess
import time

from vlib import common, srcgen
from vlib.common import VERIF, LEAN, REPO, HARNESS

AREA = "emit"
PROPS_MODULE = "MorfuseModel.Props.C01"
PROPS_FILE = os.path.join(LEAN, "MorfuseModel", "Props", "C01.lean")
GEN_CONSTS = os.path.join(LEAN, "MorfuseModel", "Gen", "EmitConsts.lean")


# --------------------------------------------------------------------------------------------
# harness

def build(ctx):
    """links harness/compile.cpp (which #includes src/Script/Compiler.cpp) against every object of the
    library except Compiler.cpp.o"""
    b, objs = common.build_lib(ctx)
    objs = [o for o in objs if not o.endswith(os.path.join("Script", "Compiler.cpp.o"))]
    if len(objs) != len(ctx.libobjs) - 1:
        raise common.CheckError("expected exactly one Script/Compiler.cpp.o among the library objects")
    exe = os.path.join(ctx.tmp, "h_compile")
    cmd = common.CXX_BASE + common.SAN_FLAGS + [
        "-I" + os.path.join(REPO, "include"), "-I" + os.path.join(REPO, "src"),
        "-I" + os.path.join(b, "src", "generated"), "-I" + HARNESS,
        os.path.join(HARNESS, "compile.cpp")] + objs + ["-o", exe, "-lpthread"]
    t = time.time()
    p = common.sh(cmd, timeout=1800)
    ctx.stats["harness_build_s"] = round(time.time() - t, 1)
    if p.returncode != 0:
        raise common.CheckError("harness build failed:\n" + (p.stdout + p.stderr)[-6000:])
    return exe


# --------------------------------------------------------------------------------------------
# translator: Gen/EmitConsts.lean

def source_enum():
    """opcode names in enum order, from include/morfuse/Script/ScriptOpcodes.h"""
    src = open(os.path.join(REPO, "include", "morfuse", "Script", "ScriptOpcodes.h")).read()
    m = re.search(r"enum\s+opcode_e\s*\{(.*?)\};", src, re.S)
    if not m:
        raise common.CheckError("opcode_e not found")
    body = re.sub(r"/\*.*?\*/", "", m.group(1), flags=re.S)
    body = re.sub(r"//[^\n]*", "", body)
    names = [t.strip() for t in body.split(",") if t.strip()]
    if any("=" in n for n in names):
        raise common.CheckError("opcode_e has explicit values; the translator assumes consecutive numbering")
    return names


def source_table_rows():
    src = open(os.path.join(REPO, "src", "Script", "ScriptOpcodes.cpp")).read()
    m = re.search(r"OpcodeInfo\[\]\s*=\s*\{(.*?)\n\};", src, re.S)
    if not m:
        raise common.CheckError("OpcodeInfo[] not found")
    return re.findall(r'\{\s*"(\w+)"', m.group(1))


def source_consts():
    src = open(os.path.join(REPO, "src", "Script", "Compiler.h")).read()
    out = {}
    for k, name in (("breakMax", "BREAK_JUMP_LOCATION_COUNT"), ("continueMax", "CONTINUE_JUMP_LOCATION_COUNT"), ("prevMax", "MAX_PREV_OPCODES")):
        m = re.search(name + r"\s*=\s*(\d+)", src)
        if not m:
            raise common.CheckError(name + " not found in Compiler.h")
        out[k] = int(m.group(1))
    return out


def gen_consts(ctx, exe):
    out, crash, info = common.run_lines(exe, [], ["consts"], timeout=60)
    if crash or len(out) != 1:
        raise common.CheckError("harness `consts` failed: %s %s" % (crash, info[-1000:]))
    f = dict(t.split("=", 1) for t in out[0].split(" "))
    names = source_enum()
    rows = source_table_rows()
    ops = [r.split(":") for r in f["ops"].split(",")]
    primes = [int(x) for x in f["primes"].split(",")]
    sc = source_consts()
    ctx.oblige("translator: opcode enum of ScriptOpcodes.h ends with OP_PREVIOUS, OP_MAX and the built binary agrees (OP_PREVIOUS = %s)" % f["opPrevious"],
               names[-2:] == ["OP_PREVIOUS", "OP_MAX"] and len(names) - 2 == int(f["opPrevious"]) and len(names) - 1 == int(f["opMax"]))
    ctx.oblige("translator: OpcodeInfo[] has one row per opcode below OP_PREVIOUS, in enum order (names agree with the binary)",
               len(rows) == int(f["opPrevious"]) == len(ops) and [o[0] for o in ops] == rows,
               "%d rows, %d opcodes" % (len(rows), int(f["opPrevious"])))
    ctx.oblige("translator: table bounds of Compiler.h as compiled == as written", all(int(f[k]) == v for k, v in sc.items()), str(sc))
    lens = [int(o[1]) for o in ops]
    stack = [int(o[2]) for o in ops]
    ext = [o[3] == "1" for o in ops]
    L = ["/-! GENERATED by tools/props/c01.py from the binary built out of $VERIF_REPO (cross-checked with",
         "ScriptOpcodes.h / ScriptOpcodes.cpp / Compiler.h) - do not edit. -/",
         "namespace Morfuse.Gen.EmitConsts",
         "/-- `BREAK_JUMP_LOCATION_COUNT`, `CONTINUE_JUMP_LOCATION_COUNT`, `MAX_PREV_OPCODES` (Compiler.h) -/"]
    for k in ("breakMax", "continueMax", "prevMax"):
        L.append("def %s : Nat := %s" % (k, f[k]))
    L.append("/-- `ScriptCountManager::prevopSize` -/")
    L.append("def ringSize : Nat := %s" % f["ringSize"])
    L.append("/-- `sizeof` of what the emission allocates from the script's arena -/")
    for k in ("szStateScript", "szCatchBlock", "szEntry", "szPtr", "szSourcePos"):
        L.append("def %s : Nat := %s" % (k, f[k]))
    L.append("def opPrevious : Nat := %s" % f["opPrevious"])
    L.append("def opMax : Nat := %s" % f["opMax"])
    L.append("/-- `OpcodeInfo[].opcodelength` -/")
    L.append("def opLenTbl : Array Nat := #[%s]" % ", ".join(map(str, lens)))
    L.append("/-- `OpcodeInfo[].opcodestackoffset` -/")
    L.append("def opStackTbl : Array Int := #[%s]" % ", ".join(("(%d)" % s) for s in stack))
    L.append("/-- `OpcodeInfo[].isexternal` -/")
    L.append("def opExtTbl : Array Bool := #[%s]" % ", ".join("true" if e else "false" for e in ext))
    L.append("/-- `con::set_primes` as laid out in the object file -/")
    L.append("def setPrimes : List Nat := [%s]" % ", ".join(map(str, primes)))
    for i, n in enumerate(names):
        L.append("def %s : Nat := %d" % (n, i))
    L.append("end Morfuse.Gen.EmitConsts")
    changed = common.write_if_changed(GEN_CONSTS, "\n".join(L) + "\n")
    ctx.stats["emit_consts_changed"] = changed
    return f
