"""C01 — compilation is total: any source text is accepted or cleanly rejected (DESIGN.md 7.10).

proof side : lean/MorfuseModel/Emit/* (emitter parameterised by the manager, both passes,
             Preallocate's arena formula, ScriptMaster::GetProgramScript) + Props/C01.lean
translator : lean/MorfuseModel/Gen/EmitConsts.lean regenerated on every run from the binary built out of
             $VERIF_REPO (opcode table through its accessors, sizeof of the arena objects, the table
             bounds of Compiler.h, the counting ring size, set_primes), cross-checked with the source text
tie        : harness/compile.cpp (real lexer/parser/compiler through ScriptMaster::GetProgramScript under
             ASan + hook H3) dumps outcome, sizes, bytes, label sets and the parse tree; the Lean driver
             (`driver emit`) runs the model on that tree; both answers are compared field by field;
             the property monitor runs on every engine answer
"""
import collections
import glob
import hashlib
import json
import os
import re
import subprocess
import time

from vlib import common, srcgen, ringwrap, bcgen
from vlib.common import VERIF, LEAN, REPO, HARNESS

AREA = "emit"
PROPS_MODULE = "MorfuseModel.Props.C01"
PROPS_FILE = os.path.join(LEAN, "MorfuseModel", "Props", "C01.lean")
GEN_CONSTS = os.path.join(LEAN, "MorfuseModel", "Gen", "EmitConsts.lean")


# --------------------------------------------------------------------------------------------
# harness

def build(ctx):
    """links harness/compile.cpp (which #includes src/Script/Compiler.cpp) against every object of the
    library except Compiler.cpp.o"""
    b, objs = common.build_lib(ctx)
    objs = [o for o in objs if not o.endswith(os.path.join("Script", "Compiler.cpp.o"))]
    if len(objs) != len(ctx.libobjs) - 1:
        raise common.CheckError("expected exactly one Script/Compiler.cpp.o among the library objects")
    exe = os.path.join(ctx.tmp, "h_compile")
    cmd = common.CXX_BASE + common.SAN_FLAGS + [
        "-I" + os.path.join(REPO, "include"), "-I" + os.path.join(REPO, "src"),
        "-I" + os.path.join(b, "src", "generated"), "-I" + HARNESS,
        os.path.join(HARNESS, "compile.cpp")] + objs + ["-o", exe, "-lpthread"]
    t = time.time()
    p = common.sh(cmd, timeout=1800)
    ctx.stats["harness_build_s"] = round(time.time() - t, 1)
    if p.returncode != 0:
        raise common.CheckError("harness build failed:\n" + (p.stdout + p.stderr)[-6000:])
    return exe


# --------------------------------------------------------------------------------------------
# translator: Gen/EmitConsts.lean

def source_enum():
    """opcode names in enum order, from include/morfuse/Script/ScriptOpcodes.h"""
    src = open(os.path.join(REPO, "include", "morfuse", "Script", "ScriptOpcodes.h")).read()
    m = re.search(r"enum\s+opcode_e\s*\{(.*?)\};", src, re.S)
    if not m:
        raise common.CheckError("opcode_e not found")
    body = re.sub(r"/\*.*?\*/", "", m.group(1), flags=re.S)
    body = re.sub(r"//[^\n]*", "", body)
    names = [t.strip() for t in body.split(",") if t.strip()]
    if any("=" in n for n in names):
        raise common.CheckError("opcode_e has explicit values; the translator assumes consecutive numbering")
    return names


def source_table_rows():
    src = open(os.path.join(REPO, "src", "Script", "ScriptOpcodes.cpp")).read()
    m = re.search(r"OpcodeInfo\[\]\s*=\s*\{(.*?)\n\};", src, re.S)
    if not m:
        raise common.CheckError("OpcodeInfo[] not found")
    return re.findall(r'\{\s*"(\w+)"', m.group(1))


def source_consts():
    src = open(os.path.join(REPO, "src", "Script", "Compiler.h")).read()
    out = {}
    for k, name in (("breakMax", "BREAK_JUMP_LOCATION_COUNT"), ("continueMax", "CONTINUE_JUMP_LOCATION_COUNT"), ("prevMax", "MAX_PREV_OPCODES")):
        m = re.search(name + r"\s*=\s*(\d+)", src)
        if not m:
            raise common.CheckError(name + " not found in Compiler.h")
        out[k] = int(m.group(1))
    return out


def gen_consts(ctx, exe):
    out, crash, info = common.run_lines(exe, [], ["consts"], timeout=60)
    if crash or len(out) != 1:
        raise common.CheckError("harness `consts` failed: %s %s" % (crash, info[-1000:]))
    f = dict(t.split("=", 1) for t in out[0].split(" "))
    names = source_enum()
    rows = source_table_rows()
    ops = [r.split(":") for r in f["ops"].split(",")]
    primes = [int(x) for x in f["primes"].split(",")]
    sc = source_consts()
    ctx.oblige("translator: opcode enum of ScriptOpcodes.h ends with OP_PREVIOUS, OP_MAX and the built binary agrees (OP_PREVIOUS = %s)" % f["opPrevious"],
               names[-2:] == ["OP_PREVIOUS", "OP_MAX"] and len(names) - 2 == int(f["opPrevious"]) and len(names) - 1 == int(f["opMax"]))
    ctx.oblige("translator: OpcodeInfo[] has one row per opcode below OP_PREVIOUS, in enum order (names agree with the binary)",
               len(rows) == int(f["opPrevious"]) == len(ops) and [o[0] for o in ops] == rows,
               "%d rows, %d opcodes" % (len(rows), int(f["opPrevious"])))
    hsrc = open(os.path.join(REPO, "src", "Script", "Compiler.h")).read()
    mw = re.search(r"\bint(\d+)_t\s+m_iVarStackOffset\s*;", hsrc)
    ctx.oblige("translator: declared width of m_iVarStackOffset in Compiler.h == sizeof in the built binary (%s bits)" % f["stackBits"],
               bool(mw) and mw.group(1) == f["stackBits"], mw.group(0) if mw else "declaration not found")
    ctx.oblige("translator: table bounds of Compiler.h as compiled == as written", all(int(f[k]) == v for k, v in sc.items()), str(sc))
    lens = [int(o[1]) for o in ops]
    stack = [int(o[2]) for o in ops]
    ext = [o[3] == "1" for o in ops]
    L = ["/-! GENERATED by tools/props/c01.py from the binary built out of $VERIF_REPO (cross-checked with",
         "ScriptOpcodes.h / ScriptOpcodes.cpp / Compiler.h) - do not edit. -/",
         "namespace Morfuse.Gen.EmitConsts",
         "/-- `BREAK_JUMP_LOCATION_COUNT`, `CONTINUE_JUMP_LOCATION_COUNT`, `MAX_PREV_OPCODES` (Compiler.h) -/"]
    for k in ("breakMax", "continueMax", "prevMax"):
        L.append("def %s : Nat := %s" % (k, f[k]))
    L.append("/-- `ScriptCountManager::prevopSize` -/")
    L.append("def ringSize : Nat := %s" % f["ringSize"])
    L.append("/-- `sizeof` of what the emission allocates from the script's arena -/")
    for k in ("szStateScript", "szCatchBlock", "szEntry", "szPtr", "szSourcePos"):
        L.append("def %s : Nat := %s" % (k, f[k]))
    L.append("/-- `std::numeric_limits<op_parmNum_t>::max()`, `…<op_arrayParmNum_t>::max()`: what `CheckOperandCount` compares with -/")
    for k in ("parmNumMax", "arrayParmNumMax"):
        L.append("def %s : Nat := %s" % (k, f[k]))
    L.append("/-- width in bits of `ScriptEmitter::m_iVarStackOffset` (and of the maxima): `sizeof` in the built binary -/")
    L.append("def stackBits : Nat := %s" % f["stackBits"])
    L.append("def opPrevious : Nat := %s" % f["opPrevious"])
    L.append("def opMax : Nat := %s" % f["opMax"])
    L.append("/-- `OpcodeInfo[].opcodelength` -/")
    L.append("def opLenTbl : Array Nat := #[%s]" % ", ".join(map(str, lens)))
    L.append("/-- `OpcodeInfo[].opcodestackoffset` -/")
    L.append("def opStackTbl : Array Int := #[%s]" % ", ".join(("(%d)" % s) for s in stack))
    L.append("/-- `OpcodeInfo[].isexternal` -/")
    L.append("def opExtTbl : Array Bool := #[%s]" % ", ".join("true" if e else "false" for e in ext))
    L.append("/-- `con::set_primes` as laid out in the object file -/")
    L.append("def setPrimes : List Nat := [%s]" % ", ".join(map(str, primes)))
    for i, n in enumerate(names):
        L.append("def %s : Nat := %d" % (n, i))
    L.append("end Morfuse.Gen.EmitConsts")
    changed = common.write_if_changed(GEN_CONSTS, "\n".join(L) + "\n")
    ctx.stats["emit_consts_changed"] = changed
    return f


# --------------------------------------------------------------------------------------------
# running cases

FIELDS = ["out", "pl", "wr", "ar", "nsw", "nca", "osw", "oca", "tl", "stk", "code", "lab", "sw", "ca", "cnt"]
MS_LIMIT = 2500          # one compile; nesting 40 takes a few ms


def kv(line):
    d = {}
    for t in line.split(" "):
        if "=" in t:
            k, v = t.split("=", 1)
            d[k] = v
    return d


def monitor(f):
    """the property clauses on one engine answer; returns the list of clauses that fail"""
    bad = []
    out = f.get("out", "")
    if not (out == "ok" or out == "ParseError" or out.startswith("CompileError:")):
        bad.append("outcome-class:" + out)
    if f.get("trap") != "-":
        bad.append("arena-trap:" + f.get("trap", "?").split(":")[0])
    if out == "ok":
        if f.get("entry") != "loaded":
            bad.append("accepted-entry:" + f.get("entry", "?"))
        if f.get("again") != "same":
            bad.append("accepted-again:" + f.get("again", "?"))
        wr, pl = f.get("wr", ""), f.get("pl", "")
        if wr.isdigit() and pl.isdigit():
            if int(wr) > int(pl):
                bad.append("code-exceeds-progLength")
        elif wr != "-":
            bad.append("replica:" + wr)
        u, _, sz = f.get("ar", "0/0").partition("/")
        if int(u) > int(sz):
            bad.append("arena-exceeds-preallocation")
        if int(f.get("osw", 0)) > int(f.get("nsw", 0)) or int(f.get("oca", 0)) > int(f.get("nca", 0)):
            bad.append("container-grew")
    else:
        if f.get("entry") != "failed":
            bad.append("rejected-entry:" + f.get("entry", "?"))
        if f.get("again") != "notloaded":
            bad.append("rejected-again:" + f.get("again", "?"))
    if f.get("sent") != "ok":
        bad.append("sentinel:" + f.get("sent", "?"))
    if f.get("pre") != "ok":
        bad.append("earlier-script:" + f.get("pre", "?"))
    try:
        if int(f.get("ms", "0")) > MS_LIMIT:
            bad.append("slow-compile")
    except ValueError:
        pass
    return bad


class Case:
    __slots__ = ("name", "dev", "src", "line", "crash", "info", "model", "bad", "diff")

    def __init__(self, name, dev, src):
        self.name, self.dev, self.src = name, dev, src
        self.line = self.crash = self.info = self.model = self.diff = None
        self.bad = []


class Runner:
    def __init__(self, ctx, exe):
        self.ctx, self.exe = ctx, exe
        self.cases = 0
        self.modelled = 0
        self.out_hist = collections.Counter()
        self.kind_hist = collections.Counter()
        self.node_hist = collections.Counter()
        self.gen_hist = collections.Counter()
        self.distinct = set()
        self.max_ms = 0
        self.cert_fail = 0
        self.plain = 0
        self.outside = 0
        self.outside_cert_fail = 0
        self.wf_fail = 0
        self.skipped = 0

    def engine(self, cases, timeout=20, confirm=8):
        """fills .line / .crash for every case; a crash or hang is isolated to its case"""
        i = 0
        dead = 0
        while i < len(cases):
            if dead >= 3:
                self.skipped += len(cases) - i      # three crashes / hangs in one stream: the rest is not run
                break
            chunk = cases[i:i + 60]
            lines = ["case %d %s" % (c.dev, c.src.hex() or "-") for c in chunk]
            out, crash, info = common.run_lines(self.exe, [], lines, timeout=timeout)
            out = [l for l in out if l]
            for c, l in zip(chunk, out):
                c.line = l
            if len(out) < len(chunk):
                c = chunk[len(out)]
                # confirm alone (a batch time-out may be the sum of many slow cases)
                o1, crash1, info1 = common.run_lines(self.exe, [], [lines[len(out)]], timeout=confirm)
                if crash1 is None and len(o1) == 1:
                    c.line = o1[0]
                else:
                    c.crash = "HANG" if crash1 == "timeout" else ("CRASH " + str(crash1))
                    c.info = info1
                    dead += 1
                i += len(out) + 1
            else:
                i += len(chunk)

    def model(self, cases):
        todo = []
        for c in cases:
            if c.line and " ast=" in c.line:
                ast = c.line.split(" ast=", 1)[1].rsplit(" ms=", 1)[0]
                if ast not in ("-", "too-large"):
                    todo.append((c, ast))
        if not todo:
            return
        out = common.run_model(AREA, ["emit %d %s" % (c.dev, ast) for c, ast in todo], timeout=600)
        if len(out) != len(todo):
            raise common.CheckError("model driver produced %d lines for %d inputs" % (len(out), len(todo)))
        for (c, ast), o in zip(todo, out):
            c.model = o
            for m in re.finditer(r"\((\w+)", ast):
                self.node_hist[m.group(1)] += 1

    def judge(self, c):
        """monitor + comparison for one case"""
        if c.line is None and not c.crash:
            return          # not run (see engine)
        self.cases += 1
        parts = c.name.split(":")
        self.gen_hist[":".join(parts[:2]) if parts[0] == "family" else parts[0]] += 1
        if c.crash:
            self.out_hist[c.crash.split(" ")[0]] += 1
            return
        f = kv(c.line)
        out = f.get("out", "?")
        self.out_hist[out.split(":")[0] if out.startswith("Other") else out] += 1
        try:
            self.max_ms = max(self.max_ms, int(f.get("ms", "0")))
        except ValueError:
            pass
        c.bad = monitor(f)
        if out != "ParseError":
            self.distinct.add(hashlib.sha1(c.src).hexdigest())
        if c.model is not None:
            self.modelled += 1
            m = kv(c.model)
            if c.model == "bad-op":
                c.diff = ("tree", "unparsed by the model driver", "")
                return
            if m.get("wf") != "1":
                self.wf_fail += 1
                c.diff = ("wf", "the parser produced a tree outside Node.wf", "")
                return
            if m.get("cert") != "1":
                self.cert_fail += 1
            if m.get("plain") == "1":
                self.plain += 1
            else:
                self.outside += 1
                if m.get("cert") != "1":
                    self.outside_cert_fail += 1
            unstable = "(case 4 " in c.line
            for k in FIELDS:
                if k not in m and k not in f:
                    continue
                if unstable and k in ("lab", "sw", "ca"):
                    continue
                if f.get(k) == "-" and k in ("wr", "cnt"):
                    continue
                if m.get(k) != f.get(k):
                    c.diff = (k, f.get(k), m.get(k))
                    break

    def run(self, cases):
        self.engine(cases)
        self.model(cases)
        for c in cases:
            self.judge(c)
        return [c for c in cases if c.crash or c.bad or c.diff]


def signature(c):
    if c.crash:
        if c.crash == "HANG":
            return "hang"
        return c.crash.split(" ", 1)[1]
    if c.bad:
        return "monitor:" + c.bad[0]
    if c.diff:
        return "diff:" + c.diff[0]
    return None


def shrink(ctx, runner, c, budget_s=60):
    """delta debugging on the tokens of the source, keeping the signature"""
    sig = signature(c)
    t0 = time.time()
    toks = srcgen.tokens(c.src) if len(c.src) < 20000 else [c.src[i:i + 64] for i in range(0, len(c.src), 64)]

    def fails(ts):
        if time.time() - t0 > budget_s:
            return False
        d = Case(c.name, c.dev, b"".join(ts))
        r = Runner(ctx, runner.exe)
        r.engine([d], timeout=4, confirm=4)
        r.model([d])
        r.judge(d)
        return signature(d) == sig
    small = common.ddmin(toks, fails, max_tests=400) if len(toks) > 1 else toks
    d = Case(c.name, c.dev, b"".join(small))
    r = Runner(ctx, runner.exe)
    r.engine([d], timeout=15)
    r.model([d])
    r.judge(d)
    if signature(d) != sig:
        return c
    # then byte-wise for short inputs
    if len(d.src) <= 200:
        bs = [bytes([b]) for b in d.src]
        small = common.ddmin(bs, fails, max_tests=300) if len(bs) > 1 else bs
        e = Case(c.name, c.dev, b"".join(small))
        r.engine([e], timeout=15)
        r.model([e])
        r.judge(e)
        if signature(e) == sig:
            return e
    return d


def report(ctx, runner, c):
    small = shrink(ctx, runner, c)
    sig = signature(small)
    is_property = bool(small.crash or small.bad)
    why = small.crash or (("property clause fails on the engine's answer: " + ", ".join(small.bad)) if small.bad else
                          "field %s: engine says %s, model says %s" % tuple(str(x)[:200] for x in small.diff))
    replay = common.save_replay(ctx, {
        "property": ctx.prop_id, "kind": "correspondence", "case": c.name, "dev": small.dev,
        "source_hex": small.src.hex(), "source_text": small.src.decode("latin1")[:4000],
        "engine": small.line, "model": small.model, "crash_info": (small.info or "")[-4000:],
        "signature": sig, "why": why,
        "how_to_replay": "python3 tools/check.py C01 --replay <this file>",
    })
    ctx.violations.append({"signature": sig, "replay": replay, "why": why, "found_input": is_property})
    return is_property


# --------------------------------------------------------------------------------------------
# case streams

def corpus_cases():
    res = []
    for p in sorted(glob.glob(os.path.join(VERIF, "corpus", "C01", "*.json"))):
        o = json.load(open(p))
        for dev in (0, 1):
            res.append(Case("corpus:" + os.path.basename(p), dev, bytes.fromhex(o["source_hex"])))
    return res


def family_cases(thorough):
    g = srcgen
    out = []

    def add(name, s):
        out.append(Case("family:" + name, 0, s))
        out.append(Case("family:" + name, 1, s))
    # break before continue (and the other orders) in every loop kind: the two fix-up tables are walked by separate counters
    for nb, nc in ([(1, 1), (2, 1), (1, 2), (3, 3), (0, 2), (2, 0), (60, 60), (100, 100), (101, 1), (1, 101), (100, 101)] if thorough
                   else [(1, 1), (2, 1), (1, 2), (100, 100), (101, 1), (1, 101)]):
        for loop in ("while", "for", "do"):
            for order in ("bc", "cb", "mix"):
                for nest in ((0, 2) if thorough else (0, 1)):
                    add("break-continue", g.fam_break_continue(nb, nc, loop, order, nest))
    # CheckOperandCount: lists around the width of the count operand
    for kind in ("cmd", "cmdx", "mcmd", "mcmdx", "thread"):
        for n in ((6, 254, 255, 256, 257, 300, 1000) if thorough else (254, 255, 256, 257)):
            add("param-limit", g.fam_param_limit(kind, n))
    for kind in ("carr", "marr"):
        for n in ((2, 255, 256, 65534, 65535, 65536, 65537) if thorough else (2, 255, 256, 1000)):
            add("param-limit", g.fam_param_limit(kind, n))
    # ring-wrap family (tools/vlib/ringwrap.py): peephole-sensitive statements at every index of the 100-entry
    # previous-opcode ring; large literals / parameter lists of tools/vlib/bcgen.py
    for _name, src in ringwrap.sources(quick=not thorough):
        out.append(Case("family:ring-wrap", 0, src))
    for name, src, _opts in bcgen.large_family(None if thorough else [2, 17, 257]) + bcgen.large_param_family(None if thorough else [6, 255, 256]):
        out.append(Case("family:large", 0, src.encode()))
    for i, src in enumerate(g.fam_lexical()):
        add("lexical", src)
    ns = [1, 2, 50, 99, 100, 101] if thorough else [2, 99, 100, 101]
    for n in ns:
        for kind in ("break", "continue"):
            for loop in ("while", "for", "do"):
                for wrap in ((None, "switch", "try", "catch") if thorough else (None, "switch", "catch")):
                    add("breaks", g.fam_breaks(n, kind, loop, wrap))
        add("breaks", g.fam_breaks(n, "break", "switch"))
    for n in ([0, 1, 2, 3, 7, 8, 17, 18, 100, 300] if thorough else [0, 1, 2, 8, 18, 60]):
        for nested in (0, 1, 3):
            for ic in (False, True):
                add("cases", g.fam_cases(n, nested, ic, plain_labels=n % 3, private=n % 2))
    add("cases", g.fam_cases(5, dup=True))
    for d in ([1, 2, 5, 10, 20, 30, 40] if thorough else [1, 3, 12, 40]):
        for l in (0, 1, 2):
            add("try-in-catch", g.fam_try_in_catch(d, l))
            add("switch-in-switch", g.fam_switch_in_switch(d, l))
        add("try-in-try", g.fam_try_in_try(d))
    for kind in ("ints", "negs", "negparen", "nots", "notlit", "fusion", "fusion-neg", "negfloat", "andor", "params", "labelparams", "long"):
        for n in ([1, 2, 3, 5, 16, 17, 31, 32, 33, 40, 99, 100, 101, 130, 250] if thorough else [1, 3, 17, 33, 101]):
            if kind in ("negs", "negparen", "nots", "notlit", "negfloat") and n > 40:
                continue
            add("peephole", g.fam_peephole(kind, n))
    return out


def random_cases(rng, n, thorough):
    g = srcgen
    out = []
    depths = [2, 3, 4, 6, 8] if thorough else [2, 3, 4]
    for i in range(n):
        k = rng.random()
        if k < 0.40:
            s, name = g.program(rng, maxdepth=rng.choice(depths), width=rng.choice([2, 4, 6])), "program"
        elif k < 0.48:
            s, name = g.nested(rng, rng.choice([3, 10, 25, 40] if thorough else [3, 10, 40])), "nested-blocks"
        elif k < 0.54:
            s, name = g.nested_expr(rng, rng.choice([3, 10, 25, 40] if thorough else [3, 10, 40])), "nested-expr"
        elif k < 0.80:
            base = g.program(rng, maxdepth=rng.choice([2, 3, 4])) if rng.random() < 0.7 else g.nested(rng, rng.choice([3, 8]))
            s, name = g.mutate(rng, base), "mutation"
        else:
            s, name = g.noise(rng), "noise"
        out.append(Case("%s:%d" % (name, i), rng.randint(0, 1), s))
    return out


TRUSTED = [
    "Lean 4.33.0 kernel (lake build; leanchecker in the thorough tier); axioms allowed: propext, Classical.choice, Quot.sound (audited by #print axioms on every run)",
    "theorems over all parse trees: C01_fixup_tables_bounded, C01_arena_fits (+ C01_arena_accounting), emit_total / compile_total, C01_reject_is_clean; C01_code_fits for every tree of the parser's shape (Node.plain, evaluated on every dumped tree); the per-tree certificate gross == progLength and the byte-for-byte comparison remain as independent ties",
    "hand-written model lean/MorfuseModel/Emit/Model.lean of ScriptEmitter + ScriptCountManager + ScriptProgramManager + ScriptCompiler::Preallocate/Compile + the label-set / container allocation of set.h / Container.h, and Emit/Master.lean of ScriptMaster::GetProgramScript + ProgramScript::Load; tied by the differential run (progLength, bytes written, arena used/reserved, container and table sizes, required stack size, every code byte, every label set, size info of the counting pass, outcome class)",
    "translator tools/props/c01.py: Gen/EmitConsts.lean from the built binary (opcode table via its accessors, sizeof of the arena objects, table bounds, ring size, set_primes), cross-checked with ScriptOpcodes.h/.cpp and Compiler.h",
    "harness/compile.cpp: includes src/Script/Compiler.cpp to reach the file-local manager classes; its tree dump resolves names (event numbers, dictionary indices, getter/setter class look-ups) with the functions the emitter calls; its replica of EmitProgram (4 statements) is cross-checked byte-for-byte with the real path",
    "the generated lexer/parser (flex/bison), libc, TempAlloc and the native stack are NOT modelled: covered by the outcome-class monitor under ASan + UBSan subset + hook H3 only",
    "g++ 12 / AddressSanitizer semantics for 'a write outside an allocation is reported'",
]
ASSUME = [
    "block / expression nesting <= 40 (the emitter and the bison parser are recursive by design)",
    "sources up to a few hundred KB; tokens longer than flex's 16 KB buffer are part of the noise generator",
    "theorems are about trees in Node.wf (opcode bytes and listener bytes as the parser produces them): checked on every dumped tree",
    "`case -<non-integer>` derives the label name from the low half of a pointer (type confusion in EmitCaseLabel, memory-safe): label names of such cases are not compared",
]


def check(ctx):
    exe = build(ctx)
    gen_consts(ctx, exe)
    proofs_ok, _ = common.proof_side(ctx, PROPS_MODULE, PROPS_FILE)
    if ctx.tier == "thorough":
        common.leanchecker(ctx, PROPS_MODULE)
    model_src = common.strip_lean_comments(open(os.path.join(LEAN, "MorfuseModel", "Emit", "Model.lean")).read())
    ctx.oblige("emitter model is defined without partial / fuel / well-founded escape (termination checked by Lean)",
               not re.search(r"\bpartial\b|\bfuel\b|termination_by|decreasing_by", model_src))
    runner = Runner(ctx, exe)
    thorough = ctx.tier == "thorough"
    rng = ctx.rng("random")
    streams = [corpus_cases(), family_cases(thorough)]
    n = 96000 if thorough else 6000
    streams += [random_cases(rng, 600, thorough) for _ in range(n // 600)]
    failing = 0
    reports = 0
    t_fail = 0.0
    skipped = 0
    for cases in streams:
        if reports >= 4 or failing >= 10 or t_fail > 240:
            skipped += len(cases)        # enough replays exist; the verdict is already VIOLATION
            continue
        t = time.time()
        bad = runner.run(cases)
        if bad:
            t_fail += time.time() - t
        if os.environ.get("VERIF_DEBUG"):
            common.log("stream %s: %d cases, %d failing, %.1fs" % (cases[0].name if cases else "-", len(cases), len(bad), time.time() - t))
        failing += len(bad)
        seen = set(v["signature"] for v in ctx.violations)
        for c in bad:
            if reports >= 4 or t_fail > 300:
                break
            if signature(c) in seen:
                continue
            t = time.time()
            report(ctx, runner, c)
            t_fail += time.time() - t
            if os.environ.get("VERIF_DEBUG"):
                common.log("report %s: %.1fs" % (signature(c), time.time() - t))
            seen = set(v["signature"] for v in ctx.violations)
            reports += 1
    ctx.oblige("correspondence + monitor: harness/compile.cpp (real lexer, parser, compiler, registry) vs Emit model on %d inputs (%d with a tree)" % (runner.cases, runner.modelled),
               failing == 0, "%d failing cases" % failing, reported=True)
    ctx.stats["skipped_after_failures"] = skipped + runner.skipped
    ctx.oblige("per-tree certificate (the lemma C01_code_fits still lacks): gross bytes of the model's program pass == progLength of its counting pass, on every modelled tree",
               runner.cert_fail == 0, "%d trees fail" % runner.cert_fail)
    ctx.oblige("every dumped parse tree has the shape C01_code_fits is about (Node.plain: listener bytes <= 6, the operand of a unary minus is an expression): %d of %d modelled trees" % (runner.plain, runner.modelled),
               runner.outside == 0, "%d trees outside, certificate failures among them: %d" % (runner.outside, runner.outside_cert_fail))
    common.log("C01 class: %d of %d modelled trees in Node.plain, %d outside, certificate failures outside: %d" % (runner.plain, runner.modelled, runner.outside, runner.outside_cert_fail))
    ctx.samples = [c.src.decode("latin1")[:300] for c in random_cases(ctx.rng("sample"), 4, False)]
    cov = {
        "evaluations": runner.cases, "distinct_nontrivial": len(runner.distinct), "modelled_trees": runner.modelled, "trees_in_class_plain_of_C01_code_fits_partial2": runner.plain,
        "trees_outside_class_plain": runner.outside, "certificate_failures_outside_class": runner.outside_cert_fail,
        "rule": "inputs: replayed corpus, deterministic stress families (break-before-continue / continue-before-break / interleaved in every loop kind with nesting, fix-up table bounds 99/100/101 per loop kind and wrapper, lexical edge cases: tokens around flex's 8/16 KB buffers, NUL bytes, unterminated strings / comments, trailing backslashes; label-set sizes up to 300 with nesting, try-in-catch / switch-in-switch / try-in-try nesting up to 40, peephole chains) and random programs / token mutations / byte noise; non-trivial = passes the parser; distinct by SHA-1 of the source",
        "outcome_histogram": dict(runner.out_hist), "generator_histogram": dict(runner.gen_hist),
        "node_kind_histogram": dict(runner.node_hist), "max_compile_ms": runner.max_ms, "exhaustive": False,
    }
    return common.finish(ctx, "proof", cov, TRUSTED, ASSUME,
                         "cd lean && lake build && lake env lean <Audit.lean with #print axioms>; tools/check.py C01")


def replay(ctx, obj):
    exe = build(ctx)
    gen_consts(ctx, exe)
    ok, out = common.lake_build()
    if not ok:
        print(out[-3000:])
        return 2
    if obj.get("kind") == "proof-obligation":
        print("proof obligation:", obj.get("obligation"), obj.get("detail", "")[:2000])
        return 1
    c = Case(obj.get("case", "replay"), int(obj.get("dev", 0)), bytes.fromhex(obj["source_hex"]))
    r = Runner(ctx, exe)
    r.engine([c], timeout=20)
    r.model([c])
    r.judge(c)
    print("source :", c.src[:2000])
    print("engine :", (c.line or "")[:3000])
    print("model  :", (c.model or "")[:3000])
    if c.crash:
        print(c.crash)
        print((c.info or "")[-3000:])
    print("monitor:", c.bad, "diff:", c.diff)
    bad = bool(c.crash or c.bad or c.diff)
    print("replay:", "still fails (%s)" % signature(c) if bad else "no failure")
    return 1 if bad else 0
