"""C02 — emitted bytecode is well-formed and keeps the operand stack disciplined (DESIGN.md 7.10).

Ties:
 (T1) tools/gen_opcodes.py regenerates Gen/OpcodeTable.lean from ScriptOpcodes.{h,cpp} (by compiling the real
      table); `table_matches_vm` (Props/C02.lean, `decide`) compares it with the hand model of the decode loop.
 (T2) tools/gen_vmcases.py fingerprints every `case` block of ScriptVM::Process and every helper the hand
      model inlines (Gen/VmCases.lean); the model's error paths are defined by cases on the fingerprint
      variants, so `C02_error_effect` is re-checked against the source text as it is now.
 (D)  harness/bytecode.cpp compiles generated programs with the real compiler, dumps the code buffer and all
      label tables, runs every entry on the real VM under hook H4 and records every transition;
      `driver bytecode` runs the PROVED verifier on the dump (accept / first violated rule) and replays the
      recorded transitions on the abstract VM (`Bytecode.step`) and the inferred annotation.

A real program the verifier rejects, a transition of the real VM the abstract VM does not have, a thread
that ends with a non-empty stack or the VM's own stack check firing is a VIOLATION with the (shrunk)
program as replay.
"""
import binascii
import glob
import hashlib
import json
import os
import re
import subprocess
import sys
import time

from vlib import common, bcgen, ringwrap
from vlib.common import VERIF, LEAN

sys.path.insert(0, os.path.join(VERIF, "tools"))
import gen_opcodes   # noqa: E402
import gen_vmcases   # noqa: E402

AREA = "bytecode"
PROPS_MODULE = "MorfuseModel.Props.C02"
PROPS_FILE = os.path.join(LEAN, "MorfuseModel", "Props", "C02.lean")

TRUSTED = [
    "Lean 4.33.0 kernel (lake build; leanchecker in the thorough tier); `decide +kernel` only in the non-vacuity examples",
    "axioms allowed: propext, Classical.choice, Quot.sound (audited by #print axioms on every run)",
    "tools/gen_opcodes.py (enum parser + generated C++ printer compiled with the real ScriptOpcodes.cpp) and tools/gen_vmcases.py (comment/white-space normalisation, brace matching, SHA-1 fingerprints, tools/props/c02_vmsigs.json)",
    "hand model lean/MorfuseModel/Bytecode/VmModel.lean + VmErrors.lean of ScriptVM::Process (operand bytes, pops/pushes, control flow, error paths), tied by table_matches_vm, by the fingerprints and by the H4 transition replay",
    "harness/bytecode.cpp: reading ProgramScript / StateScript / CatchBlock private members (-fno-access-control), the H4 probe bookkeeping (per-VM predecessor map, first probe of a VM recognised by m_PrevCodePos == nullptr), the sanitizer death callback that prints the partial line",
    "lean/Driver/Bytecode.lean: parsing of the dump line, the diagnostics `explain` (only names the failing rule; accept/reject is `Bytecode.verify`), the transition replay",
    "tools/vlib/bcgen.py (generator, shrinker) and the classification in tools/props/c02.py",
    "g++ 12 / ASan / UBSan for memory errors of the real compiler and VM while the programs run",
]
ASSUME = [
    "programs are single files; `exec`/`waitexec` of other files are not generated",
    "the verifier treats `goto`/`throw` as able to continue at any label of any table with the stack as it is (height 0 is demanded there), and `end`, `delete`, `remove`, `immediateremove`, `throw` as possible thread ends",
    "inside OP_MARK_STACK_POS..OP_RESTORE_STACK_POS the real stack index is not compared (pTop points into the host's argument cells); the bracket's shape is checked instead",
    "a script error is assumed to leave the VM where the fall-through path leaves it; that assumption is C02_error_effect (model level) and is confirmed or refuted per program by the transition replay",
    "sanitizer crashes whose recorded transitions all agree with the abstract VM are counted as `foreign crashes` (memory safety of commands / value operations is C04), not as C02 violations",
    "threads killed from outside while suspended are not probed (hook H4 fires when an ended thread's VM leaves Execute)",
]

# small programs that exercise one error path each (kept in corpus/C02 as well)
WITNESSES = [
    ("w:loadtop-readonly", "main:\nlocal.self = 1\nend\n"),
    ("w:store-field-ref-nil", "main:\nlocal.n.x[1] = 3\nlocal.y = 2\nend\n"),
    ("w:store-field-ref-int", "main:\nlocal.five = 5\nlocal.five.y[2] = 3\nlocal.y = 2\nend\n"),
    ("w:store-owner-noself", "main:\nlocal.o = owner\nlocal.y = 2\nend\n"),
    ("w:load-store-self-noself", "main:\nself.x = 1\nlocal.y = self.x\nlocal.y = 2\nend\n"),
    ("w:load-field-nil", "main:\nlocal.n.f = 1\nlocal.n.f.g = 2\nend\n"),
    ("w:store-field-nil", "main:\nlocal.q = local.n.f\nlocal.q = local.five.g + 1\nend\n"),
    ("w:classname-readonly", "main:\nlocal.classname = 2\nlevel.classname = 3\nend\n"),
    ("w:exec-method-null", "main:\nlocal.q = NULL thread main\nlocal.r = local.nil waitthread main 1 2 3 4 5 6\nNIL println 1 2 3\nend\n"),
    ("w:array-errors", "main:\nlocal.q = local.a[1][2]\nlocal.s = \"str\"\nlocal.s[1][2] = 3\nlocal.q = (1::2)[9]\nlocal.q = 1 / 0\nend\n"),
    ("w:uncaught-throw", "main:\ntry {\nthrow nobody 1\n} catch {\nsome: local.a = 1\n}\nend\n"),
    ("w:goto-missing", "main:\ngoto nowhere\nlocal.a = 1\nend\n"),
    ("w:host-writeonly-read", "main:\nlocal.p = spawn VProbe\nlocal.q = local.p.vp_wonly\nlocal.y = 1\nend\n"),
    ("w:host-getter-raises", "main:\nlocal.p = spawn VProbe\nlocal.q = local.p.vp_failget\nlocal.y = 1\nend\n"),
    ("w:host-setter-raises", "main:\nlocal.p = spawn VProbe\nlocal.p.vp_failset = 3\nlocal.p.vp_ronly = 4\nlocal.p.vp_failset[1] = 2\nend\n"),
    ("w:host-command-raises", "main:\nlocal.p = spawn VProbe\nlocal.p vp_fail 1 2\nlocal.z = local.p vp_failret 1 2 3 4 5 6\nlocal.z = local.p vp_echo 1 2 3 4 5 6\nend\n"),
    ("w:group-field-nonlistener", "main:\nlevel.t = NIL::\"b\"::game.m\nlevel.t.b = 1\nlocal.y = 2\nend\n"),
    ("w:group-field-members", "main:\nlocal.a = spawn VProbe \"targetname\" \"grp\"\nlocal.b = spawn VProbe \"targetname\" \"grp\"\n$grp.x = 1\n$grp.vp_failset = 2\n$grp.vp_ronly = 3\nlocal.q = $grp.x\n$grp println 1\nend\n"),
    ("w:self-host-variables", "main:\nself.vp_ronly = 1\nself.vp_failset = 2\nlocal.q = self.vp_wonly\nself.x = 1\nlocal.q = self.x\nself vp_fail\nend\n"),
]


# ---------------------------------------------------------------------------------------------
# running programs through both sides

class Case:
    __slots__ = ("name", "nodes", "src", "opts", "hline", "dline", "static", "dyn", "crash", "sig", "why", "rw")

    def __init__(self, name, nodes=None, src=None, opts="", rw=None):
        self.name, self.nodes, self.opts, self.rw = name, nodes, opts, rw
        self.src = src if src is not None else bcgen.render(nodes)
        self.hline = self.dline = None
        self.static = self.dyn = self.crash = self.sig = self.why = None

    def line(self):
        return ("prog " + binascii.hexlify(self.src.encode()).decode() + " " + self.opts).strip()


def run_harness(exe, cases, timeout_per=8):
    """fills case.hline for every case; the harness is restarted after a crash (the crashing program's
    partial line comes from the sanitizer death callback)"""
    i = 0
    env = dict(os.environ)
    env.update(common.ASAN_ENV)
    env["UBSAN_OPTIONS"] = common.ASAN_ENV["UBSAN_OPTIONS"] + ":abort_on_error=1"     # SIGABRT -> the harness prints its partial line
    while i < len(cases):
        chunk = cases[i:i + 200]
        inp = "\n".join(c.line() for c in chunk) + "\n"
        try:
            p = subprocess.run([exe], input=inp, stdout=subprocess.PIPE, stderr=subprocess.PIPE, text=True,
                               errors="replace", env=env, timeout=30 + timeout_per * len(chunk))
            out, err, rc = p.stdout, p.stderr, p.returncode
        except subprocess.TimeoutExpired as e:
            out = e.stdout.decode(errors="replace") if isinstance(e.stdout, bytes) else (e.stdout or "")
            err, rc = "timeout", -9
        lines = out.split("\n")
        if lines and lines[-1] == "":
            lines.pop()
        for k, l in enumerate(lines[:len(chunk)]):
            chunk[k].hline = l
        done = min(len(lines), len(chunk))
        if rc != 0:
            if done == 0 or " crash=" not in (chunk[done - 1].hline or ""):
                # died without a line for the program it was running
                if done < len(chunk):
                    chunk[done].hline = "harness-died " + ("timeout" if rc == -9 else common.crash_signature(err))
                    done += 1
            else:
                chunk[done - 1].crash = common.crash_signature(err)
        elif done < len(chunk):
            raise common.CheckError("harness answered %d lines for %d programs" % (done, len(chunk)))
        i += done


def run_driver(cases):
    todo = [c for c in cases if c.hline and c.hline.startswith("dump ")]
    if not todo:
        return
    out = common.run_model(AREA, [c.hline for c in todo], timeout=1800)
    if len(out) != len(todo):
        raise common.CheckError("driver answered %d lines for %d dumps" % (len(out), len(todo)))
    for c, o in zip(todo, out):
        c.dline = o
        parts = o.split(" | ")
        c.static = parts[0]
        c.dyn = parts[1] if len(parts) > 1 else ""


def kv(text, key):
    m = re.search(r"(?:^| )%s=(\S*)" % re.escape(key), text or "")
    return m.group(1) if m else ""


def classify(c):
    """sets c.sig / c.why; returns 'ok' | 'violation' | 'foreign-crash' | 'compile-error' | 'harness-died'"""
    h = c.hline or ""
    if h.startswith("compile-error"):
        t = h.split(" ")
        c.sig = "compile-error:" + (t[1] if len(t) > 1 else "?")
        return "compile-error"
    if h.startswith("harness-died"):
        c.sig = "harness-died:" + h.split(" ", 1)[1]
        c.why = "the harness died without answering (no death callback output): " + h
        return "harness-died"
    if not h.startswith("dump "):
        c.sig = "bad-answer"
        c.why = "unexpected harness answer: " + h[:200]
        return "harness-died"
    crashed = " crash=" in h
    if c.static.startswith("reject"):
        c.sig = "static:%s:%s" % (kv(c.static, "rule"), kv(c.static, "op"))
        c.why = "the verifier rejects a program the real compiler accepted: " + c.static + " | " + c.dyn
        return "violation"
    if c.dyn.startswith("dyn-bad"):
        c.sig = "dyn:%s:%s" % (kv(c.dyn, "kind"), kv(c.dyn, "op"))
        c.why = "the real VM made a transition the abstract VM does not have / broke the stack discipline: " + c.dyn + (
            " (then crashed: %s)" % c.crash if crashed else "")
        return "violation"
    if crashed:
        c.sig = "foreign-crash:" + (c.crash or "?")
        c.why = "sanitizer abort while every recorded transition agrees with the abstract VM: " + (c.crash or "?")
        return "foreign-crash"
    c.sig = "ok"
    return "ok"


def evaluate(exe, cases):
    run_harness(exe, cases)
    run_driver(cases)
    return [classify(c) for c in cases]


def rw_case(k, v, only=None):
    p = ringwrap.program(k, v, typed_only=False, only=only)
    return Case(p["name"] + ("" if only is None else ":units=" + ",".join(p["units"])), src=p["src"], rw=(k, v, only))


def large_cases(quick):
    """operand counts around the widths of the count operands (bcgen.large_family / large_param_family)"""
    sizes = None if quick else bcgen.LARGE_SIZES + [511, 512, 513, 5000]
    fam = bcgen.large_family(sizes) + bcgen.large_param_family()
    if not quick:
        # heights beyond 32767: the emitter's running height and maxima must not wrap (notes/C02-findings.md F7)
        fam += [x for x in bcgen.large_family([40000]) if x[0].startswith(("large:carr:int", "large:makearray:"))]
    return [Case(n, src=s, opts=o) for n, s, o in fam]


def ringwrap_cases(ctx, quick):
    """tools/vlib/ringwrap.py: every peephole-sensitive shape behind every pad 2..N (N covers two wrap-arounds of
    the emitter's 100-entry look-back ring), several stale-maker rotations, one of them chosen by the seed"""
    ks = range(2, 212) if quick else range(2, 412)
    vs = [0, 1, 2] if quick else list(range(10))
    vs.append(10 + ctx.rng("ringwrap").randrange(1000))
    return [rw_case(k, v) for v in vs for k in ks]


def shrink_ringwrap(exe, case):
    """parametric shrinking of a ring-wrap program: (1) shortest failing prefix of its units (binary search),
    (2) the last unit of that prefix alone behind every pad 2..101 (the pad that puts it on the same ring
    index).  A candidate counts when it fails in the same class (static / dyn / harness-died)."""
    k, v, only = case.rw
    cls = (case.sig or "").split(":")[0]

    def fails(c):
        val = evaluate(exe, [c])[0]
        return val in ("violation", "harness-died") and (c.sig or "").split(":")[0] == cls
    n = len(ringwrap.units(v, typed_only=False))
    lo, hi = 1, n                     # smallest prefix length that fails
    best = case
    while lo < hi:
        mid = (lo + hi) // 2
        c = rw_case(k, v, only=list(range(mid)))
        if fails(c):
            hi, best = mid, c
        else:
            lo = mid + 1
    j = lo - 1
    singles = [rw_case(kk, v, only=[j]) for kk in range(2, 102)]
    verdicts = evaluate(exe, singles)
    for c, val in zip(singles, verdicts):
        if val in ("violation", "harness-died") and (c.sig or "").split(":")[0] == cls:
            return c
    if best is case and n > 1:
        c = rw_case(k, v, only=list(range(lo)))
        if fails(c):
            best = c
    return best


def shrink(exe, case, budget_s=60, max_tests=900):
    """tree delta debugging towards programs that fail with the same signature"""
    if case.rw is not None:
        return shrink_ringwrap(exe, case)
    if case.nodes is None:
        return case
    t0 = time.time()
    cur = case
    tests = 0
    progress = True
    while progress and time.time() - t0 < budget_s and tests < max_tests:
        progress = False
        cands = []
        for nodes in bcgen.shrink_candidates(cur.nodes):
            cands.append(Case(case.name, nodes=nodes, opts=case.opts))
            if len(cands) >= 12:
                break
        if not cands:
            break
        # candidates are independent: evaluate a handful at once, take the first that still fails alike
        verdicts = evaluate(exe, cands)
        tests += len(cands)
        for cand, v in zip(cands, verdicts):
            if v in ("violation", "foreign-crash", "harness-died") and cand.sig == case.sig:
                cur = cand
                progress = True
                break
        if not progress:
            # try the remaining candidates in further batches
            rest = list(bcgen.shrink_candidates(cur.nodes))[12:72]
            for j in range(0, len(rest), 12):
                if time.time() - t0 > budget_s or tests >= max_tests:
                    break
                cs = [Case(case.name, nodes=n, opts=case.opts) for n in rest[j:j + 12]]
                vs = evaluate(exe, cs)
                tests += len(cs)
                hit = [cand for cand, v in zip(cs, vs) if v != "ok" and cand.sig == case.sig]
                if hit:
                    cur = hit[0]
                    progress = True
                    break
    return cur


# ---------------------------------------------------------------------------------------------
# translators and the facts of the Lean side

FACTS_SRC = """import MorfuseModel.Bytecode.VmErrors
open Morfuse.Bytecode Morfuse.Bytecode.Gen
#eval IO.println s!"FACT errorPathsRepaired {errorPathsRepaired}"
#eval IO.println s!"FACT transcriptionCurrent {transcriptionCurrent}"
#eval IO.println s!"FACT tableDisagrees {(Opcode.all.filter (fun o => !agrees o)).map (·.name)}"
#eval IO.println s!"FACT errorPathBroken {(Opcode.all.filter (fun o => !errOk o)).map (·.name)}"
"""


def lean_facts(ctx):
    path = os.path.join(ctx.tmp, "Facts.lean")
    with open(path, "w") as f:
        f.write(FACTS_SRC)
    with common.LakeLock():
        p = common.sh(["lake", "env", "lean", path], cwd=LEAN, timeout=900)
    facts = {}
    for m in re.finditer(r"^FACT (\w+) (.*)$", p.stdout, re.M):
        facts[m.group(1)] = m.group(2).strip()
    if len(facts) < 4:
        return None, (p.stdout + p.stderr)[-2000:]
    return facts, ""


def name_list(text):
    return re.findall(r"OP_[A-Z0-9_]+", text or "")


def translate(ctx):
    hints = []
    try:
        rows, consts = gen_opcodes.generate()
        ctx.oblige("(T1) OpcodeInfo[] has one row per enumerator before OP_PREVIOUS (%d)" % len(rows),
                   consts["table_rows"] == len(rows), "table rows: %d, enumerators: %d" % (consts["table_rows"], len(rows)))
        ctx.stats["opcodes"] = len(rows)
    except gen_opcodes.TranslateError as e:
        ctx.oblige("(T1) opcode table regenerated from ScriptOpcodes.{h,cpp}", False, str(e))
        rows = None
    try:
        variants, unknown = gen_vmcases.generate(opcode_names=[r[1] for r in rows] if rows else None)
        ctx.oblige("(T2) every case block / helper of the decode loop has a text the hand model was transcribed from (%d cases, %d helpers)" % (
            len(variants["cases"]), len(variants["helpers"])), not unknown,
            "changed: " + "; ".join(unknown[:12]) + " - lean/MorfuseModel/Bytecode/VmModel.lean / VmErrors.lean must be re-read against the source and tools/props/c02_vmsigs.json updated")
        ctx.stats["vm_text_variants"] = {k: v for k, v in list(variants["cases"].items()) + list(variants["helpers"].items()) if v != 1}
        for u in unknown:
            hints += name_list(u)
            if u.startswith("helper"):
                hints += ["LOAD_", "STORE_", "EXEC_", "JUMP", "BOOL_", "VAR_", "SWITCH"]
    except gen_vmcases.TranslateError as e:
        ctx.oblige("(T2) decode loop fingerprinted", False, str(e))
    return hints


# ---------------------------------------------------------------------------------------------

def corpus_cases():
    res = []
    for p in sorted(glob.glob(os.path.join(VERIF, "corpus", "C02", "*.json"))):
        obj = json.load(open(p))
        res.append(Case("corpus:" + os.path.basename(p), src=obj["source"], opts=obj.get("opts", "")))
    return res


def build(ctx):
    return common.build_full(ctx, "h_bytecode", ["bytecode.cpp"])


def save_case(ctx, c, kind, verdict):
    return common.save_replay(ctx, {
        "property": ctx.prop_id, "kind": kind, "case": c.name, "area": AREA, "source": c.src, "opts": c.opts,
        "harness_out": (c.hline or "")[:20000], "driver_out": c.dline, "crash": c.crash, "verdict": verdict,
        "why": c.why, "signature": c.sig,
        "how_to_replay": "python3 tools/check.py %s --replay <this file>" % ctx.prop_id})


def check(ctx):
    quick = ctx.tier == "quick"
    hints = translate(ctx)
    proofs_ok, out = common.proof_side(ctx, PROPS_MODULE, PROPS_FILE)
    if not ctx.stats.get("lake_build_ok"):
        # the theorems do not build (a table / fingerprint obligation broke): the driver only needs the model
        with common.LakeLock():
            p = common.sh(["lake", "build", "driver"], cwd=LEAN, timeout=3600)
        if p.returncode != 0 or not os.path.exists(common.DRIVER):
            return common.finish(ctx, "proof", {"evaluations": 0, "distinct_nontrivial": 0, "rule": "the model itself no longer builds", "exhaustive": False},
                                 TRUSTED, ASSUME, "cd lean && lake build")
        ctx.notes.append("lake build failed, driver built on its own: " + out[-600:].replace("\n", " | "))
    facts, ferr = lean_facts(ctx)
    if facts is None:
        ctx.oblige("model facts readable (#eval over Bytecode/VmErrors.lean)", False, ferr)
        facts = {}
    else:
        dis = name_list(facts.get("tableDisagrees"))
        ctx.oblige("table_matches_vm: no opcode of the regenerated table disagrees with the hand model of the VM", not dis,
                   "disagreeing: " + ", ".join(dis), reported=True)
        hints += dis
        broken = name_list(facts.get("errorPathBroken"))
        ctx.oblige("error paths of the hand model leave the VM where the verifier assumes (the closed boolean C02_error_effect is proved from)",
                   facts.get("errorPathsRepaired") == "true", "error paths that do not: " + ", ".join(broken), reported=True)
        hints += broken
    if not quick and proofs_ok:
        common.leanchecker(ctx, PROPS_MODULE)
    exe = build(ctx)

    stats = {"programs": 0, "accepted": 0, "compile_errors": {}, "runs": {}, "foreign_crashes": {}, "edges": 0, "starts": 0,
             "ends": 0, "instrs": 0, "reached": 0, "maxh": 0, "stale": 0}
    ophist, stmthist = {}, {}
    distinct = set()
    failures = {}     # signature -> first case
    foreign = {}      # foreign-crash signature -> first case
    fam_rejected = {}  # deterministic family member the compiler refuses although it is valid by construction

    def account(cases, verdicts):
        for c, v in zip(cases, verdicts):
            stats["programs"] += 1
            if v == "compile-error":
                stats["compile_errors"][c.sig] = stats["compile_errors"].get(c.sig, 0) + 1
                if c.name.startswith(("ringwrap:", "large:")) and not c.name.endswith(":reject"):
                    fam_rejected.setdefault(c.name.split(":k")[0] if c.rw else c.name, c)
                continue
            if v == "foreign-crash":
                stats["foreign_crashes"][c.sig] = stats["foreign_crashes"].get(c.sig, 0) + 1
                foreign.setdefault(c.sig, c)
            if v in ("violation", "harness-died"):
                failures.setdefault(c.sig, c)
            if c.hline and c.hline.startswith("dump "):
                for r in kv(c.hline, "runs").split(";"):
                    if r:
                        k = r.rsplit(":", 1)[-1]
                        stats["runs"][k] = stats["runs"].get(k, 0) + 1
                stats["stale"] += int(kv(c.hline, "stale") or 0)
            if c.static and c.static.startswith("accept"):
                stats["accepted"] += 1
                stats["instrs"] += int(kv(c.static, "instrs") or 0)
                reached = int(kv(c.static, "reached") or 0)
                stats["reached"] += reached
                stats["maxh"] = max(stats["maxh"], int(kv(c.static, "maxh") or 0))
                for item in kv(c.static, "ops").split(","):
                    if ":" in item:
                        k, n = item.split(":")
                        ophist[k] = ophist.get(k, 0) + int(n)
                if c.dyn.startswith("dyn-ok"):
                    e = int(kv(c.dyn, "edges") or 0)
                    stats["edges"] += e
                    stats["starts"] += int(kv(c.dyn, "starts") or 0)
                    stats["ends"] += int(kv(c.dyn, "ends") or 0)
                    if reached >= 8 and e >= 4:
                        distinct.add(hashlib.sha1(kv(c.hline, "code").encode()).hexdigest())

    def run(cases):
        verdicts = evaluate(exe, cases)
        account(cases, verdicts)
        return verdicts

    # 1. corpus and witnesses (each once without and once with a `self`)
    fixed = corpus_cases() + [Case(n, src=s) for n, s in WITNESSES] + [Case(n + "+self", src=s, opts="self=1") for n, s in WITNESSES]
    run(fixed)
    # 1b. deterministic families: ring-wrap sweep of the peephole shapes, large operand counts
    fam = ringwrap_cases(ctx, quick) + large_cases(quick)
    ctx.stats["family_programs"] = {"ringwrap": sum(1 for c in fam if c.rw), "large": sum(1 for c in fam if not c.rw)}
    for j in range(0, len(fam), 100):
        run(fam[j:j + 100])
    # 2. random programs
    rng = ctx.rng("random")
    n = 700 if quick else 12000
    batch = []
    t_gen = time.time()
    for i in range(n):
        g = bcgen.Gen(rng, max_depth=6 if i % 3 else 4)
        nodes = g.program()
        for k, v in g.hist.items():
            stmthist[k] = stmthist.get(k, 0) + v
        opts = "self=1" if i % 4 == 3 else ("nargs=%d" % (i % 5) if i % 4 == 1 else "")
        batch.append(Case("random:%d" % i, nodes=nodes, opts=opts))
        if len(batch) == 100:
            run(batch)
            batch = []
        if len(failures) >= 12:
            break
    if batch:
        run(batch)
    # 3. error-free programs (no deliberate errors: the static clauses on larger control flow)
    rng2 = ctx.rng("clean")
    batch = []
    for i in range(120 if quick else 2500):
        g = bcgen.Gen(rng2, size=rng2.choice([8, 12, 20]), max_depth=6, errors=0.0)
        batch.append(Case("clean:%d" % i, nodes=g.program(), opts="nargs=%d" % (i % 4)))
    for j in range(0, len(batch), 100):
        run(batch[j:j + 100])
    # 4. targeted programs when a table / fingerprint / error-path obligation names opcodes
    hints = sorted(set(hints))
    if hints:
        rng3 = ctx.rng("targeted")
        tb = []
        for hname in hints[:20]:
            for k in range(3 if quick else 10):
                tb.append(Case("targeted:%s:%d" % (hname, k), nodes=bcgen.targeted(rng3, hname), opts="self=1" if k % 2 else ""))
        run(tb)
        ctx.stats["targeted_for"] = hints[:20]

    # verdicts
    nfail = 0
    for sig, c in sorted(failures.items()):
        nfail += 1
        if nfail > 6:
            break
        small = shrink(exe, c, budget_s=40 if quick else 120)
        evaluate(exe, [small])
        classify(small)
        replay = save_case(ctx, small, "program", "violation")
        ctx.violations.append({"signature": sig, "replay": replay, "why": small.why or c.why, "found_input": True})
    for name, c in sorted(fam_rejected.items())[:3]:
        c.sig = "family-rejected:" + name
        c.why = ("the compiler refuses `%s`, a program of the deterministic families that is valid by construction (%s): the clauses of C02 are "
                 "unobserved for the construct it exists to exercise (operand counts up to the width of the count operand / peephole shapes); "
                 "harness: %s" % (c.name, name, (c.hline or "")[:300]))
        replay = save_case(ctx, c, "program", "family-rejected")
        ctx.violations.append({"signature": c.sig, "replay": replay, "why": c.why, "found_input": True})
    ctx.oblige("(coverage) every program of the deterministic families (ring-wrap sweep, large operand counts up to the count operands' width) is accepted by the compiler",
               not fam_rejected, "%d refused: %s" % (len(fam_rejected), ", ".join(sorted(fam_rejected)[:8])), reported=True)
    ctx.oblige("correspondence: every program the real compiler accepted (%d) passes the proved verifier, and every transition of the real VM (%d) is a transition of the abstract VM, threads end with an empty stack" % (
        stats["accepted"], stats["edges"]), not failures, "%d distinct failure signatures: %s" % (len(failures), ", ".join(sorted(failures)[:8])), reported=True)
    ctx.stats.update({k: v for k, v in stats.items()})
    ctx.stats["statement_histogram"] = stmthist
    ctx.stats["gen_wall_s"] = round(time.time() - t_gen, 1)
    for sig, c in sorted(foreign.items())[:4]:
        small = shrink(exe, c, budget_s=15 if quick else 40, max_tests=300)
        evaluate(exe, [small])
        path = save_case(ctx, small, "foreign-crash", "not-a-C02-violation")
        ctx.notes.append("foreign crash %s: %s (%d lines) %s" % (sig, path, small.src.count("\n"), json.dumps(small.src[:400])))
    if stats["foreign_crashes"]:
        ctx.notes.append("sanitizer aborts outside C02 (all recorded transitions agree with the abstract VM; memory safety of commands and value operations is C04): %s" % json.dumps(stats["foreign_crashes"]))
    sample_gen = bcgen.Gen(ctx.rng("sample"), size=3, labels=1)
    ctx.samples = [{"source": bcgen.render(sample_gen.program())}, {"source": WITNESSES[1][1]}]
    cov = {
        "evaluations": stats["programs"], "distinct_nontrivial": len(distinct),
        "rule": "programs from tools/vlib/bcgen.py + ringwrap.py: deterministic families (ring-wrap sweep: every peephole-sensitive statement shape behind every pad of 2..N recorded opcodes with rotating stale-makers; constant arrays / makeArray / parameter lists with 2..1000 operands), %d random (12%% deliberate error statements, depth <= 6, 1-5 labels with 0-3 parameters, run with 0-4 host arguments, every 4th with a `self` entity), error-free ones with larger control flow, %d fixed witnesses/corpus, targeted ones when an obligation names opcodes; each compiled by the real compiler, verified by the compiled Lean verifier, every label run on the real VM under H4; non-trivial = accepted, >= 8 reached instructions and >= 4 distinct VM transitions replayed; distinct by SHA-1 of the emitted code" % (n, len(fixed)),
        "traces_validated_against_impl": stats["edges"] + stats["starts"] + stats["ends"],
        "reached_opcode_histogram": ophist, "compile_errors": stats["compile_errors"], "run_outcomes": stats["runs"],
        "exhaustive": False,
    }
    return common.finish(ctx, "proof", cov, TRUSTED, ASSUME,
                         "python3 tools/gen_opcodes.py && python3 tools/gen_vmcases.py && cd lean && lake build && lake env lean <Audit.lean with #print axioms>; tools/check.py C02")


def replay(ctx, obj):
    translate(ctx)
    common.lake_build(["driver"])
    if "source" not in obj:
        print("replay file names a proof obligation, not an input:", obj.get("obligation"), (obj.get("detail") or "")[:3000])
        return 1
    exe = build(ctx)
    c = Case(obj.get("case", "replay"), src=obj["source"], opts=obj.get("opts", ""))
    v = evaluate(exe, [c])[0]
    print(c.src)
    print("harness:", (c.hline or "")[:3000])
    print("driver :", c.dline)
    if c.crash:
        print("crash  :", c.crash)
    print("verdict:", v, c.sig, "-", c.why or "")
    bad = v in ("violation", "harness-died")
    print("replay:", "still fails" if bad else "the property holds on this input")
    return 1 if bad else 0
