"""C03 — programs compute what the language rules say (DESIGN.md 7.10, notes/C03-design.md).

proof side : Props/C03.lean (literal round trip / minimal width / unary-minus folding over the regenerated
             EmitInteger + OP_STORE_INT* tables, parser/printer round trip for every precedence assignment +
             the regenerated yyParser.yy table ordered like the reference, desugaring and fuel theorems of Lang.Sem)
tie        : (T) Gen/Precedence.lean, Gen/IntEnc.lean regenerated from /repo on every run;
             (D) typed programs in several layouts on the real engine (harness/langrun.cpp) vs Lang.Sem
                 (lean driver `lang`): Output stream, host result, level/game/parm variables; all layouts equal;
                 expression trees: real parse tree vs the precedence-climbing model.
"""
import glob
import json
import os
import re
import time

from vlib import common, proggen, c03gen, ringwrap
from vlib.common import Diff, VERIF, LEAN

AREA = "lang"
PROPS_MODULE = "MorfuseModel.Props.C03"
PROPS_FILE = os.path.join(LEAN, "MorfuseModel", "Props", "C03.lean")
TABLE_OBLIGATIONS = ["Morfuse.Lang.PrecTable.gen_all_left", "Morfuse.Lang.PrecTable.gen_order_eq_ref",
                     "Morfuse.Lang.PrecTable.gen_unary_tighter"]

TRUSTED = [
    "Lean 4.33.0 kernel (lake build; leanchecker in the thorough tier); axioms audited: propext, Classical.choice, Quot.sound",
    "hand-written reference semantics lean/MorfuseModel/Lang/{Syntax,Value,Sem}.lean (rules extracted from Compiler.cpp, ScriptVMOperation.cpp, ScriptVariable.cpp, ScriptVM.cpp, Listener.cpp), tied to the engine only by the differential run",
    "translators tools/vlib/c03gen.py (regex over yyParser.yy, EmitInteger, EvalPrevValue, OP_STORE_INT* cases, setIntValue/setLongValue signatures)",
    "generator/renderer tools/vlib/proggen.py (the layouts it prints are claimed to be spellings of the AST it hands to Lean; validated by the parse-tree dump for expressions and by the plain layout agreeing with Lang.Sem)",
    "harness/langrun.cpp canonical printing; g++ 12 / ASan / UBSan subset; flex/bison generated lexer and parser; libc strtoll/strtof",
    "the lexer (yyLexer.l) is not modelled: token spelling rules (blank before unary minus, etc.) are built into the renderer",
]
ASSUME = [
    "programs are the typed fragment of tools/vlib/proggen.py: integers, strings, NIL, chars from string indexing, arrays of a fixed shape class; no floats, vectors, listeners other than the five scope objects, const arrays, wait/notify",
    "a callee started with `thread` never executes `waitthread` (it would suspend and interleave with its caller; Lang.Sem runs calls synchronously)",
    "array keys are integers or non-numeric strings (an integer key and the string of its digits hash differently but compare equal: table-state dependent behaviour, not generated)",
    "every `throw` is caught in its own thread; `goto` targets carry no parameters; case labels fit in 32 bits",
    "no program reaches a script error or a division by zero (by construction)",
]


# --------------------------------------------------------------------------------------------
# classification

def fields(line):
    d = {}
    for tok in line.split(" "):
        if "=" in tok:
            k, v = tok.split("=", 1)
            d[k] = v
    return d


class Prop:
    def classify(self, lines, impl, crash, model):
        if crash:
            return "violation", "the engine crashed / sanitizer report / did not return: " + crash, crash
        i = common.first_diff(impl, model)
        a = impl[i] if i is not None and i < len(impl) else "<missing>"
        b = model[i] if i is not None and i < len(model) else "<missing>"
        line = lines[i] if i is not None and i < len(lines) else ""
        kind = line.split(" ", 1)[0]
        if kind == "tree":
            if b.startswith("tree") and not a.startswith("tree"):
                return "violation", "a valid expression is rejected by the real parser: %s (reference tree %s)" % (a, b), "parse-tree:rejected"
            return "violation", "the real parser builds %s, the language's precedence rules give %s" % (a, b), "parse-tree:shape"
        if not (b.startswith("ok ")):
            # the reference semantics itself failed on this input: generator or model at fault, not the engine
            return "harmless", "Lang.Sem answers `%s` on a generated program (generator/model defect); engine: %s" % (b[:200], a[:200]), "model:" + b.split(" ")[0]
        if a.startswith("LAYOUT-DIFF"):
            return "violation", "two spellings of the same program behave differently on the engine: " + a[:600], "layout-diff"
        if a.startswith("err "):
            k = a.split(" ")[1]
            return "violation", "a valid program is not accepted / not run to the end by the engine (%s); reference result %s" % (k, b[:300]), "engine-err:" + k
        fa, fb = fields(a), fields(b)
        if fa.get("warn", "0") != "0":
            return "violation", "the engine raised a script error on an error-free program: %s" % fa.get("warn"), "script-error"
        for k in ("out", "ret", "level", "game", "parm", "idle"):
            if fa.get(k) != fb.get(k):
                return "violation", "observable `%s` differs: engine %s, reference %s" % (k, (fa.get(k) or "")[:300], (fb.get(k) or "")[:300]), "diff:" + k
        return "violation", "engine line %s, reference line %s" % (a[:300], b[:300]), "diff:other"


# --------------------------------------------------------------------------------------------
# AST shrinking (the generic line-based ddmin cannot shrink a one-line case)

def stmt_lists(prog):
    """every statement list of the program as (getter path) — we shrink by deleting single statements"""
    out = []

    def walk(ss, path):
        out.append(path)
        for i, s in enumerate(ss):
            t = s[0]
            if t == "block":
                walk(s[1], path + [(i, 1)])
            elif t == "ite":
                walk(s[2], path + [(i, 2)]); walk(s[3], path + [(i, 3)])
            elif t in ("while",):
                walk(s[2], path + [(i, 2)])
            elif t == "for":
                walk(s[4], path + [(i, 4)])
            elif t == "dowhile":
                walk(s[1], path + [(i, 1)])
            elif t == "switch":
                walk(s[2], path + [(i, 2)])
            elif t == "try":
                walk(s[1], path + [(i, 1)]); walk(s[2], path + [(i, 2)])
    walk(prog, [])
    return out


def get_list(prog, path):
    ss = prog
    for i, f in path:
        ss = ss[i][f]
    return ss


def replace_list(prog, path, new):
    if not path:
        return new
    i, f = path[0]
    s = prog[i]
    s2 = tuple(replace_list(s[f], path[1:], new) if k == f else x for k, x in enumerate(s))
    return prog[:i] + [s2] + prog[i + 1:]


def live_consts(g):
    """constants whose defining assignment `k = literal` is still in the program (a layout may inline only those)"""
    defs = []

    def walk(ss):
        for s in ss:
            if not isinstance(s, tuple):
                continue
            if s[0] == "assign" and s[1][0] == "var" and s[2][0] in ("int", "str", "neg"):
                defs.append((("var", s[1][1], s[1][2]), s[2]))
            for x in s[1:]:
                if isinstance(x, list) and x and isinstance(x[0], tuple) and x[0] and isinstance(x[0][0], str):
                    walk(x)
    walk(g["prog"])
    return {k: v for k, v in g["consts"].items() if (k, v) in defs}


def shrink_program(g, fails, budget_s=120):
    """greedy: delete statements, hoist bodies of compound statements; `fails(g') -> bool`.
    After every accepted change the statement lists are enumerated afresh (paths shift)."""
    t0 = time.time()
    cur = g
    changed = True
    while changed and time.time() - t0 < budget_s:
        changed = False
        for path in stmt_lists(cur["prog"]):
            ss = get_list(cur["prog"], path)
            for i in range(len(ss) - 1, -1, -1):
                if time.time() - t0 >= budget_s:
                    break
                s = ss[i]
                if not path and i == 0:
                    continue                      # keep the entry label
                cands = [ss[:i] + ss[i + 1:]]
                bodies = ([s[1]] if s[0] in ("block", "dowhile") else [s[2], s[3]] if s[0] == "ite" else
                          [s[2]] if s[0] in ("while", "switch") else [s[4]] if s[0] == "for" else [s[1]] if s[0] == "try" else [])
                for body in bodies:
                    cands.append(ss[:i] + [x for x in body if x[0] not in ("case", "brk", "cont")] + ss[i + 1:])
                for new_ss in cands:
                    cand = dict(cur)
                    cand["prog"] = replace_list(cur["prog"], path, new_ss)
                    cand["consts"] = live_consts(cand)
                    if fails(cand):
                        cur = cand
                        changed = True
                        break
                if changed:
                    break
            if changed:
                break
    return cur


class LangDiff(Diff):
    def __init__(self, *a, **k):
        super().__init__(*a, **k)
        self.gens = {}           # case name -> generator object (for AST shrinking)
        self.base_timeout = 60

    def render_line(self, g, nlay, seed):
        import random
        rng = random.Random(seed)
        lays, _ = proggen.render_layouts(rng, g["prog"], g["consts"], nlay)
        return proggen.prog_line(g["prog"], g["label"], g["args"], lays), lays

    def report(self, name, case):
        g = self.gens.get(name)
        if g is None or not case[0].startswith("prog "):
            return super().report(name, case)
        ctx = self.ctx
        impl0, crash0, _, model0 = self.both(case)
        sig0 = crash0 if crash0 else self.prop.classify(case, impl0, crash0, model0)[2]
        nlay = 3 if sig0 == "layout-diff" else 1
        seeds = [11, 12, 13, 14] if nlay > 1 else [11]

        def line_fails(line):
            impl, crash, info, model = self.both([line])
            if crash is None and common.first_diff(impl, model) is None:
                return False
            sig = crash if crash else self.prop.classify([line], impl, crash, model)[2]
            return sig == sig0

        def fails(cand):
            for sd in seeds:
                try:
                    line, _ = self.render_line(cand, nlay, sd)
                except Exception:
                    return False
                if line_fails(line):
                    cand["_seed"] = sd
                    return True
            return False
        small = g
        if fails(dict(g)):
            small = shrink_program(dict(g), fails, budget_s=90 if ctx.tier == "quick" else 240)
            fails(small)
            line, lays = self.render_line(small, nlay, small.get("_seed", 11))
        else:
            line, lays = case[0], []        # only the original rendering fails: keep it as it is
        impl, crash, info, model = self.both([line])
        verdict, why, sig = self.prop.classify([line], impl, crash, model)
        if crash is not None:
            sig = crash
        replay = common.save_replay(ctx, {
            "property": ctx.prop_id, "kind": "correspondence", "case": name, "area": self.area,
            "lines": [line], "sources": lays, "ast": proggen.to_sexp(small["prog"]), "host_args": small["args"],
            "impl_out": impl, "model_out": model, "crash": crash, "crash_info": info if crash else "",
            "verdict": verdict, "why": why, "signature": sig,
            "how_to_replay": "python3 tools/check.py C03 --replay <this file>",
        })
        ctx.violations.append({"signature": sig, "replay": replay, "why": why, "found_input": verdict == "violation"})
        return verdict


# --------------------------------------------------------------------------------------------
# deterministic families

MASK = (1 << 64) - 1


def s64(v):
    v &= MASK
    return v - (1 << 64) if v >= 1 << 63 else v


def py_bin(op, a, b):
    """integer mirror used only to keep the operator-matrix programs error-free (None = would be an error)"""
    if op == "add": return s64(a + b)
    if op == "sub": return s64(a - b)
    if op == "mul": return s64(a * b)
    if op in ("div", "mod"):
        if b == 0:
            return None
        if b == -1:
            return s64(-a) if op == "div" else 0
        q = abs(a) // abs(b) * (1 if (a >= 0) == (b >= 0) else -1)
        return s64(q) if op == "div" else s64(a - q * b)
    if op == "band": return s64(a & b)
    if op == "bor": return s64(a | b)
    if op == "bxor": return s64(a ^ b)
    if op in ("shl", "shr"):
        b &= 63
        return s64(a << b) if op == "shl" else s64(a >> b)
    if op == "eq": return int(a == b)
    if op == "ne": return int(a != b)
    if op == "lt": return int(a < b)
    if op == "gt": return int(a > b)
    if op == "le": return int(a <= b)
    if op == "ge": return int(a >= b)
    if op == "land": return int(bool(a) and bool(b))
    if op == "lor": return int(bool(a) or bool(b))
    raise ValueError(op)


def py_eval(e, vals):
    t = e[0]
    if t == "var":
        return vals[e[2]]
    if t == "int":
        return e[1]
    if t == "neg":
        v = py_eval(e[1], vals)
        return None if v is None else s64(-v)
    if t in ("land", "lor"):
        a = py_eval(e[1], vals)
        if a is None:
            return None
        if t == "land" and not a:
            return 0
        if t == "lor" and a:
            return 1
        b = py_eval(e[2], vals)
        return None if b is None else int(bool(b))
    a, b = py_eval(e[2], vals), py_eval(e[3], vals)
    if a is None or b is None:
        return None
    return py_bin(e[1], a, b)


def mk_bin(op, a, b):
    return (op, a, b) if op in ("land", "lor") else ("bin", op, a, b)


def operator_matrix(rng):
    """every ordered pair of binary operators in both groupings, on constants k1..k3 (so that the
    inlining layouts give the constant-folded spelling and the plain one the run-time spelling)"""
    ops = list(proggen.OPTEXT.keys())
    cases = []
    trip_pool = [(7, 3, 2), (100, 7, 3), (-9, 4, 2), (65536, 255, 3), (5, 1, 1), ((1 << 32) + 1, 3, 2), (-(1 << 40), 5, 1), (1, 2, 3)]
    stmts, consts = [], {}
    idx = 0
    for o1 in ops:
        for o2 in ops:
            for shape in (0, 1):
                done = False
                for a, b, c in trip_pool:
                    vals = {"k1": a, "k2": b, "k3": c}
                    ka, kb, kc = [("var", "local", n) for n in ("k1", "k2", "k3")]
                    e = mk_bin(o2, mk_bin(o1, ka, kb), kc) if shape == 0 else mk_bin(o1, ka, mk_bin(o2, kb, kc))
                    if py_eval(e, vals) is not None:
                        done = True
                        break
                if not done:
                    continue
                stmts.append((vals, e, idx))
                idx += 1
    # pack ~40 expressions per program, grouped by operand triple
    by = {}
    for vals, e, i in stmts:
        by.setdefault((vals["k1"], vals["k2"], vals["k3"]), []).append((e, i))
    for (a, b, c), es in by.items():
        for off in range(0, len(es), 40):
            chunk = es[off:off + 40]
            prog = [("label", "main", [])]
            cs = {}
            for n, v in (("k1", a), ("k2", b), ("k3", c)):
                lit = ("int", v) if v >= 0 else ("neg", ("int", -v))
                prog.append(("assign", ("var", "local", n), lit))
                cs[("var", "local", n)] = lit
            for e, i in chunk:
                prog.append(("assign", ("var", "level", "r%d" % i), e))
            prog.append(("end", None))
            cases.append({"prog": prog, "label": "main", "args": [], "consts": cs})
    return cases


def literal_family():
    """every encoding boundary as a literal, negated, in a folded and in a run-time context"""
    vals = sorted(set(proggen.BOUNDARY + [(1 << 8) - 1, (1 << 16) - 1, (1 << 24) - 1, (1 << 32) - 1, (1 << 63) - 1, 254, 65534,
                                         (1 << 31) + 1, (1 << 33), (1 << 48) + 7, (1 << 62)]))
    prog = [("label", "main", [])]
    cs = {}
    for i, v in enumerate(vals):
        k = ("var", "local", "k%d" % i)
        prog.append(("assign", ("var", "local", "k%d" % i), ("int", v)))
        cs[k] = ("int", v)
        prog.append(("assign", ("var", "level", "p%d" % i), k))
        prog.append(("assign", ("var", "level", "n%d" % i), ("neg", k)))
        prog.append(("assign", ("var", "level", "c%d" % i), ("compl", k)))
        prog.append(("assign", ("var", "level", "s%d" % i), ("bin", "add", ("str", ""), k)))
        prog.append(("assign", ("var", "level", "b%d" % i), ("land", k, ("int", 1))))
        prog.append(("assign", ("var", "level", "t%d" % i), ("not", k)))
        prog.append(("assign", ("var", "level", "u%d" % i), ("not", ("not", k))))
        prog.append(("ite", ("not", k), [("print", True, [("str", "zero"), ("int", i)])], [("print", True, [("str", "nonzero"), ("int", i)])]))
        prog.append(("assign", ("var", "level", "e%d" % i), ("bin", "eq", k, ("str", str(v)))))
        prog.append(("assign", ("var", "level", "f%d" % i), ("bin", "eq", ("str", str(v)), ("bin", "add", k, ("int", 0)))))
        prog.append(("print", True, [k, ("neg", k), ("bin", "add", k, ("int", 1)), ("bin", "sub", ("neg", k), ("int", 1))]))
    prog.append(("assign", ("var", "level", "imin"), ("bin", "sub", ("neg", ("int", (1 << 63) - 1)), ("int", 1))))
    prog.append(("print", True, [("var", "level", "imin"), ("bin", "add", ("str", "x"), ("var", "level", "imin"))]))
    prog.append(("print", True, [("neg", ("var", "level", "imin")), ("compl", ("var", "level", "imin")),
                                 ("bin", "sub", ("var", "level", "imin"), ("int", 1)), ("bin", "mul", ("var", "level", "imin"), ("neg", ("int", 1))),
                                 ("bin", "shr", ("var", "level", "imin"), ("int", 63)), ("bin", "lt", ("var", "level", "imin"), ("int", 0))]))
    prog.append(("end", ("var", "level", "imin")))
    return [{"prog": prog, "label": "main", "args": [], "consts": cs}]


def regression_family():
    """hand-written programs for the rules whose violations were repaired earlier (kept as permanent corpus)"""
    L = ("var", "local", "i")
    out = []
    # nested try: innermost enclosing catch wins, outer one is reached when the inner one lacks the label
    prog = [("label", "main", []),
            ("try", [("try", [("throw", "e1", [("int", 1)])], [("label", "e1", [("local", "x")]), ("print", True, [("str", "inner"), ("var", "local", "x")])]),
                     ("try", [("throw", "e2", [("int", 2), ("str", "two")])], [("label", "e1", []), ("print", True, [("str", "wrong")])]),
                     ("print", True, [("str", "not reached")])],
             [("label", "e1", []), ("print", True, [("str", "outer e1")]),
              ("label", "e2", [("local", "y"), ("local", "z"), ("local", "w")]), ("print", True, [("str", "outer e2"), ("var", "local", "y"), ("var", "local", "z"), ("var", "local", "w")])]),
            ("end", ("int", 7))]
    out.append({"prog": prog, "label": "main", "args": [], "consts": {}})
    # break / continue inside switch and catch bodies inside loops
    prog = [("label", "main", []),
            ("for", [("assign", ("var", "local", "i"), ("int", 0))], ("bin", "lt", L, ("int", 6)), [("incr", ("var", "local", "i"))],
             [("switch", L, [("case", "1"), ("cont",), ("case", "3"), ("print", True, [("str", "three")]), ("case", "4"), ("brk",), ("case", "5"),
                             ("try", [("throw", "out", [])], [("label", "out", []), ("brk",)]), ("case", "default"), ("print", True, [("str", "d"), L])]),
              ("print", True, [("str", "after"), L]),
              ("ite", ("bin", "eq", L, ("int", 5)), [("brk",)], [])]),
            ("end", L)]
    out.append({"prog": prog, "label": "main", "args": [], "consts": {}})
    # const-string equality after integer keys, and string keys of arrays
    A = ("var", "local", "a")
    prog = [("label", "main", []),
            ("assign", ("idx", ("var", "local", "a"), ("int", 1)), ("int", 10)),
            ("assign", ("idx", ("var", "local", "a"), ("str", "k")), ("str", "v")),
            ("assign", ("idx", ("var", "local", "a"), ("int", 2)), ("int", 20)),
            ("print", True, [("index", A, ("str", "k")), ("bin", "eq", ("str", "k"), ("str", "k")), ("bin", "eq", ("index", A, ("str", "k")), ("str", "v")), ("size", A)]),
            ("assign", ("idx", ("var", "local", "a"), ("str", "k")), ("nil",)),
            ("print", True, [("size", A), ("bin", "eq", ("index", A, ("str", "k")), ("nil",))]),
            ("assign", ("var", "level", "a"), A),
            ("end", None)]
    out.append({"prog": prog, "label": "main", "args": [], "consts": {}})
    return out


def jump_target_family():
    """the emitter's peephole window must not reach across a jump target: one small program per (construct, scope)
    with a store to a plain variable x as the last operation before a jump target and a read (or read-modify-write)
    of the same x as the first operation behind it, every path into the target taken at run time
    (seeded change C03-ind-2: `ProcessContinueJumpLocations` without `ClearPrevOpcode()`)"""
    out = []
    I = ("var", "local", "i")
    for scope in ("local", "group", "level", "game", "parm"):
        X = ("var", scope, "x")
        pr = lambda tag: ("print", True, [("str", tag), X, I])
        init = [("label", "main", []), ("assign", X, ("int", 0)), ("assign", I, ("int", 0))]
        # continue target in front of a do/while condition that starts by reading x
        out.append(init + [("dowhile", [("incr", I), ("ite", ("bin", "eq", I, ("int", 2)), [("cont",)], []), ("assign", X, I)],
                            ("bin", "lt", X, ("int", 4))), pr("dowhile"), ("end", X)])
        # continue target in front of a for increment that reads x (x++, x += 1, x = x + 1 are layouts of one tree)
        out.append(init + [("for", [("assign", X, ("int", 0))], ("bin", "lt", X, ("int", 6)), [("incr", X)],
                            [("incr", I), ("ite", ("bin", "eq", X, ("int", 2)), [("cont",)], []), ("assign", X, ("bin", "add", X, ("int", 0)))]),
                           pr("for"), ("end", X)])
        # continue target in front of a while condition; the loop's exit (break target) followed by a read of x
        out.append(init + [("while", ("bin", "lt", X, ("int", 5)),
                            [("incr", I), ("ite", ("bin", "gt", I, ("int", 8)), [("brk",)], []),
                             ("ite", ("bin", "eq", I, ("int", 2)), [("assign", X, ("int", 3)), ("cont",)], []), ("assign", X, ("bin", "add", X, ("int", 1)))]),
                           ("assign", ("var", "level", "y"), X), pr("while"), ("end", X)])
        # end of an if without else / join of if-else, x stored on one or both paths and read at once behind
        out.append(init + [("for", [("assign", I, ("int", 0))], ("bin", "lt", I, ("int", 3)), [("incr", I)],
                            [("ite", ("bin", "eq", I, ("int", 1)), [("assign", X, I)], []), ("assign", ("var", "level", "y"), X), pr("if"),
                             ("ite", ("bin", "eq", I, ("int", 2)), [("assign", X, ("int", 7))], [("assign", X, ("int", 9))]), ("incr", X), pr("ifelse")]),
                           ("end", X)])
        # case labels and the end of a switch
        out.append(init + [("for", [("assign", I, ("int", 0))], ("bin", "lt", I, ("int", 4)), [("incr", I)],
                            [("switch", I, [("case", "0"), ("assign", X, ("int", 5)), ("case", "1"), ("incr", X), ("brk",), ("case", "2"), ("assign", X, I),
                                            ("case", "default"), ("opassign", "add", X, ("int", 10))]),
                             ("assign", ("var", "level", "y"), X), pr("switch")]),
                           ("end", X)])
        # short-circuit operators: the skipped right operand ends in a read of x, x is read again behind the join
        out.append(init + [("for", [("assign", I, ("int", 0))], ("bin", "lt", I, ("int", 3)), [("incr", I)],
                            [("assign", X, I), ("assign", ("var", "level", "b"), ("land", X, ("bin", "lt", X, ("int", 2)))),
                             ("assign", ("var", "level", "c"), ("lor", ("bin", "eq", X, ("int", 1)), X)), pr("logic"),
                             ("print", True, [("var", "level", "b"), ("var", "level", "c")])]),
                           ("end", X)])
        # try / catch: the join behind the catch block
        out.append(init + [("for", [("assign", I, ("int", 0))], ("bin", "lt", I, ("int", 3)), [("incr", I)],
                            [("try", [("ite", ("bin", "eq", I, ("int", 1)), [("throw", "oops", [])], []), ("assign", X, I)],
                              [("label", "oops", []), ("assign", X, ("int", 40))]), ("incr", X), pr("try")]),
                           ("end", X)])
    return [{"prog": g, "label": "main", "args": [], "consts": {}} for g in out]



def case_label_family():
    """case labels are integer literals like any other: values beyond 31 / 32 bits must select their own case
    (one small program per value, so that a failure names the value)"""
    def lit(v):
        return ("int", v) if v >= 0 else ("neg", ("int", -v))
    out = []
    vals = [2147483647, 2147483648, 4294967295, 4294967296, 4294967297, (1 << 40) + 1, (1 << 63) - 1,
            -2147483648, -2147483649, -4294967297, -((1 << 63) - 1)]
    for with_low in (False, True):
        for v in vals:
            prog = [("label", "main", []), ("assign", ("var", "local", "z"), ("int", 0))]
            low = v & 0xFFFFFFFF
            low_s = low - (1 << 32) if low >= 1 << 31 else low
            if with_low and low_s == v:
                continue
            # second round: the value's low 32 bits are a case label of their own in the same switch
            others = sorted(str(x) for x in ({low_s, 1, 0} if with_low else {1, 0}) if x != v)
            for scrut in (lit(v), ("bin", "add", ("var", "local", "z"), lit(v))):
                body = []
                for o in others:
                    body += [("case", o), ("print", True, [("str", "wrong case"), ("str", o)]), ("brk",)]
                body += [("case", str(v)), ("print", True, [("str", "right case")]), ("brk",),
                         ("case", "default"), ("print", True, [("str", "no case")])]
                prog.append(("switch", scrut, body))
            if low_s != v and not with_low:
                # the truncated value must not select the wide label
                prog.append(("switch", lit(low_s), [("case", str(v)), ("print", True, [("str", "wide label selected by its low 32 bits")]), ("brk",),
                                                   ("case", "default"), ("print", True, [("str", "ok")])]))
            prog.append(("end", None))
            out.append({"prog": prog, "label": "main", "args": [], "consts": {}})
    return out


def ringwrap_family(quick):
    """tools/vlib/ringwrap.py: every peephole-sensitive statement shape (double not, not of a literal, folded unary
    minus, load/store fusion, cast+jump fusion ...) behind every pad of 2..101 recorded opcodes, so that each rewrite
    meets each index of the emitter's 100-entry look-back ring, wrap-around included (seeded change C02-ind-4: the
    ring stepped back with unsigned `(pos - 1) % 100`); only the plain layout is used: the pad counts opcodes"""
    ks = range(2, 102) if quick else range(2, 302)
    vs = [0] if quick else [0, 1, 2, 3]
    return [{"prog": p["ast"], "label": "main", "args": [], "consts": {}, "name": p["name"]} for p in ringwrap.sweep(ks, vs, typed_only=True)]


def corpus_cases():
    res = []
    for p in sorted(glob.glob(os.path.join(VERIF, "corpus", "C03", "*.json"))):
        res.append(("corpus:" + os.path.basename(p), json.load(open(p))["lines"]))
    return res


def build(ctx):
    return common.build_full(ctx, "h_langrun", ["langrun.cpp"])


def check(ctx):
    prop = Prop()
    regen = c03gen.regenerate()
    ctx.stats["regenerated"] = {k: (v if not isinstance(v, list) else [list(x) for x in v]) for k, v in regen.items()}
    proofs_ok, out = common.proof_side(ctx, PROPS_MODULE, PROPS_FILE, extra_names=TABLE_OBLIGATIONS)
    # cross-model links: Lang.Value agrees with the C04 value layer on the common fragment (notes/XL-design.md)
    common.audit_more(ctx, common.XLINKS_MODULE, common.XLINKS_FILE, out, "Lang.Value and VMOps no longer agree")
    if not ctx.stats.get("lake_build_ok", True):
        # say which theorem / table obligation stopped checking (the generic entry only carries the log's tail)
        errs = [l.strip() for l in out.split("\n") if l.startswith("error:") and ".lean" in l]
        files = sorted(set(re.findall(r"error: (\S+?\.lean):", out)))
        hint = ""
        if any("PrecTable" in f for f in files):
            hint = " [yyParser.yy no longer orders / associates the binary operators as the language's reference precedence]"
        if any("IntEnc" in f or "C03.lean" in f for f in files):
            hint += " [EmitInteger / OP_STORE_INT* tables: a literal no longer round-trips or is not minimally encoded]"
        ctx.oblige("re-checked theorems over the regenerated tables: " + ", ".join(files) + hint, False, " | ".join(errs[:5])[:1500])
    if ctx.tier == "thorough":
        common.leanchecker(ctx, PROPS_MODULE)
    exe = build(ctx)
    d = LangDiff(ctx, prop, exe, AREA)
    quick = ctx.tier == "quick"
    bad = d.run_batch(corpus_cases())
    hist, lay_used = {}, {}
    nprog = 0

    def add(name, g, rng, nlay=3):
        nonlocal nprog
        lays, used = proggen.render_layouts(rng, g["prog"], g["consts"], nlay)
        for k, v in used.items():
            lay_used[k] = lay_used.get(k, 0) + v
        proggen.count_nodes(g["prog"], hist)
        d.gens[name] = g
        nprog += 1
        return (name, [proggen.prog_line(g["prog"], g["label"], g["args"], lays)])

    rng = ctx.rng("families")
    fam = []
    for i, g in enumerate(regression_family()):
        fam.append(add("regression:%d" % i, g, rng, 4))
    for i, g in enumerate(literal_family()):
        fam.append(add("literals:%d" % i, g, rng, 6))
    for i, g in enumerate(case_label_family()):
        fam.append(add("caselabels:%d" % i, g, rng, 3))
    for i, g in enumerate(jump_target_family()):
        fam.append(add("jumptargets:%d" % i, g, rng, 3))
    for i, g in enumerate(operator_matrix(rng)):
        fam.append(add("opmatrix:%d" % i, g, rng, 4))
    for g in ringwrap_family(quick):
        fam.append(add(g["name"], g, rng, 1))
    for i in range(0, len(fam), 50):
        bad += d.run_batch(fam[i:i + 50])
    # expression trees: real parser vs precedence model
    rng = ctx.rng("trees")
    ntree = 3000 if quick else 60000
    batch = []
    for i in range(ntree):
        batch.append(("tree:%d" % i, [proggen.tree_line(rng, rng.choice([2, 3, 4, 5, 6]))[0]]))
        if len(batch) == 1000:
            bad += d.run_batch(batch); batch = []
    bad += d.run_batch(batch)
    # random typed programs
    rng = ctx.rng("random")
    t_end = ctx.t0 + (105 if quick else 1020)
    nrand = 2500 if quick else 60000
    batch = []
    done = 0
    for i in range(nrand):
        if time.time() > t_end:
            break
        feats = None
        c = rng.random()
        if c < 0.1:
            feats = {"strings"}
        elif c < 0.2:
            feats = {"strings", "arrays", "control"}
        g = proggen.gen_program(rng, max_stmts=rng.choice([20, 40, 80]), features=feats)
        batch.append(add("random:%d" % i, g, rng, rng.choice([2, 3, 3, 4])))
        done += 1
        if len(batch) == 100:
            bad += d.run_batch(batch); batch = []
    bad += d.run_batch(batch)
    ctx.stats["random_programs"] = done
    ctx.oblige("correspondence harness/langrun.cpp == Lang.Sem on %d programs (each in 2-6 layouts) and %d expression trees"
               % (nprog, ntree), bad == 0, "%d differing cases" % bad, reported=True)
    srng = ctx.rng("sample")
    sg = proggen.gen_program(srng, max_stmts=12)
    ctx.samples = [{"source": proggen.render_layouts(srng, sg["prog"], sg["consts"], 1)[0][0], "ast": proggen.to_sexp(sg["prog"])}]
    cov = {
        "evaluations": d.cases, "distinct_nontrivial": len(d.distinct),
        "rule": "typed programs (tools/vlib/proggen.py: <= 80 statements, nesting <= 6, literals across every encoding boundary) "
                "each printed in 2-6 layouts, plus deterministic families (every ordered pair of binary operators in both groupings, "
                "every boundary literal folded and unfolded, regression programs) and random expression trees for the parse-tree tie; "
                "distinct by SHA-1 of the case line",
        "programs": nprog, "expression_trees": ntree,
        "construct_histogram": dict(sorted(hist.items())),
        "layout_spellings_used": dict(sorted(lay_used.items())),
        "model_answer_kinds": d.outkinds,
        "exhaustive": False,
    }
    return common.finish(ctx, "proof", cov, TRUSTED, ASSUME,
                         "cd lean && lake build && lake env lean <Audit.lean with #print axioms>; tools/check.py C03")


def replay(ctx, obj):
    c03gen.regenerate()
    common.lake_build()
    if obj.get("kind") == "proof-obligation":
        ok, out = common.lake_build()
        print("obligation:", obj.get("obligation")); print(out[-2000:] if not ok else "lake build succeeds now")
        return 0 if ok else 1
    exe = build(ctx)
    d = LangDiff(ctx, Prop(), exe, AREA)
    impl, crash, info, model = d.both(obj["lines"])
    for s in obj.get("sources", [])[:2]:
        print("---- source"); print(s)
    for i, l in enumerate(obj["lines"]):
        print("> %s\n  impl : %s\n  model: %s" % (l[:200] + ("..." if len(l) > 200 else ""), impl[i] if i < len(impl) else "<missing>",
                                                   model[i] if i < len(model) else "<missing>"))
    if crash:
        print("CRASH", crash); print(info)
    bad = crash is not None or common.first_diff(impl, model) is not None
    print("replay:", "still differs" if bad else "no difference")
    return 1 if bad else 0
