"""C04 — script errors are contained: no memory corruption, host keeps control (DESIGN.md 7.10, 7.10.1).

Parts (see notes/C04-design.md):
  T   tools/vlib/vmopsgen.py regenerates lean/MorfuseModel/Gen/OpAccept.lean from the source
      (operator case tables, exception hierarchy, catch clauses of ScriptVM::Execute, opcode table,
      repair flags); the theorems of Props/C04.lean are re-checked against it by `lake build`.
  D1  operator level: harness/vmops.cpp (real ScriptVariable) vs the Lean value model, line by line,
      every (kind x kind) pair of every operator with boundary values.
  D2  program level: untyped programs (tools/vlib/untypedgen.py) on a real ScriptContext under ASan
      with hook H2/H4 (harness/errprog.cpp); the H4 trace is replayed through the Lean VM model.
"""
import glob
import json
import os
import struct

from vlib import common, vmopsgen
from vlib.common import Diff, VERIF, LEAN

AREA = "vmops"
PROPS_MODULE = "MorfuseModel.Props.C04"
PROPS_FILE = os.path.join(LEAN, "MorfuseModel", "Props", "C04.lean")
UBSAN_EXTRA = ["-fsanitize=float-cast-overflow,shift-exponent"]
EXTRA_TUS = ["src/Script/ScriptVariable.cpp", "src/Common/str.cpp"]

TRUSTED = [
    "Lean 4.33.0 kernel (lake build; leanchecker in the thorough tier)",
    "axioms allowed: propext, Classical.choice, Quot.sound (audited by #print axioms on every run)",
    "translator tools/vlib/vmopsgen.py (regex/brace reader of ScriptVariable.{h,cpp}, ScriptVMOperation.cpp, ScriptOpcodes.{h,cpp}, all class heads)",
    "hand-written value model lean/MorfuseModel/VMOps/{Float,Value,Ops,Index,Step}.lean and VM error model VMOps/VM.lean, tied by the correspondence runs",
    "Lean's Float32/Float primitives = the machine's IEEE-754 operations (no theorem depends on a float value)",
    "g++ 12 / ASan / UBSan (float-cast-overflow, shift-exponent added for ScriptVariable.cpp and str.cpp of this harness) for 'undefined behaviour is reported'",
    "memory safety of code outside the model (the ~170 commands, str, Vector, containers, libc) is runtime truth: observed under ASan + H2 on the generated programs only",
]
ASSUME = [
    "operands are values a script can put on the VM stack; a Ref is only ever the target slot of OP_LOAD_ARRAY_VAR / OP_STORE_ARRAY_REF (the emitter guarantees it)",
    "integer + - * and unary minus wrap (two's complement hardware behaviour; signed overflow is formally undefined and is not counted)",
    "listenerAt / constArrayElement are only called with 1 <= i <= arraysize (their callers in ScriptVMOperation.cpp are modelled and guarantee it)",
    "script arrays in one operation never mix integer keys with numeric-string keys (bucket collisions of unequal hashes are not modelled)",
]


def fbits(x):
    return "%08x" % struct.unpack("<I", struct.pack("<f", x))[0]


def hx(s):
    return s.encode("latin-1").hex()


INT_EDGE = [0, 1, -1, 2, 7, 63, 64, 65, -64, 100, 2 ** 31, 2 ** 32, 2 ** 32 + 5, -2 ** 31, 2 ** 63 - 1, -2 ** 63, 3, -3]
FLT_EDGE = ["00000000", "80000000", fbits(1.0), fbits(-1.0), fbits(1.5), fbits(-1.5), fbits(0.5), fbits(2.0), fbits(3.0),
            fbits(1.05), fbits(0.00005), fbits(100.25), fbits(1e10), fbits(-1e10), fbits(3e9), fbits(1e19), fbits(2.0 ** 63),
            fbits(2.0 ** 64), fbits(-2.0 ** 63), "7f800000", "ff800000", "7fc00000", fbits(2.0 ** 31), fbits(4294967296.0),
            fbits(-0.25), fbits(7.0), fbits(2147483520.0), fbits(-2147483648.0), fbits(0.001), fbits(123456.789)]
STR_EDGE = ["", "abc", "a", "12", "-7", "1.5", "  42", "9999999999999999999999", "t1", "t2", "(1 2 3)", "1 2 3", "1, 2, 3",
            "(1, 2, 3)", "1 2", "x", "-", "1e3", "inf", ".5", "5.", "-9223372036854775808", "4294967297", "0", "-1", "3x",
            "( 1 2 3 )", "1,2,3", "NIL", "NULL"]
CHR_EDGE = [97, 49, 200, 1, 255, 32]
OBJ_EDGE = ["l:0", "l:1", "l:2", "d:1"]
VEC_EDGE = [(0.0, 0.0, 0.0), (1.0, 2.0, 3.0), (1.5, -2.0, 0.0), (0.0, 1.0, 0.0), (4.0, 4.0, 4.0)]
ARR_EDGE = ["A{}", "A{i:1=i:5}", "A{i:1=i:5;i:2=s:61}", "A{s:6b=l:1}", "A{i:1=l:1;i:2=l:2}", "A{i:0=i:9}", "A{i:-1=i:3}",
            "A{l:1=i:1}", "A{i:1=A{i:2=i:3}}", "A{i:1=C{i:1}}", "A{s:7a=s:7431;s:79=l:2}", "A{i:1=s:7432;i:2=l:1}",
            "A{i:1=i:7;i:2=i:8;i:3=i:9;i:4=i:10;i:5=i:11;i:6=i:12;i:7=i:13;i:8=i:14;i:9=i:15}"]
CARR_EDGE = ["C{}", "C{i:1}", "C{i:1;s:61;l:1}", "C{l:1;l:0;l:2}", "C{s:7431;l:2}", "C{nil;i:2}", "C{l:1;i:5}", "C{s:7432;l:1}"]
CONT_EDGE = ["T{}", "T{1}", "T{1;2}", "T{1;0;3}"]
SCONT_EDGE = ["S!", "S{}", "S{1}", "S{1;2;3}", "S{0;2}"]

KINDS = ["nil", "string", "int", "float", "char", "cstring", "listener", "array", "carray", "container", "scontainer", "pointer", "vector"]
BIN_OPS = ["add", "sub", "mul", "div", "mod", "and", "xor", "or", "shl", "shr", "gt", "ge", "lt", "le", "eq", "ne"]
UN_OPS = ["minus", "compl", "inc", "dec", "size", "arraysize", "bool", "boolv", "boolnum", "int", "long", "float", "char",
          "str", "listener", "vector", "cint", "cfloat", "cstr", "carr", "targets"]


def pool(kind):
    if kind == "nil":
        return ["nil"]
    if kind == "int":
        return ["i:%d" % v for v in INT_EDGE]
    if kind == "float":
        return ["f:" + b for b in FLT_EDGE]
    if kind == "char":
        return ["c:%d" % c for c in CHR_EDGE]
    if kind == "string":
        return ["s:" + hx(s) for s in STR_EDGE]
    if kind == "cstring":
        return ["k:" + hx(s) for s in STR_EDGE]
    if kind == "listener":
        return list(OBJ_EDGE)
    if kind == "vector":
        return ["v:%s/%s/%s" % (fbits(a), fbits(b), fbits(c)) for a, b, c in VEC_EDGE] + ["v:7f800000/00000000/7fc00000"]
    if kind == "array":
        return list(ARR_EDGE)
    if kind == "carray":
        return list(CARR_EDGE)
    if kind == "container":
        return list(CONT_EDGE)
    if kind == "scontainer":
        return list(SCONT_EDGE)
    if kind == "pointer":
        return ["P"]
    raise ValueError(kind)


def rnd_value(rng, kind, depth=0):
    """a random (not only boundary) value of the kind"""
    r = rng.random()
    if kind == "int":
        if r < 0.5:
            return rng.choice(pool("int"))
        if r < 0.8:
            return "i:%d" % rng.randint(-70, 70)
        return "i:%d" % rng.randint(-2 ** 63, 2 ** 63 - 1)
    if kind == "float":
        if r < 0.6:
            return rng.choice(pool("float"))
        # dyadic rationals: exact in binary32, so decimal round trips are unambiguous
        return "f:" + fbits(rng.randint(-4000, 4000) / rng.choice([1, 2, 4, 8, 16]))
    if kind in ("string", "cstring"):
        p = "s:" if kind == "string" else "k:"
        if r < 0.7:
            return rng.choice(pool(kind))
        n = rng.choice([1, 2, 3, 8])
        return p + hx("".join(rng.choice("ab1 -.9") for _ in range(n)))
    if kind == "char":
        return "c:%d" % (rng.choice(CHR_EDGE) if r < 0.5 else rng.randint(1, 255))
    if kind == "vector":
        if r < 0.5:
            return rng.choice(pool("vector"))
        return "v:" + "/".join(fbits(rng.randint(-64, 64) / rng.choice([1, 2, 4])) for _ in range(3))
    if kind == "array" and r > 0.6 and depth < 2:
        n = rng.randint(1, 5)
        if rng.random() < 0.5:
            keys = ["i:%d" % k for k in rng.sample(range(-3, 12), n)]
        else:
            keys = ["s:" + hx(k) for k in rng.sample(["a", "b", "key", "zz", "q1", "t1"], n)]
        return "A{" + ";".join(k + "=" + rnd_value(rng, rng.choice(["int", "string", "listener", "float", "vector", "carray"]), depth + 1) for k in keys) + "}"
    if kind == "carray" and r > 0.6 and depth < 2:
        n = rng.randint(1, 4)
        return "C{" + ";".join(rnd_value(rng, rng.choice(["int", "string", "listener", "listener", "cstring", "nil"]), depth + 1) for _ in range(n)) + "}"
    return rng.choice(pool(kind))


def collides(a, idx):
    """integer keys and canonical decimal string keys compare equal (`operator==` goes through
    stringValue()) whenever they share a bucket; bucket placement is not modelled, so such mixes are
    not generated"""
    if not a.startswith("A{") or idx[:2] not in ("s:", "k:"):
        return False
    try:
        t = bytes.fromhex(idx[2:]).decode("latin-1")
    except ValueError:
        return False
    return "i:" in a and t.lstrip("-").isdigit()


def op_lines(rng, quick):
    """every operator on every (kind x kind) pair; numeric pairs with the full boundary product"""
    lines = []
    # 1. integer boundary product for the operators whose guards depend on values
    for op in ["div", "mod", "shl", "shr", "add", "sub", "mul", "lt", "ge", "eq"]:
        for a in INT_EDGE:
            for b in INT_EDGE:
                if quick and op in ("add", "sub", "mul", "lt", "ge", "eq") and rng.random() < 0.7:
                    continue
                lines.append("%s i:%d i:%d" % (op, a, b))
    # 2. all kind pairs, a few value combinations each
    per_pair = 1 if quick else 8
    for op in BIN_OPS:
        for ka in KINDS:
            for kb in KINDS:
                for _ in range(per_pair):
                    lines.append("%s %s %s" % (op, rnd_value(rng, ka), rnd_value(rng, kb)))
    # 3. float / vector arithmetic with boundary values
    for op in ["add", "sub", "mul", "div", "mod", "gt", "ge", "lt", "le", "eq", "ne"]:
        for ka, kb in [("float", "float"), ("int", "float"), ("float", "int"), ("vector", "vector"), ("vector", "float"),
                       ("float", "vector"), ("vector", "int"), ("int", "vector")]:
            for _ in range(6 if quick else 40):
                lines.append("%s %s %s" % (op, rnd_value(rng, ka), rnd_value(rng, kb)))
    # 4. unary operators and casts over the whole pool
    for op in UN_OPS:
        for k in KINDS:
            vals = pool(k)
            if quick and len(vals) > 8:
                vals = rng.sample(vals, 8)
            for v in vals:
                lines.append("%s %s" % (op, v))
            for _ in range(2 if quick else 8):
                lines.append("%s %s" % (op, rnd_value(rng, k)))
    # 5. index read: every container-like value with every index kind
    idx_pool = (["i:%d" % v for v in [0, 1, 2, 3, -1, 4, 2 ** 32 + 1, -2 ** 63, 2 ** 63 - 1, 9]] +
                ["f:" + fbits(x) for x in [0.0, 1.0, 2.0, 2.5, -1.0, 1e10, 1e19]] + ["f:7fc00000", "f:7f800000"] +
                ["s:" + hx(s) for s in ["1", "2", "a", "", "k", "-1", "key", "zz"]] + ["k:" + hx("1"), "k:" + hx("a")] +
                ["nil", "l:1", "l:0", "c:49", "P", "A{}", "C{i:1}", "v:%s/%s/%s" % (fbits(1.0), fbits(0.0), fbits(0.0))])
    for k in KINDS:
        for a in pool(k):
            # the integer indices around every container's bounds (0..4, -1) are always tried: an off-by-one in a
            # bound check needs exactly one of them (seeded C04-ind-1: `index > 3` for a vector read)
            idxs = idx_pool if not quick else idx_pool[:6] + rng.sample(idx_pool[6:], 4)
            for i in idxs:
                if collides(a, i):
                    continue
                lines.append("evalat %s %s" % (a, i))
                if rng.random() < 0.4:
                    lines.append("index %s %s" % (a, i))
                if rng.random() < 0.4:
                    lines.append("setref %s %s" % (a, i))
    # 6. index write
    val_pool = ["nil", "i:5", "s:" + hx("x"), "s:" + hx("xy"), "c:120", "f:" + fbits(2.5), "l:1", "l:0", "k:" + hx("q"),
                "A{i:1=i:1}", "C{i:1}", "P", "v:%s/%s/%s" % (fbits(1.0), fbits(1.0), fbits(1.0)), "s:", "i:-2", "s:" + hx("1.5")]
    for k in KINDS:
        for a in pool(k):
            n = 4 if quick else 14
            for _ in range(n):
                i = rng.choice(idx_pool)
                if not collides(a, i):
                    lines.append("setat %s %s %s" % (a, i, rng.choice(val_pool)))
    for _ in range(30 if quick else 400):
        lines.append("calcvec %s %s %s" % tuple(rnd_value(rng, rng.choice(["int", "float", "string", "cstring", "nil", "listener", "vector", "char"])) for _ in range(3)))
    for k in KINDS:
        for kb in KINDS:
            lines.append("assign %s %s" % (rnd_value(rng, k), rnd_value(rng, kb)))
    return lines


class OpProp:
    """trace monitor for one operator line: the property speaks about *how* a call ends (typed script
    error or a value), never about which value.  A difference whose implementation side is an ordinary
    result is a model/code mismatch (reported without a failing input); a crash, a sanitizer report or
    an exception outside ScriptExceptionBase is a violation of C04 itself."""

    def classify(self, lines, impl, crash, model):
        if crash:
            return "violation", "implementation crashed / sanitizer report: " + crash, "crash:" + crash
        for i, l in enumerate(impl):
            if l.startswith("err X") or l.startswith("err A"):
                return "violation", "line `%s`: exception `%s` is not a script warning class" % (lines[i] if i < len(lines) else "?", l), "foreign-exception:" + l.split()[2]
        i = common.first_diff(impl, model)
        a = impl[i] if i is not None and i < len(impl) else "<missing>"
        b = model[i] if i is not None and i < len(model) else "<missing>"
        ln = lines[i] if i is not None and i < len(lines) else "?"
        why = "line %s `%s`: implementation says `%s`, model says `%s`" % (i, ln, a, b)
        return "mismatch", why, "diff:" + ln.split(" ")[0] + ":" + a.split(" ")[0] + "/" + b.split(" ")[0]


def line_monitor(l):
    return l.startswith("err X") or l.startswith("err A")


def build_ops(ctx):
    """harness/vmops.cpp against the whole library, with ScriptVariable.cpp and str.cpp recompiled under
    the two extra UBSan checks"""
    b, objs = common.build_lib(ctx)
    skip = tuple(os.path.basename(s) + ".o" for s in EXTRA_TUS)
    objs = [o for o in objs if not o.endswith(skip)]
    exe = os.path.join(ctx.tmp, "h_vmops")
    cmd = common.CXX_BASE + common.SAN_FLAGS + UBSAN_EXTRA + [
        "-I" + os.path.join(common.REPO, "include"), "-I" + os.path.join(common.REPO, "src"),
        "-I" + os.path.join(b, "src", "generated"), "-I" + common.HARNESS]
    cmd += [os.path.join(common.HARNESS, "vmops.cpp")] + [os.path.join(common.REPO, s) for s in EXTRA_TUS] + objs + ["-o", exe, "-lpthread"]
    p = common.sh(cmd, timeout=1800)
    if p.returncode != 0:
        raise common.CheckError("vmops harness build failed:\n" + (p.stdout + p.stderr)[-6000:])
    return exe


def corpus_cases(sub):
    res = []
    for p in sorted(glob.glob(os.path.join(VERIF, "corpus", "C04", sub + "*.json"))):
        res.append(("corpus:" + os.path.basename(p), json.load(open(p))["lines"]))
    return res


def operator_level(ctx, info):
    prop = OpProp()
    exe = build_ops(ctx)
    d = Diff(ctx, prop, exe, AREA)
    d.line_monitor = line_monitor
    quick = ctx.tier == "quick"
    bad = d.run_batch(corpus_cases("op-"))
    rng = ctx.rng("ops")
    lines = op_lines(rng, quick)
    ctx.stats["operator_lines"] = len(lines)
    # the model decides which lines it calls undefined behaviour; those are run one by one
    model = []
    for i in range(0, len(lines), 5000):
        model += common.run_model(AREA, lines[i:i + 5000])
    ub = {}
    clean = []
    kinds = {}
    for l, m in zip(lines, model):
        k = m.split(" ")[0] + (":" + m.split(" ")[2] if m.startswith("err") else "")
        kinds[k] = kinds.get(k, 0) + 1
        if m.startswith("ub "):
            ub.setdefault(m[3:], []).append(l)
        elif m != "bad-op":
            clean.append(l)
    ctx.stats["model_outcomes"] = kinds
    ctx.stats["model_ub_lines"] = {k: len(v) for k, v in ub.items()}
    chunk = 150
    for i in range(0, len(clean), chunk * 20):
        batch = [("ops:%d" % (i + j), clean[i + j:i + j + chunk]) for j in range(0, min(chunk * 20, len(clean) - i), chunk)]
        bad += d.run_batch(batch)
    ctx.oblige("correspondence harness/vmops.cpp == value model on %d operator lines (all kind pairs of %d operators)" % (len(clean), len(BIN_OPS) + len(UN_OPS) + 6),
               bad == 0, "%d differing cases" % bad, reported=True)
    # lines the model calls undefined behaviour: each is a finding of its own (replayed singly)
    for reason, ls in sorted(ub.items()):
        seen = 0
        for l in ls[:6]:
            impl, crash, infotext = common.run_lines(exe, [], [l], timeout=20)
            obs = ("CRASH " + crash) if crash else (impl[0] if impl else "<no output>")
            if seen == 0 or crash:
                replay = common.save_replay(ctx, {
                    "property": ctx.prop_id, "kind": "operator-ub", "area": AREA, "lines": [l], "model_out": ["ub " + reason],
                    "impl_out": impl, "crash": crash, "crash_info": infotext if crash else "",
                    "why": "the model of the code as written executes undefined behaviour (%s) on `%s`; the real code: %s" % (reason, l, obs),
                    "how_to_replay": "python3 tools/check.py C04 --replay <this file>"})
                ctx.violations.append({"signature": "ub:" + reason, "replay": replay, "found_input": True,
                                       "why": "undefined behaviour reachable: %s on `%s` (%s)" % (reason, l, obs)})
                seen += 1
            if crash:
                break
    return d, len(clean), ub


# --------------------------------------------------------------------------------------------
# program level

def build_prog(ctx):
    return common.build_full(ctx, "h_errprog", ["errprog.cpp"], extra=["-ldl"])


def prog_line(prog):
    """the harness command of one program; `frames` (optional) = host frames pumped after the start (default 12)"""
    return "prog " + prog["src"].encode("latin-1", "replace").hex() + (" %d" % prog["frames"] if prog.get("frames") else "")


def opcode_names():
    names, table = vmopsgen.parse_opcodes()
    return names


def parse_result(line):
    """`ok k=v k=[...] ...` -> dict (values keep their brackets stripped)"""
    f = {}
    for kv in line.split(" ")[1:]:
        if "=" in kv:
            k, v = kv.split("=", 1)
            f[k] = v[1:-1] if v.startswith("[") and v.endswith("]") else v
    return f


class ProgMonitor:
    """the property as a predicate on the observations of one program run"""

    def __init__(self, info):
        self.classes = {}
        self.hist_thrown = {}
        self.transitions = set()
        # warning / abort classification of exception classes from the regenerated hierarchy
        self.resolved = vmopsgen.resolve(vmopsgen.parse_classes())

    def derives(self, c, base, depth=0):
        if c == base:
            return True
        if depth > 8:
            return False
        return any(self.derives(b, base, depth + 1) for b in self.resolved.get(c, []))

    def check(self, prog, line):
        """-> list of (signature, why)"""
        bad = []
        if not line.startswith("ok "):
            return [("prog-harness:" + line[:40], "harness answered `%s`" % line[:80])]
        f = parse_result(line)
        if f.get("compiled") != "1":
            return []
        log = [e for e in f.get("log", "").split("|") if e]
        outs = [e[2:] for e in log if e.startswith("O:")]
        if f.get("sentinel") != "1":
            bad.append(("prog-sentinel", "the sentinel script did not compile, run and get resumed after its wait once the program was over"))
        ends = [e for e in f.get("ends", "").split(",") if e]
        if any(e != "0" and not e.startswith("k") for e in ends):
            bad.append(("prog-stack-at-end", "a thread ended with a non-empty operand stack: %s" % ends))
        for e in log:
            if e.startswith("X:") and not e.startswith("X:A:"):
                bad.append(("prog-host-exception:" + e[4:], "exception `%s` left a host call (only abort kinds may)" % e[2:]))
            if e.startswith("T:"):
                self.hist_thrown[e[2:]] = self.hist_thrown.get(e[2:], 0) + 1
        for b in ("by1", "by2", "by3"):
            if b not in outs:
                bad.append(("prog-bystander", "the bystander thread (own script instance) did not print `%s`" % b))
                break
        for k, marks in enumerate(prog["threads"]):
            for j, tr in enumerate(marks):
                if tr and ("m%d.%d" % (k, j)) in outs and ("m%d.%d" % (k, j + 1)) not in outs:
                    bad.append(("prog-statement-not-confined", "thread t%d: marker m%d.%d printed, m%d.%d after a transparent statement missing" % (k, k, j, k, j + 1)))
        pend = None
        for e in log + ["END"]:
            if e.startswith(("W:", "D:", "E:", "X:")):
                pend = None
            elif e.startswith("T:") or e == "END":
                if pend and self.derives(pend, "ScriptExceptionBase"):
                    bad.append(("prog-error-not-reported:" + pend, "`%s` was thrown and no warning / diagnostic line followed" % pend))
                pend = e[2:] if e.startswith("T:") else None
        for t in f.get("trans", "").split(","):
            if t:
                self.transitions.add(t)
        return bad


def shrink_program(run_sig, prog, sig0, budget=160):
    lines = prog["src"].split("\n")
    tests = 0
    changed = True
    while changed and tests < budget:
        changed = False
        i = 0
        while i < len(lines) and tests < budget:
            ln = lines[i].strip()
            if ln.endswith(":") or ln.startswith("end") or ln.startswith("println \"m") or ln.startswith("println \"by"):
                i += 1
                continue
            cand = lines[:i] + lines[i + 1:]
            tests += 1
            if sig0 in run_sig({"src": "\n".join(cand), "threads": prog["threads"], "frames": prog.get("frames")}):
                lines = cand
                changed = True
            else:
                i += 1
    return "\n".join(lines)


def program_level(ctx, info):
    from vlib import untypedgen
    exe = build_prog(ctx)
    mon = ProgMonitor(info)
    quick = ctx.tier == "quick"
    rng = ctx.rng("programs")
    gen = untypedgen.Gen(rng)
    progs = []
    for p in sorted(glob.glob(os.path.join(VERIF, "corpus", "C04", "prog-*.json"))):
        o = json.load(open(p))
        progs.append(("corpus:" + os.path.basename(p), {"src": o["src"], "threads": o.get("threads", []), "frames": o.get("frames")}))
    for name, body in untypedgen.TARGETED:
        progs.append(("targeted:" + name, untypedgen.targeted_program(name, body)))
    nrand = 1000 if quick else 45000
    for i in range(nrand):
        progs.append(("random:%d" % i, gen.program()))
    ctx.stats["programs"] = len(progs)

    def run_one(prog):
        out, crash, infotext = common.run_lines(exe, [], [prog_line(prog)], timeout=60)
        return out, crash, infotext

    def sigs_of(prog):
        out, crash, infotext = run_one(prog)
        if crash:
            return ["prog-crash:" + crash]
        return [s for s, _ in mon.check(prog, out[0] if out else "")]

    compiled = 0
    failing = {}
    reports = 0
    t_budget = 600 if not quick else 60
    import time as _t
    t_fail = 0.0
    B = 25
    for i in range(0, len(progs), B):
        batch = progs[i:i + B]
        lines = [prog_line(p) for _, p in batch]
        out, crash, infotext = common.run_lines(exe, [], lines, timeout=120)
        results = []
        if crash is None and len(out) == len(batch):
            results = [(n, p, o, None) for (n, p), o in zip(batch, out)]
        else:
            for n, p in batch:                     # isolate
                o, c, it = run_one(p)
                results.append((n, p, o[0] if o else "", (c, it) if c else None))
        for n, p, o, c in results:
            if c:
                found = [("prog-crash:" + c[0], "the harness process died: " + c[0])]
            else:
                if " compiled=1 " in o + " ":
                    compiled += 1
                found = mon.check(p, o)
            for sig, why in found:
                failing[sig] = failing.get(sig, 0) + 1
                if failing[sig] > 1 or reports >= 12 or t_fail > t_budget:
                    continue
                t0 = _t.time()
                small = shrink_program(sigs_of, p, sig)
                t_fail += _t.time() - t0
                so, sc, si = run_one({"src": small, "frames": p.get("frames")})
                replay = common.save_replay(ctx, {
                    "property": ctx.prop_id, "kind": "program", "case": n, "src": small, "threads": p["threads"], "frames": p.get("frames"),
                    "observed": so[0] if so else "", "crash": sc, "crash_info": si if sc else "", "signature": sig, "why": why,
                    "how_to_replay": "python3 tools/check.py C04 --replay <this file>"})
                ctx.violations.append({"signature": sig, "replay": replay, "why": why, "found_input": True})
                reports += 1
    ctx.stats["programs_compiled"] = compiled
    ctx.stats["program_failure_signatures"] = failing
    ctx.stats["thrown_classes"] = mon.hist_thrown
    ctx.stats["statement_kinds"] = gen.hist
    ctx.oblige("%d generated programs (%d compiled) on the real engine under ASan+H2: host calls return, errors reported, statements confined, bystander and sentinel run, stacks empty at thread end" % (len(progs), compiled),
               not failing, "; ".join("%s x%d" % kv for kv in sorted(failing.items())), reported=True)
    # H4 transitions against the regenerated error-path model
    names = opcode_names()
    cache = {}
    badtrans = []
    EXEC = ("OP_EXEC_CMD", "OP_EXEC_METHOD", "OP_FUNC", "OP_SWITCH", "OP_DONE")
    for t in sorted(mon.transitions):
        op, n, dh, dp = t.split(":")
        name = names[int(op)] if int(op) < len(names) else "?"
        key = (name, n)
        if key not in cache:
            ans = common.run_model(AREA, ["vm outcomes %s %s" % (name, n)])[0]
            cache[key] = [x.split(":") for x in ans.split(" ")[1:]] if ans.startswith("ok") else None
        allowed = cache[key]
        if allowed is None:
            badtrans.append(t + " (no model for %s)" % name)
            continue
        ok = False
        for k, adh, adp, fl in allowed:
            if adh == dh and (adp == dp or fl[0] == "1" or name.startswith(EXEC)):
                ok = True
        if not ok:
            badtrans.append("%s n=%s dh=%s dp=%s not among %s" % (name, n, dh, dp, ["/".join(a) for a in allowed]))
    ctx.stats["vm_transitions_observed"] = len(mon.transitions)
    ctx.stats["vm_opcodes_observed"] = len({t.split(":")[0] for t in mon.transitions})
    if badtrans:
        replay = common.save_replay(ctx, {"property": ctx.prop_id, "kind": "vm-transitions", "bad": badtrans[:40],
                                          "note": "instruction-to-instruction effects observed through hook H4 that the regenerated error-path model does not allow"})
        ctx.violations.append({"signature": "prog-vm-transition:" + badtrans[0].split(" ")[0], "replay": replay, "found_input": False,
                               "why": "; ".join(badtrans[:5])})
    ctx.oblige("every (opcode, height delta, operand bytes) observed through hook H4 is an outcome of the regenerated VM model (%d distinct)" % len(mon.transitions),
               not badtrans, "; ".join(badtrans[:6]), reported=True)
    return len(progs), compiled


REPAIRS = [("divMin", "F1 INT64_MIN / -1 and % -1 guarded"), ("shiftCount", "F2 shift count bounded"),
           ("vecDivAlias", "F3 vector / vector keeps its own payload"), ("safeContainerBound", "F4 safe container bounded by its own size"),
           ("negIndexStore", "F5 negative index rejected by setArrayAtRef"), ("floatCast", "F6 float to integer conversion defined"),
           ("floatStr", "F7 str(float) writes inside its buffer"), ("getterRef", "F8 getter field never used as a reference")]


def repair_obligations(ctx):
    """one kernel-checked `decide` per regenerated repair flag (the hypotheses of
    C04_step_never_ub_code and of C04_ref_discipline for the code as it is now)"""
    for flag, what in REPAIRS:
        path = os.path.join(ctx.tmp, "Repair_%s.lean" % flag)
        with open(path, "w") as f:
            f.write("import MorfuseModel.Gen.OpAccept\nexample : Morfuse.Gen.OpAccept.fix_%s = true := by decide\n" % flag)
        with common.LakeLock():
            p = common.sh(["lake", "env", "lean", path], cwd=LEAN, timeout=600)
        ctx.oblige("repair present: %s (fix_%s)" % (what, flag), p.returncode == 0,
                   "the source does not show this repair: the undefined behaviour is reachable (notes/C04-findings.md)")


def theorem_failures(props_file, build_out):
    """names of the theorems of Props/C04.lean that the failed build reports errors in"""
    import re
    lines = open(props_file).read().split("\n")
    names = []
    for m in re.finditer(r"Props/C04\.lean:(\d+):\d+", build_out):
        ln = int(m.group(1))
        for k in range(min(ln, len(lines)) - 1, -1, -1):
            mm = re.match(r"\s*theorem\s+(\S+)", lines[k])
            if mm:
                if mm.group(1) not in names:
                    names.append(mm.group(1))
                break
    return names


def check(ctx):
    info = vmopsgen.generate()
    ctx.stats["translator"] = {k: info[k] for k in ("fixes", "opcodes", "classes", "changed")}
    proofs_ok, out = common.proof_side(ctx, PROPS_MODULE, PROPS_FILE)
    # cross-model links: the value layer agrees with Lang.Value (C03) and the C10 kind codes (notes/XL-design.md)
    common.audit_more(ctx, common.XLINKS_MODULE, common.XLINKS_FILE, out, "VMOps and Lang.Value / the kind-code tables no longer agree")
    if ctx.tier == "thorough" and proofs_ok:
        common.leanchecker(ctx, PROPS_MODULE)
    if not ctx.stats.get("lake_build_ok"):
        # say which theorems no longer check against the regenerated tables, then search for
        # concrete failing inputs with whatever still builds (the driver does not import Props)
        for n in theorem_failures(PROPS_FILE, out):
            ctx.oblige("theorem Morfuse.Props.C04." + n, False, "does not check against the regenerated Gen/OpAccept.lean")
        ok, out2 = common.lake_build(["driver"])
        if not ok:
            raise common.CheckError("the model driver does not build:\n" + out2[-3000:])
        ans = common.run_model(AREA, ["vm check"])[0]
        ctx.stats["vm_opcodes_not_confined"] = ans.split(" ")[1:]
        if len(ans.split(" ")) > 1:
            ctx.notes.append("error paths that do not restore stack height / code position: " + ans)
    repair_obligations(ctx)
    d, nclean, ub = operator_level(ctx, info)
    nprog, ncomp = program_level(ctx, info)
    ctx.samples = ["div i:-9223372036854775808 i:-1", "evalat S{1;2} i:2", "setat s:616263 i:-1 c:120",
                   "prog main:\\n local.x = 5\\n local.x.y[1] = 3\\n println \"alive\"\\nend"]
    cov = {
        "evaluations": d.cases + nprog, "distinct_nontrivial": len(d.distinct) + ncomp,
        "rule": "operator lines: every operator/cast/index function on every (kind x kind) pair with boundary values, 150 lines per case, distinct by SHA-1; programs: corpus + targeted + random untyped programs, non-trivial = compiled",
        "op_lines": d.lines, "op_histogram": d.hist, "model_answer_kinds": d.outkinds, "exhaustive": False,
        "programs": nprog, "programs_compiled": ncomp,
    }
    return common.finish(ctx, "proof", cov, TRUSTED, ASSUME,
                         "cd lean && lake build && lake env lean <Audit.lean with #print axioms>; tools/check.py C04")


def replay(ctx, obj):
    vmopsgen.generate()
    common.lake_build(["driver"])
    if obj.get("kind") == "program":
        exe = build_prog(ctx)
        out, crash, info = common.run_lines(exe, [], [prog_line(obj)], timeout=60)
        print(obj["src"])
        print("observed:", (out[0] if out else "<none>").replace("|", "\n    "))
        if crash:
            print("CRASH", crash)
            print(info)
        mon = ProgMonitor({})
        found = [("prog-crash:" + crash, "")] if crash else mon.check({"src": obj["src"], "threads": obj.get("threads", [])}, out[0] if out else "")
        print("replay:", "still fails: %s" % [s for s, _ in found] if found else "no violation")
        return 1 if found else 0
    if obj.get("kind") in ("vm-transitions", "proof-obligation"):
        print(json.dumps(obj, indent=1))
        return 1
    exe = build_ops(ctx)
    d = Diff(ctx, OpProp(), exe, AREA)
    impl, crash, info, model = d.both(obj["lines"])
    for i, l in enumerate(obj["lines"]):
        print("> %s\n  impl : %s\n  model: %s" % (l, impl[i] if i < len(impl) else "<missing>", model[i] if i < len(model) else "<missing>"))
    if crash:
        print("CRASH", crash)
        print(info)
    bad = crash is not None or common.first_diff(impl, model) is not None
    print("replay:", "still differs" if bad else "no difference")
    return 1 if bad else 0
