"""C05 — host call/return protocol: arguments in, result out, sync or async (DESIGN.md 7.4)."""
import os

from vlib import callgen, common, schedcheck, schedgen
from vlib.common import Diff, LEAN

PROPS_MODULE = "MorfuseModel.Props.C05"
PROPS_FILE = os.path.join(LEAN, "MorfuseModel", "Props", "C05.lean")

PROP = schedcheck.SchedProp(
    relevant={"out", "ret", "_status", "cls", "thr", "vm"},
    what="a parameter value, the result seen by the host, or what a failed call left behind differs from the proved protocol")

REC_PROP = schedcheck.SchedProp(
    relevant={"out", "t", "recs", "cls", "thr", "_status"},
    what="a bound parameter, a value of a host call record (argument or result, right after the call or once the thread finished), or what a call left behind differs from the proved protocol on result cells")


def is_rec_case(c):
    return len(c) > 1 and c[0] == "reset" and "## (" in c[1]


TRUSTED = [
    "Lean 4.33.0 kernel; axioms propext / Classical.choice / Quot.sound only (audited on every run)",
    "hand-written models lean/MorfuseModel/PtrCell/Model.lean (ScriptPointer), PtrCell/Call.lean (call records, STORE_PARAM on variable stores, SetFastData, end <expr>, CreateReturnThread — every statement a step of the cell model) and Sched/Machine.lean (bindLoop, hostCall, end), tied by three differential runs: harness/ptrcell.cpp on real ScriptVariable cells, harness/callrec.cpp and harness/engine.cpp on generated scripts",
    "renderers tools/vlib/schedgen.py, tools/vlib/callgen.py; hook H1; g++/ASan/UBSan",
]
ASSUME = [
    "argument kinds generated: integers (incl. >2^16 and >2^24), strings (incl. empty, with a space), NIL; other kinds travel through the same ScriptVariable copy code and are covered by C10/C04",
    "that ScriptThread::Execute(Event&)/ScriptVM::End perform exactly the modelled cell operations is checked by the `ret=` field of every call and, in the call-record scenarios, by every value of every record after every command, not proved",
    "call-record scenarios: values are integers, strings of letters (incl. empty), NIL and pending results; timed waits are > 0; that the cell part of every state of PtrCell/Call.lean is PtrCell.Reachable holds by construction (every change is a PtrCell.step) but is not a theorem: the driver flags a rejected step (MODEL-STUCK), none occurs",
]


class CellProp:
    def classify(self, lines, impl, crash, model):
        if crash:
            return "violation", "result-cell operation crashed / sanitizer report (a write through a dead address): " + crash, crash
        i = common.first_diff(impl, model)
        a = impl[i] if i < len(impl) else "<missing>"
        b = model[i] if i < len(model) else "<missing>"
        return "violation", "line %d `%s`: real cells `%s`, proved model `%s`" % (i, lines[i], a, b), "diff:cells"


def gen_cells(rng, n, N=6):
    lines = ["universe %d" % N]
    live = set()
    for _ in range(n):
        op = rng.choice(["newcell", "newcell", "newptr", "copy", "copy", "move", "move", "assign", "destroy", "setint", "endref", "endplain"])
        a, b = rng.randint(1, N), rng.randint(1, N)
        if rng.random() < 0.95:
            free = [x for x in range(1, N + 1) if x not in live]
            if op == "newcell":
                if not free: continue
                a = rng.choice(free); live.add(a)
            elif op in ("copy", "move"):
                if not free or not live: continue
                a = rng.choice(sorted(live)); b = rng.choice(free); live.add(b)
            elif live:
                a = rng.choice(sorted(live)); b = rng.choice(sorted(live))
                if op == "destroy":
                    if rng.random() < 0.5: continue
                    live.discard(a)
        if op in ("newcell", "newptr", "destroy", "endplain"):
            lines.append("%s %d" % (op, a))
        elif op in ("setint", "endref"):
            lines.append("%s %d %d" % (op, a, rng.randint(0, 9)))
        else:
            lines.append("%s %d %d" % (op, a, b))
    return lines


def check(ctx):
    common.proof_side(ctx, PROPS_MODULE, PROPS_FILE)
    if ctx.tier == "thorough":
        common.leanchecker(ctx, PROPS_MODULE)
    quick = ctx.tier == "quick"
    # (1) result cells
    exe1 = common.build_full(ctx, "h_ptrcell", ["ptrcell.cpp"])
    d1 = Diff(ctx, CellProp(), exe1, "ptrcell")
    bad1 = d1.run_batch([(n, c) for n, c in schedcheck.corpus_cases("C05") if c and c[0].startswith("universe")])
    rng = ctx.rng("cells")
    batch = []
    for i in range(400 if quick else 40000):
        batch.append(("cells:%d" % i, gen_cells(rng, rng.choice([8, 30, 120]))))
        if len(batch) == 200:
            bad1 += d1.run_batch(batch); batch = []
    bad1 += d1.run_batch(batch)
    ctx.oblige("correspondence harness/ptrcell.cpp == PtrCell model on %d histories" % d1.cases,
               bad1 == 0 and d1.failing_cases == 0, "%d differing" % max(bad1, d1.failing_cases), reported=True)
    # (2) the protocol end to end
    exe2 = common.build_full(ctx, "h_engine", ["engine.cpp"])
    d2 = Diff(ctx, PROP, exe2, "sched")
    bad2 = d2.run_batch([(n, c) for n, c in schedcheck.corpus_cases("C05") if c and c[0] == "reset" and not is_rec_case(c)])
    rng = ctx.rng("calls")
    batch = []
    for i in range(300 if quick else 25000):
        batch.append(("call:%d" % i, schedgen.gen_call_case(rng)))
        if len(batch) == 100:
            bad2 += d2.run_batch(batch); batch = []
    bad2 += d2.run_batch(batch)
    ctx.oblige("correspondence harness/engine.cpp == Sched.Machine on %d host-call scenarios" % d2.cases,
               bad2 == 0 and d2.failing_cases == 0, "%d differing" % max(bad2, d2.failing_cases), reported=True)
    # (3) call records: parameters of every scope, records used again, `end <pending result>`
    exe3 = common.build_full(ctx, "h_callrec", ["callrec.cpp"])
    d3 = Diff(ctx, REC_PROP, exe3, "callrec")
    bad3 = d3.run_batch([(n, c) for n, c in schedcheck.corpus_cases("C05") if is_rec_case(c)])
    rng = ctx.rng("records")
    batch = []
    for i in range(400 if quick else 30000):
        batch.append(("rec:%d" % i, callgen.gen_case(rng)))
        if len(batch) == 100:
            bad3 += d3.run_batch(batch); batch = []
    bad3 += d3.run_batch(batch)
    ctx.oblige("correspondence harness/callrec.cpp == PtrCell.Call on %d call-record scenarios" % d3.cases,
               bad3 == 0 and d3.failing_cases == 0, "%d differing" % max(bad3, d3.failing_cases), reported=True)
    sample = schedgen.gen_call_case(ctx.rng("sample"))
    ctx.samples = [gen_cells(ctx.rng("sample"), 10),
                   [l if not l.startswith("script ") else "script m <hex> ## " + l.split("## ", 1)[1] for l in sample]]
    sample3 = callgen.gen_case(ctx.rng("sample"))
    ctx.samples.append([l if not l.startswith("script ") else "script m <hex> ## " + l.split("## ", 1)[1] for l in sample3])
    hist = dict(d1.hist)
    for dd in (d2, d3):
        for k, v in dd.hist.items():
            hist[k] = hist.get(k, 0) + v
    cov = {"evaluations": d1.cases + d2.cases + d3.cases, "distinct_nontrivial": len(d1.distinct) + len(d2.distinct) + len(d3.distinct),
           "rule": "(a) histories of newcell/newptr/copy/move/assign/destroy/setint/endref/endplain over 6 heap-allocated ScriptVariable cells; (b) scripts whose labels declare 0-8 parameters, print them and finish synchronously / after timed waits / after a notify / never (pause, killed by endon), called with 0-8 arguments of int/string/NIL kinds, incl. labels that do not exist; (c) scripts of 2-5 labels whose 0-6 parameters are local./level./game./parm./group. variables (also assigned by code in front of the first label, which a call without label runs first), that print them, wait, start a helper thread and end with a literal / a variable / the helper's still-pending result, called 3-9 times with 0-7 arguments, the argument count going down, through fresh call records and through records used again while earlier calls made with them still wait; every value of every record is compared after every command; non-trivial = at least one accepted operation; distinct by SHA-1",
           "op_histogram": hist, "exhaustive": False, "skipped_after_failures": d1.skipped + d2.skipped + d3.skipped}
    return common.finish(ctx, "proof", cov, TRUSTED, ASSUME,
                         "cd lean && lake build && #print axioms audit; python3 tools/check.py C05")


def replay(ctx, obj):
    common.lake_build()
    if obj.get("area") == "ptrcell":
        exe = common.build_full(ctx, "h_ptrcell", ["ptrcell.cpp"])
        d = Diff(ctx, CellProp(), exe, "ptrcell")
        impl, crash, info, model = d.both(obj["lines"])
        for i, l in enumerate(obj["lines"]):
            print("> %s\n  impl : %s\n  model: %s" % (l, impl[i] if i < len(impl) else "<missing>", model[i] if i < len(model) else "<missing>"))
        if crash:
            print("CRASH", crash); print(info)
        bad = crash is not None or common.first_diff(impl, model) is not None
        print("replay:", "still differs" if bad else "no difference")
        return 1 if bad else 0
    if obj.get("area") == "callrec":
        exe = common.build_full(ctx, "h_callrec", ["callrec.cpp"])
        d = Diff(ctx, REC_PROP, exe, "callrec")
        impl, crash, info, model = d.both(obj["lines"])
        for i, l in enumerate(obj["lines"]):
            if l.startswith("script "):
                print(bytes.fromhex(l.split()[2]).decode())
                l = "script m <hex> ## " + l.split("## ", 1)[-1]
            print("> %s\n  impl : %s\n  model: %s" % (l, impl[i] if i < len(impl) else "<missing>", model[i] if i < len(model) else "<missing>"))
        if crash:
            print("CRASH", crash); print(info)
        bad = crash is not None or common.first_diff(impl, model) is not None
        print("replay:", "still differs" if bad else "no difference")
        return 1 if bad else 0
    return schedcheck.replay(ctx, PROP, obj)
