"""C06 — timed waits: never early, earliest first, exactly once (DESIGN.md 7.4)."""
import itertools
import os

from vlib import schedcheck, schedgen
from vlib.common import LEAN

PROPS_MODULE = "MorfuseModel.Props.C06"
PROPS_FILE = os.path.join(LEAN, "MorfuseModel", "Props", "C06.lean")

PROP = schedcheck.SchedProp(
    relevant={"out", "idle", "_status", "tim"},
    what="the frame in which a timed thread resumed, the order of resumption inside the frame, or the busy flag differs from what the timer theorems allow")

TRUSTED = [
    "Lean 4.33.0 kernel; axioms propext / Classical.choice / Quot.sound only (audited on every run)",
    "hand-written models lean/MorfuseModel/Sched/{Timer,Tables,Machine}.lean of timer.cpp, ScriptMaster.cpp, ScriptThread.cpp, ScriptVM.cpp, Listener.cpp, tied by the differential run against harness/engine.cpp",
    "the renderer tools/vlib/schedgen.py from abstract programs to script text",
    "hook H1 (injected millisecond clock) stands for steady_clock; g++/ASan/UBSan",
]
ASSUME = [
    "time scale 1, the host calls Execute after every clock advance (the property's stated schedule class), integer-millisecond clock; single advances of any size (the machine counts in Nat, so 2^24+1 or 2^40+1 ms are exact)",
    "seconds-to-milliseconds conversion of a wait literal is modelled as uint64_t(strtof(text) * 1000.f) in binary32, computed exactly by the renderer (tools/vlib/schedgen.py engine_ms); durations include ones that are not exact in binary32 (0.7, 0.9, 0.35 …) with frames one millisecond before, on and after every due time",
    "theorems are about every history of timer operations; that the engine performs exactly those operations is checked by correspondence, not proved",
]


def timer_case(rng):
    return schedgen.gen_case(rng, schedgen.gen_timer_prog(rng))


def mixed_case(rng):
    return schedgen.gen_case(rng, schedgen.gen_sync_prog(rng))


def exhaustive(quick):
    """every assignment of wait durations to 2 (quick) / 3 threads with 2 waits each, under a fixed
    family of frame schedules (correspondence input, not proof)"""
    durs = [0, 125, 250]
    nthreads = 2 if quick else 3
    scheds = [[125, 125, 125, 125, 125], [0, 250, 0, 250], [1000], [50, 50, 50, 50, 50, 50, 50, 50, 50, 50]]
    cases = []
    for combo in itertools.product(durs, repeat=2 * nthreads):
        prog = [[("mark", 1)] + [("thread", i + 1) for i in range(nthreads)] + [("mark", 2)]]
        k = 10
        for i in range(nthreads):
            body = []
            for w in combo[2 * i:2 * i + 2]:
                body += [("mark", k), ("wait", w)]
                k += 1
            body.append(("mark", k)); k += 1
            prog.append(body)
        for sc in (scheds if not quick else scheds[:2]):
            cases.append(["reset", schedgen.script_line(prog), "call m t0"] + ["step %d" % x for x in sc] + ["step 1000", "thread-result"])
    # one huge single clock advance (2^24+-1, +-3, 2^31+-1, 2^32+1 ...), then waits with frames at due-1 / due / due+1
    cases += schedgen.huge_advance_family(quick)
    return cases


def check(ctx):
    gens = [("timer", 300, 25000, timer_case), ("mixed", 100, 10000, mixed_case),
            ("inexact", 60, 3000, schedgen.gen_inexact_case), ("huge", 100, 5000, schedgen.gen_huge_case)]
    rule = ("programs of 1-5 thread bodies (mark / wait d / thread / end, d in {0,0,125,250,500} ms) and mixed programs with "
            "waittill/notify, under random frame schedules (steps from {0,50,125,250,300,1000} ms) plus every duration "
            "assignment for 2-3 threads x 2 waits under fixed schedules; schedules with ONE huge single clock advance (2^24+-1, +-3, 2^25+k, "
            "2^31+-1, 2^32+-1, 2^40+1, random odd values up to 2^34; while nothing runs, while a thread sleeps, twice in a row, as "
            "advance+execute) followed by waits whose frames land at due-1 / due / due+1; non-trivial = at least one marker printed; distinct by SHA-1")
    return schedcheck.run(ctx, PROP, PROPS_MODULE, PROPS_FILE, gens, TRUSTED, ASSUME, rule, exhaustive=exhaustive)


def replay(ctx, obj):
    return schedcheck.replay(ctx, PROP, obj)
