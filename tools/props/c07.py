"""C07 — waittill/notify/endon/waitthread: no lost, early or duplicate wake-ups (DESIGN.md 7.4)."""
import itertools
import os

from vlib import schedcheck, schedgen
from vlib.common import LEAN

PROPS_MODULE = "MorfuseModel.Props.C07"
PROPS_FILE = os.path.join(LEAN, "MorfuseModel", "Props", "C07.lean")

PROP = schedcheck.SchedProp(
    relevant={"out", "idle", "_status", "thr", "vm", "cls", "ret"},
    what="a thread proceeded (or was destroyed) at a different moment, a different number of times or in a different order than the notify/endon/delete/waitthread rules of the proved model allow")

TRUSTED = [
    "Lean 4.33.0 kernel; axioms propext / Classical.choice / Quot.sound only (audited on every run)",
    "hand-written models lean/MorfuseModel/Sched/{Tables,Machine}.lean of Listener.cpp / ScriptThread.cpp / ScriptVM.cpp / ScriptClass.cpp, tied by the differential run against harness/engine.cpp",
    "the renderer tools/vlib/schedgen.py from abstract programs to script text",
    "hook H1 (injected clock); g++/ASan/UBSan",
]
ASSUME = [
    "theorems cover the table layer (registration mirror, notify selects exactly the registered threads once, in order, and clears them; a notify without waiters is a no-op of the machine); the cascade that executes / destroys the selected threads is modelled by Sched.Machine and compared with the engine, not proved",
    "names of one listener are processed in insertion order by the model where the engine uses hash order (not observable in generated programs: it only permutes destructions inside one command)",
]


def sync_case(rng):
    return schedgen.gen_case(rng, schedgen.gen_sync_prog(rng))


def exhaustive(quick):
    """every short history of two worker threads over one object / two names, with a notifier"""
    acts = [("waittill", 1, [1]), ("waittill", 1, [1, 2]), ("notify", 1, 1), ("notify", 1, 2), ("endon", 1, 1),
            ("delete", 1), ("wait", 0), ("waitthread", 3)]
    n = 2 if quick else 3
    cases = []
    for a in itertools.product(acts, repeat=n):
        for b in itertools.product(acts[:6], repeat=2):
            prog = [[("spawn", 1), ("mark", 1), ("thread", 1), ("mark", 2), ("thread", 2), ("mark", 3)],
                    [("mark", 10)] + [x for act in a for x in (act, ("mark", 11 + a.index(act)))],
                    [("mark", 20)] + [x for act in b for x in (act, ("mark", 21 + b.index(act)))],
                    [("mark", 30), ("wait", 0), ("mark", 31), ("end", 5)]]
            cases.append(["reset", schedgen.script_line(prog), "call m t0", "step 0", "step 125", "step 1000", "thread-result"])
    # timeouts: a worker mixing waittill_timeout / waittill / waits, a notifier called between frames
    wacts = [("waittill_timeout", 1, 1, 250), ("waittill_timeout", 1, 2, 125), ("waittill", 1, [2]), ("waittill", 1, [1]), ("wait", 0), ("wait", 125)]
    for a in itertools.product(wacts, repeat=3):
        body = [("mark", 10)]
        for k, act in enumerate(a):
            body += [act, ("mark", 11 + k)]
        prog = [[("spawn", 1), ("mark", 1)], body, [("mark", 20), ("notify", 1, 1), ("mark", 21)], [("mark", 30), ("notify", 1, 2), ("mark", 31)]]
        for sched in (["call m t2", "step 125", "step 125", "step 250"], ["step 125", "call m t2", "step 125", "call m t3", "step 250"], ["step 300", "call m t3", "step 300"]):
            cases.append(["reset", schedgen.script_line(prog), "call m t0", "call m t1", "step 0"] + sched + ["step 1000", "step 1000"])
    # one object carrying endon registrations under several names: every order of notifying them
    cases += schedgen.endon_family(quick)
    return cases


def check(ctx):
    gens = [("sync", 500, 40000, sync_case),
            ("hub", 150, 8000, lambda r: schedgen.gen_case(r, schedgen.gen_hub_prog(r), ncalls=1)),
            ("endon", 300, 15000, schedgen.gen_endon_case)]
    rule = ("programs of 2-6 thread bodies over up to 3 objects and 3 names (waittill, waittill_any, notify, endon, delete, thread, "
            "waitthread, wait, pause, end), and programs whose threads wait on / notify a THREAD object of their own script instance (local.p0 waittill / notify), under random host calls and frame schedules, plus every short history of two workers and a "
            "notifier over one object; programs whose threads are named in `endon` of ONE object under several event names at the same "
            "time (k threads / distinct names / parked on a gate, a timer or paused; the names notified in every order, inside one "
            "command and by host calls between frames; random mixtures with waittill, delete and a second object); non-trivial = at least one accepted command; distinct by SHA-1")
    return schedcheck.run(ctx, PROP, PROPS_MODULE, PROPS_FILE, gens, TRUSTED, ASSUME, rule, exhaustive=exhaustive)


def replay(ctx, obj):
    return schedcheck.replay(ctx, PROP, obj)
