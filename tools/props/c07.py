"""C07 — waittill/notify/endon/waitthread: no lost, early or duplicate wake-ups (DESIGN.md 7.4)."""
import itertools
import os
import re

from vlib import common, schedcheck, schedgen
from vlib.common import LEAN

PROPS_MODULE = "MorfuseModel.Props.C07"
PROPS_FILE = os.path.join(LEAN, "MorfuseModel", "Props", "C07.lean")

PROP = schedcheck.SchedProp(
    relevant={"out", "idle", "_status", "thr", "vm", "cls", "ret"},
    what="a thread proceeded (or was destroyed) at a different moment, a different number of times or in a different order than the notify/endon/delete/waitthread rules of the proved model allow")

TRUSTED = [
    "Lean 4.33.0 kernel; axioms propext / Classical.choice / Quot.sound only (audited on every run)",
    "hand-written models lean/MorfuseModel/Sched/{Tables,Machine}.lean of Listener.cpp / ScriptThread.cpp / ScriptVM.cpp / ScriptClass.cpp, tied by the differential run against harness/engine.cpp",
    "the renderer tools/vlib/schedgen.py from abstract programs to script text",
    "hook H1 (injected clock); g++/ASan/UBSan",
]
ASSUME = [
    "waits of one thread for the same event name on several objects at once (array receiver `($a::$b) waittill n`) are outside the machine; they are compared on the engine only with the reference oracle in tools/vlib/schedgen.py (MultiOracle: the property read literally), a test, not part of any theorem's tie",
    "theorems cover the table layer (registration mirror, notify selects exactly the registered threads once, in order, and clears them; a notify without waiters is a no-op of the machine); the cascade that executes / destroys the selected threads is modelled by Sched.Machine and compared with the engine, not proved",
    "names of one listener are processed in insertion order by the model where the engine uses hash order (not observable in generated programs: it only permutes destructions inside one command)",
]


def sync_case(rng):
    return schedgen.gen_case(rng, schedgen.gen_sync_prog(rng))


def exhaustive(quick):
    """every short history of two worker threads over one object / two names, with a notifier"""
    acts = [("waittill", 1, [1]), ("waittill", 1, [1, 2]), ("notify", 1, 1), ("notify", 1, 2), ("endon", 1, 1),
            ("delete", 1), ("wait", 0), ("waitthread", 3)]
    n = 2 if quick else 3
    cases = []
    for a in itertools.product(acts, repeat=n):
        for b in itertools.product(acts[:6], repeat=2):
            prog = [[("spawn", 1), ("mark", 1), ("thread", 1), ("mark", 2), ("thread", 2), ("mark", 3)],
                    [("mark", 10)] + [x for act in a for x in (act, ("mark", 11 + a.index(act)))],
                    [("mark", 20)] + [x for act in b for x in (act, ("mark", 21 + b.index(act)))],
                    [("mark", 30), ("wait", 0), ("mark", 31), ("end", 5)]]
            cases.append(["reset", schedgen.script_line(prog), "call m t0", "step 0", "step 125", "step 1000", "thread-result"])
    # timeouts: a worker mixing waittill_timeout / waittill / waits, a notifier called between frames
    wacts = [("waittill_timeout", 1, 1, 250), ("waittill_timeout", 1, 2, 125), ("waittill", 1, [2]), ("waittill", 1, [1]), ("wait", 0), ("wait", 125)]
    for a in itertools.product(wacts, repeat=3):
        body = [("mark", 10)]
        for k, act in enumerate(a):
            body += [act, ("mark", 11 + k)]
        prog = [[("spawn", 1), ("mark", 1)], body, [("mark", 20), ("notify", 1, 1), ("mark", 21)], [("mark", 30), ("notify", 1, 2), ("mark", 31)]]
        for sched in (["call m t2", "step 125", "step 125", "step 250"], ["step 125", "call m t2", "step 125", "call m t3", "step 250"], ["step 300", "call m t3", "step 300"]):
            cases.append(["reset", schedgen.script_line(prog), "call m t0", "call m t1", "step 0"] + sched + ["step 1000", "step 1000"])
    # one object carrying endon registrations under several names: every order of notifying them
    cases += schedgen.endon_family(quick)
    return cases


def oracle_mismatch(lines, exp, got):
    """first answer line of the engine that differs from the reference oracle, or None"""
    if len(got) != len(lines):
        return "engine answered %d lines for %d commands" % (len(got), len(lines))
    for i, e in enumerate(exp):
        if e is None:
            continue
        m = re.search(r"out=\[([^\]]*)\]", got[i])
        t = re.search(r"thr=(\d+)", got[i])
        if not got[i].startswith("ok") or not m or not t:
            return "line %d `%s`: engine answered `%s`" % (i, lines[i][:30], got[i])
        out = m.group(1).split("|") if m.group(1) else []
        if out != e[0]:
            return ("line %d `%s`: the engine printed [%s], the property requires [%s] (a thread registered on an object under a name "
                    "proceeds exactly once, at once, when that name is notified there; removing an awaited object destroys the waiter)"
                    % (i, lines[i][:30], "|".join(out), "|".join(e[0])))
        if int(t.group(1)) != e[1]:
            return "line %d `%s`: %s live threads, the property requires %d (%s)" % (i, lines[i][:30], t.group(1), e[1], got[i])
    return None


def engine_only_family(ctx, exe):
    """threads waiting for one event name on SEVERAL objects at once (array receiver): the machine has no such
    instruction; the engine's answers are compared with the reference oracle of tools/vlib/schedgen.py"""
    fam = schedgen.multi_family(ctx.tier == "quick")
    allines = [l for _, ls, _ in fam for l in ls]
    impl, crash, info = common.run_lines(exe, [], allines, timeout=300)
    bad = 0
    pos = 0
    for desc, lines, exp in fam:
        got = impl[pos:pos + len(lines)]
        pos += len(lines)
        why = oracle_mismatch(lines, exp, got) if not crash else "batch crashed"
        if why is None:
            continue
        # isolate (cases are self-contained)
        got1, crash1, info1 = common.run_lines(exe, [], lines, timeout=60)
        why1 = ("crash: " + crash1) if crash1 else oracle_mismatch(lines, exp, got1)
        if why1 is None:
            continue
        bad += 1
        if bad <= 3:
            sig = crash1 if crash1 else "phi:multi-object-waittill"
            replay = common.save_replay(ctx, {
                "property": "C07", "kind": "engine-only oracle", "case": desc, "lines": lines, "impl_out": got1,
                "expected": [None if e is None else {"out": e[0], "thr": e[1]} for e in exp],
                "script": bytes.fromhex(lines[1].split(" ")[2]).decode(), "crash": crash1, "crash_info": info1 if crash1 else "",
                "signature": sig, "why": why1, "how_to_replay": "python3 tools/check.py C07 --replay <this file>"})
            ctx.violations.append({"signature": sig, "replay": replay, "why": why1, "found_input": True})
    ctx.oblige("engine-only: one thread waiting for the same event on several objects (array receiver), every order of notify / delete, "
               "engine == reference oracle (%d scenarios)" % len(fam), bad == 0, "%d failing" % bad, reported=True)
    ctx.stats["multi_object_scenarios"] = len(fam)
    return bad


def check(ctx):
    gens = [("sync", 500, 40000, sync_case),
            ("hub", 150, 8000, lambda r: schedgen.gen_case(r, schedgen.gen_hub_prog(r), ncalls=1)),
            ("endon", 300, 15000, schedgen.gen_endon_case)]
    rule = ("programs of 2-6 thread bodies over up to 3 objects and 3 names (waittill, waittill_any, notify, endon, delete, thread, "
            "waitthread, wait, pause, end), and programs whose threads wait on / notify a THREAD object of their own script instance (local.p0 waittill / notify), under random host calls and frame schedules, plus every short history of two workers and a "
            "notifier over one object; programs whose threads are named in `endon` of ONE object under several event names at the same "
            "time (k threads / distinct names / parked on a gate, a timer or paused; the names notified in every order, inside one "
            "command and by host calls between frames; random mixtures with waittill, delete and a second object); non-trivial = at least one accepted command; distinct by SHA-1")
    return schedcheck.run(ctx, PROP, PROPS_MODULE, PROPS_FILE, gens, TRUSTED, ASSUME, rule, exhaustive=exhaustive,
                          extra_engine=engine_only_family)


def replay(ctx, obj):
    if obj.get("kind") == "engine-only oracle":
        exe = schedcheck.build_engine(ctx)
        got, crash, info = common.run_lines(exe, [], obj["lines"], timeout=60)
        exp = [None if e is None else (e["out"], e["thr"]) for e in obj["expected"]]
        print(obj.get("script", ""))
        for i, l in enumerate(obj["lines"]):
            print("> %s\n  impl    : %s\n  required: %s" % (l[:60], got[i] if i < len(got) else "<missing>", exp[i]))
        why = ("crash: " + crash) if crash else oracle_mismatch(obj["lines"], exp, got)
        if crash:
            print(info)
        print("replay:", ("still fails: " + why) if why else "no failure")
        return 1 if why else 0
    return schedcheck.replay(ctx, PROP, obj)
