"""C08 — posted events: delivered once, not early, in due-time order, unless cancelled (DESIGN.md 7.3)."""
import glob
import itertools
import json
import os

from vlib import common, eqgen
from vlib.common import Diff, VERIF, LEAN

AREA = "eventqueue"
PROPS_MODULE = "MorfuseModel.Props.C08"
PROPS_FILE = os.path.join(LEAN, "MorfuseModel", "Props", "C08.lean")
NL, NT = 3, 4
DELAYS = [-2, -1, 0, 0, 0, 1, 1, 2, 3, 5]
TICKS = [0, 1, 1, 2, 3]
AMOUNTS = [0, 0, 1, 1, 2, 3, 5, 9]

# the histories of the Lean theorems `C08_original_postpone_loses_event`, `C08_original_postpone_ub`,
# `C08_original_load_ub` (Props/C08.lean, `origOps` + one operation), continued by a pass so that the
# loss is seen as a missing delivery; replayed on the real code first on every run
WITNESSES = [
    ("witness:postpone-root-lost", ["reset 0", "newl 1", "post 1 1 5 0", "post 1 2 9 0", "postpone 1 1 3", "tick 20", "process"]),
    ("witness:postpone-past-tail", ["reset 0", "newl 1", "post 1 1 5 0", "post 1 2 9 0", "postpone 1 2 0", "tick 20", "process"]),
    ("witness:archive-load", ["reset 0", "newl 1", "post 1 1 5 0", "post 1 2 9 0", "saveload", "tick 20", "process"]),
]

TRUSTED = [
    "Lean 4.33.0 kernel (lake build; leanchecker in the thorough tier)",
    "axioms allowed: propext, Classical.choice, Quot.sound (audited by #print axioms on every run)",
    "hand-written model lean/MorfuseModel/EventQueue/Model.lean of EventQueue.cpp (all of it) / EventQueueNode.cpp / LinkedList<T*> / Listener post+cancel+postpone+per-listener pass+destructor / EventContext::ProcessEvents, tied by the differential correspondence run (harness/eventqueue.cpp vs lean driver)",
    "tools/vlib/eqgen.py: recognises which of the two re-linking sequences PostponeEvent / PostponeAllEvents use and whether Archive(loading) assigns node->event, by comparing the comment- and whitespace-free function text with the transcribed text",
    "Archive round trip: the model's record = (sequence number, listener, type, due, flags); that Event::Archive / ArchiveSafePointer / ArchiveInt64 / ArchiveUInt32 carry exactly these through the byte stream is C10/C11's subject and is only observed here through the harness (same context, same listener objects)",
    "the host listener class, handler table, budget and injected clock of harness/eventqueue.cpp are mirrored by the model's Host record (they are test scaffolding, not engine code)",
    "g++ 12 / ASan / UBSan semantics for memory errors in the real queue (a use of a freed pool slot is only visible when it changes an observation: BlockAlloc recycles without poisoning)",
    "Std.HashMap.getD_insert (core library lemma) behind Mem.get_set / EvMem.get_set",
]
ASSUME = [
    "operations are legal host programs: no call on a destroyed listener (answered bad-op on both sides); inside a response, actions on a destroyed listener are skipped by the host",
    "the clock is monotone and moves only through `tick` (top level or inside a response); times stay far from the int64 range",
    "re-entrant posts are bounded by the host's budget, so every pass is finite (a response that re-posts itself with delay <= 0 forever is a non-terminating host program, not a queue defect)",
    "responses do not throw; postponement amounts are non-negative (PostponeEvent searches forward only: a negative amount is not a postponement and would leave the list unsorted)",
    "ProcessPendingEvents(Listener*), ClearEventList and Archive are called from top level only (not from inside a response); Archive saves and loads within one context whose listeners are archived first",
    "cancelled Event objects are leaked by the engine (known, stated in DESIGN.md section 8: no property speaks about it)",
]


# ------------------------------------------------------------------------------------------------
# independent abstract oracle = the property as an executable trace monitor

class Oracle:
    """The abstract specification: a multiset of pending events ordered by (due, seq)."""

    def __init__(self, budget):
        self.pending = []       # dicts seq,l,t,due,f kept sorted by (due, seq)
        self.alive = set()
        self.now = 0
        self.budget = budget
        self.seq = 1
        self.handlers = {}
        self.cancelled = set()
        self.delivered = set()
        self.ord = 1            # enqueue stamp: posting order, renewed by a postponement

    def act(self, a, re):
        """returns the boolean result of the engine call where there is one"""
        k = a[0]
        if k == "tick":
            self.now += a[1]
            return
        l = a[1]
        if l not in self.alive:
            return
        if k in ("postpone", "postponeall"):
            if k == "postpone":
                hit = [e for e in self.pending if e["l"] == l and e["t"] == a[2]]
                d = a[3]
            else:
                hit = [e for e in self.pending if e["l"] == l]
                d = a[2]
            if not hit:
                return False
            e = hit[0]              # the first one in queue order
            e["due"] += d
            e["ord"] = self.ord
            self.ord += 1
            self.pending.sort(key=lambda e: (e["due"], e["ord"]))
            return True
        if k == "post":
            _, l, t, d, f = a
            if re:
                if self.budget == 0:
                    return
                self.budget -= 1
            seq = self.seq
            self.seq += 1
            if t == 0 or not (1 <= t <= 3):
                return
            self.pending.append({"seq": seq, "l": l, "t": t, "due": self.now + d, "f": f, "ord": self.ord})
            self.ord += 1
            self.pending.sort(key=lambda e: (e["due"], e["ord"]))
        elif k in ("ctype", "call", "cflag", "destroy"):
            if k == "ctype":
                m = lambda e: e["l"] == l and e["t"] == a[2]
            elif k == "cflag":
                m = lambda e: e["l"] == l and (e["f"] & a[2]) != 0
            else:
                m = lambda e: e["l"] == l
            self.cancelled |= {e["seq"] for e in self.pending if m(e)}
            self.pending = [e for e in self.pending if not m(e)]
            if k == "destroy":
                self.alive.discard(l)

    def process(self):
        t = self.now
        out = []
        while self.pending and self.pending[0]["due"] <= t:
            e = self.pending.pop(0)
            self.delivered.add(e["seq"])
            out.append("%d:%d:%d@%d" % (e["l"], e["t"], e["seq"], self.now))
            for a in self.handlers.get((e["l"], e["t"]), []):
                self.act(a, True)
        return out

    def process_listener(self, l):
        """one listener's due events, in queue order, each time starting over from the front"""
        t = self.now
        out = []
        while True:
            hit = [e for e in self.pending if e["due"] <= t and e["l"] == l]
            if not hit:
                break
            e = hit[0]
            self.pending.remove(e)
            self.delivered.add(e["seq"])
            out.append("%d:%d:%d@%d" % (e["l"], e["t"], e["seq"], self.now))
            for a in self.handlers.get((e["l"], e["t"]), []):
                self.act(a, True)
        return out

    def clear(self):
        self.cancelled |= {e["seq"] for e in self.pending}
        self.pending = []

    def queue(self):
        return "n=%d q=%s" % (len(self.pending), ",".join("%d@%d" % (e["seq"], e["due"]) for e in self.pending))


def parse_action(tok):
    p = tok.split(":")
    try:
        n = [int(x) for x in p[1:]]
    except ValueError:
        return None
    okl = lambda l: 1 <= l <= NL
    if p[0] == "p" and len(n) == 4 and okl(n[0]) and 0 <= n[1] <= NT and 0 <= n[3] <= 7:
        return ("post", n[0], n[1], n[2], n[3])
    if p[0] == "ct" and len(n) == 2 and okl(n[0]) and 1 <= n[1] <= NT:
        return ("ctype", n[0], n[1])
    if p[0] == "ca" and len(n) == 1 and okl(n[0]):
        return ("call", n[0])
    if p[0] == "cf" and len(n) == 2 and okl(n[0]) and 0 <= n[1] <= 7:
        return ("cflag", n[0], n[1])
    if p[0] == "d" and len(n) == 1 and okl(n[0]):
        return ("destroy", n[0])
    if p[0] == "t" and len(n) == 1 and n[0] >= 0:
        return ("tick", n[0])
    if p[0] == "pp" and len(n) == 3 and okl(n[0]) and 0 <= n[1] <= NT and n[2] >= 0:
        return ("postpone", n[0], n[1], n[2])
    if p[0] == "pa" and len(n) == 2 and okl(n[0]) and n[1] >= 0:
        return ("postponeall", n[0], n[1])
    return None


def oracle_lines(lines):
    """expected output of every line according to the abstract specification, plus per-line context
    used to explain a difference"""
    o = None
    out, ctxs = [], []
    for line in lines:
        t = line.split()
        ctxinfo = {"op": t[0] if t else ""}
        res = "bad-op"
        try:
            if t and t[0] == "reset" and (len(t) == 2 or (len(t) == 3 and t[2] == "src")) and int(t[1]) >= 0:
                o = Oracle(int(t[1]))
                res = "ok"
            elif o is None or not t:
                pass
            elif t[0] == "handler" and len(t) >= 3:
                l, ty = int(t[1]), int(t[2])
                acts = [parse_action(x) for x in t[3:]]
                if 1 <= l <= NL and 1 <= ty <= 3 and all(a is not None for a in acts):
                    o.handlers[(l, ty)] = acts
                    res = "ok"
            else:
                n = [int(x) for x in t[1:]]
                okl = lambda l: 1 <= l <= NL
                op = t[0]
                if op == "newl" and len(n) == 1 and okl(n[0]) and n[0] not in o.alive:
                    o.alive.add(n[0])
                    res = "ok"
                elif op == "pend" and len(n) == 2 and n[0] in o.alive and 1 <= n[1] <= NT:
                    res = "ok %d" % (1 if any(e["l"] == n[0] and e["t"] == n[1] for e in o.pending) else 0)
                elif op == "process" and not n:
                    ctxinfo["before"] = [dict(e) for e in o.pending]
                    ctxinfo["t"] = o.now
                    ctxinfo["cancelled"] = set(o.cancelled)
                    ctxinfo["delivered"] = set(o.delivered)
                    d = o.process()
                    res = "ok d=%s %s" % (",".join(d), o.queue())
                elif op == "processl" and len(n) == 1 and n[0] in o.alive:
                    ctxinfo["before"] = [dict(e) for e in o.pending]
                    ctxinfo["t"] = o.now
                    ctxinfo["cancelled"] = set(o.cancelled)
                    ctxinfo["delivered"] = set(o.delivered)
                    ctxinfo["listener"] = n[0]
                    d = o.process_listener(n[0])
                    res = "ok r=%d d=%s %s" % (1 if d else 0, ",".join(d), o.queue())
                elif op == "clear" and not n:
                    o.clear()
                    res = "ok " + o.queue()
                elif op == "saveload" and not n:
                    res = "ok " + o.queue()
                elif op == "postpone" and len(n) == 3 and n[0] in o.alive and 0 <= n[1] <= NT and n[2] >= 0:
                    ctxinfo["before"] = [dict(e) for e in o.pending]
                    r = o.act(("postpone", n[0], n[1], n[2]), False)
                    res = "ok r=%d %s" % (1 if r else 0, o.queue())
                elif op == "postponeall" and len(n) == 2 and n[0] in o.alive and n[1] >= 0:
                    ctxinfo["before"] = [dict(e) for e in o.pending]
                    r = o.act(("postponeall", n[0], n[1]), False)
                    res = "ok r=%d %s" % (1 if r else 0, o.queue())
                else:
                    a = None
                    if op == "post" and len(n) == 4 and okl(n[0]) and 0 <= n[1] <= NT and 0 <= n[3] <= 7:
                        a = ("post", n[0], n[1], n[2], n[3])
                    elif op == "ctype" and len(n) == 2 and okl(n[0]) and 1 <= n[1] <= NT:
                        a = ("ctype", n[0], n[1])
                    elif op == "call" and len(n) == 1 and okl(n[0]):
                        a = ("call", n[0])
                    elif op == "cflag" and len(n) == 2 and okl(n[0]) and 0 <= n[1] <= 7:
                        a = ("cflag", n[0], n[1])
                    elif op == "destroy" and len(n) == 1 and okl(n[0]):
                        a = ("destroy", n[0])
                    elif op == "tick" and len(n) == 1 and n[0] >= 0:
                        a = ("tick", n[0])
                    if a is not None and (a[0] == "tick" or a[1] in o.alive):
                        o.act(a, False)
                        res = "ok " + o.queue()
        except ValueError:
            res = "bad-op"
        out.append(res)
        ctxs.append(ctxinfo)
    return out, ctxs


def parse_obs(s):
    """'ok d=.. n=.. q=..' -> (deliveries [(l,t,seq,clock)], queue [(seq,due)], extra flags) or None"""
    try:
        parts = s.split()
        if not parts or parts[0] != "ok":
            return None
        d, q, flags = [], [], []
        for p in parts[1:]:
            if p.startswith("d="):
                for x in filter(None, p[2:].split(",")):
                    a, clock = x.split("@")
                    l, t, seq = a.split(":")
                    d.append((int(l), int(t), int(seq), int(clock)))
            elif p.startswith("q="):
                for x in filter(None, p[2:].split(",")):
                    if "!" in x:
                        flags.append("dead-listener")
                        x = x.split("!")[0]
                    seq, due = x.split("@")
                    q.append((int(seq), int(due)))
            elif p.startswith("n=") or p in ("r=0", "r=1"):
                pass
            else:
                flags.append(p)
        return d, q, flags
    except ValueError:
        return None


def explain(line, got, want, c):
    """which clause of C08 the implementation's answer `got` breaks on this line (want = specification)"""
    g, w = parse_obs(got), parse_obs(want)
    if g is None or w is None:
        return "accept-reject"
    gd, gq, gf = g
    wd, wq, _ = w
    if "dead-listener" in gf:
        return "pending-event-of-destroyed-listener"
    if gf:
        return "structure:" + "+".join(sorted(set(gf)))
    op = c.get("op")
    if op in ("postpone", "postponeall", "saveload", "clear") and "r=" in got and "r=" in want and \
            got.split()[1] != want.split()[1]:
        return "result"
    if op in ("postpone", "postponeall"):
        gs, ws = [x for x, _ in gq], [x for x, _ in wq]
        if set(gs) != set(ws):
            return "postponed-event-lost" if set(gs) < set(ws) else "queue-content"
        if gs != ws:
            return "queue-order"
        if gq != wq:
            return "due-time"
    if op == "saveload" and gq != wq:
        return "archive-round-trip"
    if op == "processl" and [x[0] for x in gd if x[0] != c.get("listener")]:
        return "delivered-other-listener"
    if op in ("process", "processl"):
        before = {e["seq"]: e for e in c.get("before", [])}
        t = c.get("t", 0)
        gseqs = [x[2] for x in gd]
        wseqs = [x[2] for x in wd]
        if len(set(gseqs)) != len(gseqs):
            return "delivered-twice"
        for s in gseqs:
            if s in c.get("delivered", ()):
                return "delivered-twice"
            if s in c.get("cancelled", ()):
                return "delivered-after-cancel"
            if s in before and before[s]["due"] > t:
                return "delivered-early"
        if set(gseqs) != set(wseqs):
            missing = [s for s in wseqs if s not in gseqs]
            if missing:
                return "not-delivered-when-due" if any(s in before for s in missing) else "reentrant-post-not-delivered"
            return "delivered-unexpected"
        if gseqs != wseqs:
            return "delivery-order"
        if gd != wd:
            return "delivery-record"
    if [s for s, _ in gq] != [s for s, _ in wq]:
        if set(s for s, _ in gq) != set(s for s, _ in wq):
            return {"ctype": "cancel-inexact", "call": "cancel-inexact", "cflag": "cancel-inexact",
                    "destroy": "destroy-cancel-inexact", "post": "post-lost-or-phantom", "clear": "clear-inexact",
                    "process": "queue-after-pass", "processl": "queue-after-pass"}.get(op, "queue-content")
        return "queue-order"
    if gq != wq:
        return "due-time"
    return "other"


STRUCT_FLAGS = (" LINKS-BAD", " COUNT-MISMATCH")


def strip_struct(out):
    """drop the harness's representation-check flags: what is left is what the property speaks about
    (accepted or not, deliveries, queue content and order, due times, pending answers)"""
    res = []
    for l in out:
        for f in STRUCT_FLAGS:
            l = l.replace(f, "")
        res.append(l)
    return res


class Prop:
    def classify(self, lines, impl, crash, model):
        want, ctxs = oracle_lines(lines)
        if crash:
            return "violation", "implementation crashed / hung / sanitizer report: " + crash, crash
        if common.first_diff(strip_struct(impl), want) is None and common.first_diff(impl, want) is not None:
            # only the representation check fired and no continuation that was tried turned it into a
            # wrong delivery / order / cancellation: a proved invariant of the model (C08_links_wellformed)
            # does not hold in the implementation, but no clause of C08 was seen to fail
            j = common.first_diff(impl, want)
            return ("representation-only", "line %d `%s`: the real list's prev/next/tail/count are inconsistent (`%s`) although "
                    "deliveries and queue order agree with the specification; no continuation tried made a clause of C08 fail"
                    % (j, lines[j], impl[j]), "diff:%s:representation-only" % (lines[j].split() or ["?"])[0])
        simpl = strip_struct(impl)
        i = common.first_diff(simpl, want)
        if i is None:
            # the implementation does what the specification says on this input: the difference is
            # between the implementation and the hand-written *model*, and no clause of C08 is broken
            j = common.first_diff(impl, model)
            return ("model-mismatch", "implementation agrees with the abstract specification; line %s differs only from the "
                    "link-level model (`%s` vs `%s`)" % (j, impl[j] if j is not None and j < len(impl) else "<missing>",
                                                        model[j] if j is not None and j < len(model) else "<missing>"),
                    "diff:model-only")
        got = simpl[i] if i < len(simpl) else "<missing>"
        kind = explain(lines[i] if i < len(lines) else "", got, want[i], ctxs[i]) if i < len(simpl) else "truncated"
        why = "line %d `%s`: implementation says `%s`, the specification (and the proved model) says `%s` [%s]" % (
            i, lines[i] if i < len(lines) else "?", impl[i] if i < len(impl) else "<missing>", want[i], kind)
        j = common.first_diff(impl, want)
        if j is not None and j < i:
            why += "; the real list's links were already inconsistent at line %d `%s` (`%s`)" % (j, lines[j], impl[j])
        opk = (lines[i].split() or ["?"])[0] if i < len(lines) else "?"
        return "violation", why, "diff:%s:%s" % (opk, kind)


# ------------------------------------------------------------------------------------------------
# generators

def rand_action(rng):
    k = rng.random()
    l = rng.randint(1, NL)
    if k < 0.5:
        t = rng.choice([1, 1, 2, 2, 3, 3, 3, 0, 4]) if rng.random() < 0.15 else rng.randint(1, 3)
        return "p:%d:%d:%d:%d" % (l, t, rng.choice(DELAYS), rng.choice([0, 0, 1, 2, 3, 4, 7]))
    if k < 0.6:
        return "ct:%d:%d" % (l, rng.randint(1, 3))
    if k < 0.68:
        return "ca:%d" % l
    if k < 0.76:
        return "cf:%d:%d" % (l, rng.choice([0, 1, 2, 3, 4, 7]))
    if k < 0.84:
        return "d:%d" % l
    if k < 0.90:
        return "pp:%d:%d:%d" % (l, rng.randint(1, 3), rng.choice(AMOUNTS))
    if k < 0.93:
        return "pa:%d:%d" % (l, rng.choice(AMOUNTS))
    return "t:%d" % rng.choice(TICKS)


def gen_case(rng, n):
    """mostly-legal history: tracks which listeners exist so that most lines are accepted, with a
    small stream of illegal ones (both sides must answer bad-op)"""
    lines = ["reset %d" % rng.choice([0, 1, 2, 3, 5, 10, 30])]
    alive = set()
    for l in range(1, NL + 1):
        if rng.random() < 0.8:
            alive.add(l)
            lines.append("newl %d" % l)
    for _ in range(rng.randint(0, 5)):
        lines.append("handler %d %d %s" % (rng.randint(1, NL), rng.randint(1, 3),
                                            " ".join(rand_action(rng) for _ in range(rng.randint(0, 3)))))
    for _ in range(n):
        r = rng.random()
        if r < 0.03:
            # illegal / malformed
            lines.append(rng.choice([
                "post %d 1 0 0" % rng.choice([0, NL + 1] + [l for l in range(1, NL + 1) if l not in alive] or [0]),
                "ctype %d 0" % rng.randint(1, NL), "post 1 9 0 0", "post 1 1 0 8", "cflag 1 9", "tick -1", "newl 0",
                "newl %d" % (rng.choice(sorted(alive)) if alive else 7), "destroy %d" % rng.choice([0, 4]),
                "handler 1 4 p:1:1:0:0", "handler 1 1 x:1", "handler 1 1 p:1:1:0", "process 1", "pend 1 0", "frob", "post 1 1 a 0",
                "postpone 1 1 -1", "postpone 1 9 1", "postponeall 0 1", "postponeall 1", "processl 0", "processl 4", "clear 1", "saveload x",
                "handler 1 1 pp:1:1:-2", "handler 1 1 pa:4:1",
                "processl %d" % rng.choice([l for l in range(1, NL + 1) if l not in alive] or [0]),
                "call %d" % rng.choice([l for l in range(1, NL + 1) if l not in alive] or [0])]))
            continue
        if not alive or r < 0.07:
            free = [l for l in range(1, NL + 1) if l not in alive]
            if free:
                l = rng.choice(free)
                alive.add(l)
                lines.append("newl %d" % l)
            continue
        l = rng.choice(sorted(alive))
        if r < 0.42:
            t = rng.choice([0, 4]) if rng.random() < 0.06 else rng.randint(1, 3)
            lines.append("post %d %d %d %d" % (l, t, rng.choice(DELAYS), rng.choice([0, 0, 1, 2, 3, 4, 7])))
        elif r < 0.47:
            t = rng.choice([0, 4]) if rng.random() < 0.05 else rng.randint(1, 3)
            lines.append("postpone %d %d %d" % (l, t, rng.choice(AMOUNTS)))
        elif r < 0.50:
            lines.append("postponeall %d %d" % (l, rng.choice(AMOUNTS)))
        elif r < 0.56:
            lines.append("ctype %d %d" % (l, rng.randint(1, 3)))
        elif r < 0.60:
            lines.append("call %d" % l)
        elif r < 0.66:
            lines.append("cflag %d %d" % (l, rng.choice([0, 1, 2, 3, 4, 7])))
        elif r < 0.70:
            alive.discard(l)
            lines.append("destroy %d" % l)
        elif r < 0.80:
            lines.append("tick %d" % rng.choice(TICKS))
        elif r < 0.87:
            lines.append("process")
        elif r < 0.91:
            lines.append("processl %d" % l)
        elif r < 0.925:
            lines.append("saveload")
        elif r < 0.935:
            lines.append("clear")
        elif r < 0.96:
            lines.append("pend %d %d" % (l, rng.randint(1, 3)))
        else:
            lines.append("handler %d %d %s" % (rng.randint(1, NL), rng.randint(1, 3),
                                                " ".join(rand_action(rng) for _ in range(rng.randint(0, 3)))))
    lines.append("tick 9")
    lines.append("process")
    return lines


FAMILIES = {
    # ordering, ties, negative delays, the three cancels, destroy; no re-entrancy
    "order": (["reset 0", "newl 1", "newl 2"],
              ["post 1 1 0 0", "post 1 2 2 1", "post 2 1 2 0", "post 2 2 -1 2", "post 1 1 1 3", "tick 1", "tick 2",
               "process", "ctype 1 2", "call 2", "cflag 1 2", "destroy 1"]),
    # re-entrant posts (same pass / later), cancel and destroy (self and other) from a response
    "reentrant": (["reset 2", "newl 1", "newl 2", "handler 1 1 p:1:1:0:0 p:2:2:-1:1", "handler 2 2 ca:1 t:1",
                   "handler 1 2 d:1", "handler 2 1 d:1 p:2:1:1:0"],
                  ["post 1 1 0 0", "post 1 2 1 0", "post 2 2 0 1", "post 2 1 1 0", "tick 1", "process", "cflag 2 1", "newl 1"]),
    # ties only: everything lands on two due times; every cancel flavour
    "ties": (["reset 1", "newl 1", "newl 2", "handler 1 2 p:2:1:0:1"],
             ["post 1 1 1 1", "post 2 1 1 2", "post 1 2 0 0", "process", "tick 1", "cflag 2 2", "ctype 1 1"]),
    # postponements: of the root, past the tail, onto a tie, by 0, of the only event, of all; archive; clear
    "postpone": (["reset 0", "newl 1", "newl 2"],
                 ["post 1 1 1 0", "post 2 1 2 0", "post 1 2 2 1", "postpone 1 1 1", "postpone 1 2 0", "postpone 2 1 5",
                  "postponeall 1 1", "postponeall 2 0", "tick 1", "process", "saveload", "clear"]),
    # per-listener passes with re-entrant posts to both listeners, a postponement and a self-destroy from a response
    "perlistener": (["reset 2", "newl 1", "newl 2", "handler 1 1 p:1:2:0:0 p:2:1:0:0", "handler 2 1 pp:1:2:2 ca:1",
                     "handler 1 2 d:1"],
                    ["post 1 1 0 0", "post 2 1 0 1", "post 1 2 1 0", "post 2 2 -1 0", "tick 1", "processl 1", "processl 2",
                     "process", "postponeall 1 1"]),
}


def seeded_family(rng):
    pre = ["reset %d" % rng.choice([1, 2, 3]), "newl 1", "newl 2", "newl 3"]
    for _ in range(3):
        pre.append("handler %d %d %s" % (rng.randint(1, 3), rng.randint(1, 2),
                                          " ".join(rand_action(rng) for _ in range(rng.randint(1, 2)))))
    alpha = ["process", "tick %d" % rng.choice([1, 2])]
    while len(alpha) < 5:
        s = "post %d %d %d %d" % (rng.randint(1, 3), rng.randint(1, 2), rng.choice([-1, 0, 0, 1, 2]), rng.choice([0, 1, 2]))
        if s not in alpha:
            alpha.append(s)
    alpha.append(rng.choice(["ctype %d %d" % (rng.randint(1, 3), rng.randint(1, 2)), "call %d" % rng.randint(1, 3)]))
    alpha.append(rng.choice(["cflag %d %d" % (rng.randint(1, 3), rng.choice([1, 2, 3])), "destroy %d" % rng.randint(1, 3)]))
    alpha.append(rng.choice(["postpone %d %d %d" % (rng.randint(1, 3), rng.randint(1, 2), rng.choice([0, 1, 2, 4])),
                             "postponeall %d %d" % (rng.randint(1, 3), rng.choice([0, 1, 3]))]))
    alpha.append(rng.choice(["processl %d" % rng.randint(1, 3), "saveload", "clear"]))
    return pre, alpha


def exhaustive(pre, alpha, depth):
    """every history of exactly `depth` symbols (every shorter one is a prefix, observed line by line)"""
    for combo in itertools.product(alpha, repeat=depth):
        yield pre + list(combo) + ["tick 5", "process"]


def corpus_cases():
    res = []
    for p in sorted(glob.glob(os.path.join(VERIF, "corpus", "C08", "*.json"))):
        res.append(("corpus:" + os.path.basename(p), json.load(open(p))["lines"]))
    return res


class Diff08(Diff):
    """A difference that is only a representation flag (LINKS-BAD / COUNT-MISMATCH) is first turned
    into a behavioural one by searching continuations of the shrunk history on the real code."""
    mode = "any"

    def differs(self, lines):
        impl, crash, info, model = self.both(lines)
        if crash is not None:
            return True
        if self.mode == "behav":
            return common.first_diff(strip_struct(impl), strip_struct(model)) is not None
        return common.first_diff(impl, model) is not None

    def behavioural(self, lines):
        impl, crash, info, model = self.both(lines)
        return crash is not None or common.first_diff(strip_struct(impl), strip_struct(model)) is not None

    def continuations(self, lines):
        alive = set()
        for l in lines:
            t = l.split()
            if len(t) == 2 and t[0] == "newl" and t[1].isdigit():
                alive.add(int(t[1]))
            if len(t) == 2 and t[0] == "destroy" and t[1].isdigit():
                alive.discard(int(t[1]))
        pre = []
        if not alive:
            pre, alive = ["newl 1"], {1}
        ls = sorted(alive)[:2]
        alpha = ["process", "tick 1", "tick 3"]
        for l in ls:
            alpha += ["post %d 1 %d 0" % (l, d) for d in (-3, -1, 0, 1, 2, 4, 7)] + ["call %d" % l, "postponeall %d 1" % l,
                                                                                      "processl %d" % l]
        for n in (1, 2, 3):
            for combo in itertools.product(alpha, repeat=n):
                yield pre + list(combo) + ["tick 9", "process"]

    def report(self, name, case):
        self.mode = "any"
        if self.behavioural(case):
            self.mode = "behav"
            return Diff.report(self, name, case)
        # representation flag only: shrink, then look for a continuation that breaks a clause of C08
        head, body = case[:1], case[1:]
        saved, self.base_timeout = self.base_timeout, 4
        try:
            small = head + common.ddmin(body, lambda b: self.differs(head + b)) if len(body) > 1 else case
            found = None
            tried = 0
            for cont in self.continuations(small):
                tried += 1
                if tried > 6000:
                    break
                if self.behavioural(small + cont):
                    found = small + cont
                    break
        finally:
            self.base_timeout = saved
        self.ctx.stats["continuations_tried"] = self.ctx.stats.get("continuations_tried", 0) + tried
        if found:
            self.mode = "behav"
            return Diff.report(self, name + "+continuation", found)
        self.mode = "any"
        return Diff.report(self, name, small)


def build(ctx):
    return common.build_full(ctx, "h_eventqueue", ["eventqueue.cpp"])


def run_stream(d, name, gen, chunk=4000):
    bad, batch, i = 0, [], 0
    for c in gen:
        batch.append(("%s:%d" % (name, i), c))
        i += 1
        if len(batch) == chunk:
            bad += d.run_batch(batch)
            batch = []
    bad += d.run_batch(batch)
    return bad, i


def source_fidelity(ctx, exe, cases):
    """The model in the configuration read from the source text (`reset B src`) against the real code: equal line
    by line up to the first `ub` of the model (from there on the real code may do anything, usually it crashes),
    and no crash where the model has no `ub`."""
    bad, ubs, crashes = [], 0, 0
    for name, c in cases:
        src = [c[0] + " src"] + c[1:]
        impl, crash, info = common.run_lines(exe, [], c, timeout=20)
        impl = strip_struct(impl)      # the model does not print the harness's LINKS-BAD / COUNT-MISMATCH flags
        model = common.run_model(AREA, src)
        cut = model.index("ub") if "ub" in model else None
        if cut is None:
            if crash is not None or impl != model:
                bad.append((name, c, "no ub in the model but %s" % (crash or "outputs differ")))
        else:
            ubs += 1
            crashes += 1 if crash is not None else 0
            if impl[:cut] != model[:cut]:
                bad.append((name, c, "outputs differ before the model's ub at line %d" % cut))
    ctx.stats["source_fidelity"] = {"cases": len(cases), "model_ub": ubs, "of_which_real_code_crashed": crashes,
                                    "mismatch": len(bad)}
    return bad


def check(ctx):
    prop = Prop()
    # which configuration of the model is the source text?  (regenerates Gen/EventQueueCfg.lean)
    cfg, problems = eqgen.regenerate(ctx)
    repaired = cfg["postponeRelinks"] and cfg["loadSetsEvent"] and not problems
    common.proof_side(ctx, PROPS_MODULE, PROPS_FILE)
    if ctx.tier == "thorough":
        common.leanchecker(ctx, PROPS_MODULE)
    exe = build(ctx)
    quick = ctx.tier == "quick"
    # the histories on which Lean proves that the original configuration breaks the property, on the real code
    dw = Diff08(ctx, prop, exe, AREA)
    dw.max_reports = len(WITNESSES)
    wbad = 0
    for w in WITNESSES:
        wbad += dw.run_batch([w])
    ctx.oblige("source text is the repaired configuration of the model (the theorems of Props/C08.lean are about it): "
               "Postpone… re-links by Add/AddFirst/Insert, Archive(loading) assigns node->event", repaired,
               "read from the source: %s%s; %d of the %d witness histories of the C08_original_* theorems fail on the real code"
               % (cfg, (" (" + "; ".join(problems) + ")") if problems else "", wbad, len(WITNESSES)),
               reported=bool(ctx.violations))
    d = Diff08(ctx, prop, exe, AREA)
    bad = wbad + d.run_batch(corpus_cases())
    # the oracle used for classification must itself agree with the proved model on what is generated:
    # checked on every random case below (a disagreement is a machinery error, not a verdict)
    rng = ctx.rng("random")
    ncases = 400 if quick else 5000
    rcases = [("random:%d" % i, gen_case(rng, rng.choice([6, 20, 60, 200]))) for i in range(ncases)]
    oracle_bad = 0
    for _, c in rcases[: (200 if quick else 1000)]:
        if oracle_lines(c)[0] != common.run_model(AREA, c):
            oracle_bad += 1
    ctx.oblige("python trace monitor == proved model on sampled histories", oracle_bad == 0, "%d differ" % oracle_bad)
    if not repaired and not problems:
        # the model of the code as it is (original configuration) against the code as it is
        frng = ctx.rng("fidelity")
        fcases = list(WITNESSES) + [("fidelity:%d" % i, gen_case(frng, frng.choice([6, 12, 30]))) for i in range(60 if quick else 400)]
        fb = source_fidelity(ctx, exe, fcases)
        ctx.oblige("model in the source configuration (reset B src) == real code up to the model's first ub, on %d histories" % len(fcases),
                   not fb, "; ".join("%s: %s" % (n, w) for n, _, w in fb[:3]))
    for i in range(0, len(rcases), 250):
        bad += d.run_batch(rcases[i:i + 250])
    exh = {}
    plan = [("order", 4 if quick else 5), ("reentrant", 5 if quick else 6), ("ties", 5 if quick else 6),
            ("postpone", 4 if quick else 5), ("perlistener", 4 if quick else 5)]
    for name, depth in plan:
        pre, alpha = FAMILIES[name]
        b, n = run_stream(d, "exh-%s" % name, exhaustive(pre, alpha, depth))
        bad += b
        exh[name] = {"depth": depth, "alphabet": len(alpha), "histories": n}
    frng = ctx.rng("family")
    for k in range(1 if quick else 3):
        pre, alpha = seeded_family(frng)
        depth = 4 if quick else 5
        b, n = run_stream(d, "exh-seeded%d" % k, exhaustive(pre, alpha, depth))
        bad += b
        exh["seeded%d" % k] = {"depth": depth, "alphabet": len(alpha), "histories": n, "preamble": pre, "symbols": alpha}
    ctx.stats["exhaustive"] = exh
    ctx.oblige("correspondence harness/eventqueue.cpp == EventQueue model (repaired configuration) on %d histories" % (d.cases + dw.cases), bad == 0,
               "%d differing cases" % bad, reported=True)
    ctx.samples = [gen_case(ctx.rng("sample"), 10)]
    cov = {
        "evaluations": d.cases, "distinct_nontrivial": len(d.distinct),
        "rule": "histories over %d listeners / event types 0..%d (1..3 have responses) / delays %s / flags 0..7 with re-entrant handler tables: "
                "seeded random (lengths 6..200, 3%% illegal lines) plus every history of the stated depth over fixed and seeded alphabets; "
                "non-trivial = at least one accepted operation with an observation; distinct by SHA-1 of the op lines" % (NL, NT, sorted(set(DELAYS))),
        "op_lines": d.lines, "op_histogram": d.hist, "model_answer_kinds": d.outkinds,
        "exhaustive": False, "skipped_after_failures": d.skipped,
    }
    return common.finish(ctx, "proof", cov, TRUSTED, ASSUME,
                         "cd lean && lake build && lake env lean <Audit.lean with #print axioms>; tools/check.py C08")


def replay(ctx, obj):
    common.lake_build()
    exe = build(ctx)
    d = Diff(ctx, Prop(), exe, AREA)
    impl, crash, info, model = d.both(obj["lines"])
    want, _ = oracle_lines(obj["lines"])
    for i, l in enumerate(obj["lines"]):
        print("> %s\n  impl : %s\n  model: %s\n  spec : %s" % (l, impl[i] if i < len(impl) else "<missing>",
                                                          model[i] if i < len(model) else "<missing>", want[i]))
    if crash:
        print("CRASH", crash)
        print(info)
    bad = crash is not None or common.first_diff(impl, model) is not None
    if bad:
        print("classification:", Prop().classify(obj["lines"], impl, crash, model)[1])
    print("replay:", "still differs" if bad else "no difference")
    return 1 if bad else 0
