"""C09 — save, reset, load resumes scripts exactly where an uninterrupted run would be (DESIGN.md 7.5)."""
import os

from vlib import common, schedcheck, schedgen
from vlib.common import Diff, LEAN

PROPS_MODULE = "MorfuseModel.Props.C09"
PROPS_FILE = os.path.join(LEAN, "MorfuseModel", "Props", "C09.lean")

PROP = schedcheck.SchedProp(
    relevant={"out", "idle", "_status", "cls", "thr", "vm", "tim", "cur"},
    what="after save/reset/load the engine does not continue like the machine that restored exactly the archived components")

TRUSTED = [
    "Lean 4.33.0 kernel; axioms propext / Classical.choice / Quot.sound only (audited on every run)",
    "hand-written lean/MorfuseModel/Sched/{Machine,Snapshot}.lean (which components ScriptMaster::Archive keeps), tied by (a) machine vs engine with save;load inserted, (b) engine vs engine with and without save;load at EVERY frame boundary",
    "byte-level archive format and value round trips are property C10's model; harness/engine.cpp serves script sources back through IFileManagement on load",
    "renderer tools/vlib/schedgen.py; hook H1; g++/ASan/UBSan",
]
ASSUME = [
    "threads are started without a host Event (ExecuteThread(script, label)): a host Event awaiting a result is not archived by the engine and the result then stays pending (modelled: C09_host_result_link_dropped)",
    "threads wait on timers and on each other; waits on host-owned objects are outside (the director archive does not contain the host's objects); posted events are not archived (engine limitation stated in DESIGN.md 7.5)",
    "float values are compared only between two runs of the same binary (A/B), never with the model",
]


def model_case(rng):
    return schedgen.gen_c09_case(rng)[0]


RESET_LOAD = ("save", "reset-director", "load")


def ab_check(ctx, exe, name, base, describe, insert=("save", "load")):
    """engine with `save; load` (or `save; reset-director; load`: an explicit director.Reset() of the host
    between the two, the archive read brings the program back by name) at every boundary k must answer
    like the uninterrupted run"""
    n = len(insert)
    A, crashA, infoA = common.run_lines(exe, [], base, timeout=30)
    runs = 1
    if not crashA and (len(A) < 3 or not A[1].startswith("ok") or not A[2].startswith("ok")):
        return runs, ("generator", "generated program does not compile / start: " + " | ".join(A[1:3]), base, A, [], "generator-invalid-program", "")
    if crashA:
        return runs, ("crash", "uninterrupted run crashed: " + crashA, base, A, [], crashA, infoA)
    for k in range(3, len(base)):
        lines = base[:k] + list(insert) + base[k:]
        B, crashB, infoB = common.run_lines(exe, [], lines, timeout=30)
        runs += 1
        Bc = B[:k] + B[k + n:] if len(B) >= k + n else B
        if crashB or Bc != A:
            j = common.first_diff(A, Bc)
            why = ("%s before line %d (`%s`): " % (";".join(insert), k, base[k][:40])) + (
                "crash " + crashB if crashB else "line %d `%s` uninterrupted `%s` vs after load `%s`" % (
                    j, base[j][:40] if j is not None and j < len(base) else "?", A[j] if j is not None and j < len(A) else None,
                    Bc[j] if j is not None and j < len(Bc) else None))
            return runs, ("ab", why, lines, B, A, crashB, infoB if crashB else "")
    return runs, None


def many_waiters_cases():
    """N threads parked on the same (level, name) list while saving: crosses the container's growth
    steps (fix-ups recorded against list elements must survive the reload)"""
    cases = []
    for n in (2, 10, 11, 12, 23):
        prog = [[("mark", 1)] + [("thread", 1)] * n + [("wait", 250), ("mark", 2), ("notify", 50, 1), ("wait", 125), ("mark", 3)],
                [("waittill", 50, [1]), ("mark", 10), ("wait", 125), ("mark", 11)]]
        base = ["reset", schedgen.script_line(prog), "callv m t0", "step 125", "step 125", "step 125", "step 125", "step 1000"]
        for k in range(3, len(base)):
            cases.append(("waiters%d@%d" % (n, k), base[:k] + ["save", "load"] + base[k:]))
    return cases


def explicit_reset_cases():
    """`save; reset-director; script <same program>; load` at every boundary, machine vs engine: the composition of
    C09_save_reset_load_roundtrip with an explicit director.Reset() of the host and a recompilation before the load
    (`save; reset-director; load` without recompiling is compared engine vs engine only: the machine's `load`
    takes the program from the present context, the engine reads it back by name)"""
    cases = []
    progs = [[[("thread", 1), ("wait", 250), ("mark", 1)], [("wait", 500), ("mark", 2)]],
             [[("mark", 1), ("thread", 1), ("thread", 1), ("wait", 250), ("mark", 2), ("notify", 50, 1), ("wait", 125), ("mark", 3)],
              [("waittill", 50, [1]), ("mark", 10), ("wait", 125), ("mark", 11)]]]
    for pi, prog in enumerate(progs):
        sl = schedgen.script_line(prog)
        base = ["reset", sl, "callv m t0", "step 125", "step 125", "step 125", "step 125", "callv m t0", "step 1000"]
        for k in range(3, len(base)):
            cases.append(("xreset%d@%d" % (pi, k), base[:k] + ["save", "reset-director", sl, "load"] + base[k:]))
    return cases


def check(ctx):
    common.proof_side(ctx, PROPS_MODULE, PROPS_FILE)
    if ctx.tier == "thorough":
        common.leanchecker(ctx, PROPS_MODULE)
    quick = ctx.tier == "quick"
    exe = schedcheck.build_engine(ctx)
    # (a) machine vs engine
    d = Diff(ctx, PROP, exe, "sched")
    bad = d.run_batch(schedcheck.corpus_cases("C09"))
    bad += d.run_batch(many_waiters_cases())
    xr = explicit_reset_cases()
    bad += d.run_batch(xr)
    ctx.stats["explicit_reset_recompile_cases"] = len(xr)
    rng = ctx.rng("model")
    batch = []
    for i in range(300 if quick else 20000):
        batch.append(("c09:%d" % i, model_case(rng)))
        if len(batch) == 100:
            bad += d.run_batch(batch); batch = []
    bad += d.run_batch(batch)
    # threads suspended in the middle of an expression (operands on the VM stack) at the save point, the
    # callee's result printed: a fixed family with save;load at EVERY boundary, then random programs
    expr_cases = schedgen.c09_expr_model_cases(quick)
    for i in range(0, len(expr_cases), 100):
        bad += d.run_batch(expr_cases[i:i + 100])
    ctx.stats["expr_family_cases"] = len(expr_cases)
    rng = ctx.rng("model-expr")
    batch = []
    for i in range(200 if quick else 10000):
        batch.append(("c09x:%d" % i, schedgen.gen_c09_case(rng, prog=schedgen.gen_c09_expr_prog(rng))[0]))
        if len(batch) == 100:
            bad += d.run_batch(batch); batch = []
    bad += d.run_batch(batch)
    ctx.oblige("correspondence harness/engine.cpp == Sched.Machine with save;load on %d cases" % d.cases,
               bad == 0 and d.failing_cases == 0, "%d differing" % max(bad, d.failing_cases), reported=True)
    # (b) engine A/B at every boundary
    rng = ctx.rng("ab")
    rngx = ctx.rng("ab-expr")
    runs = cases = fails = rcases = 0
    fixed = schedgen.c09_expr_ab_cases(quick)
    nrand = 25 if quick else 1500
    nexpr = 8 if quick else 500
    for i in range(-len(fixed), nrand + nexpr):
        if i < 0:
            desc, base = fixed[i + len(fixed)]       # deterministic: suspended mid-expression, results visible
        elif i >= nrand:
            _, base, _ = schedgen.gen_c09_case(rngx, prog=schedgen.gen_c09_expr_prog(rngx))
            desc = base[1].split("## ", 1)[-1]
        elif i % 2 == 0:
            base, src = schedgen.gen_vars_case(rng)
            desc = src
        else:
            _, base, _ = schedgen.gen_c09_case(rng)
            desc = base[1].split("## ", 1)[-1]
        r, res = ab_check(ctx, exe, "ab:%d" % i, base, desc)
        runs += r; cases += 1
        if res is None and (i < 0 or i % 3 == 0):
            # the same program with an explicit director.Reset() of the host between save and load
            r, res = ab_check(ctx, exe, "abr:%d" % i, base, desc, insert=RESET_LOAD)
            runs += r; rcases += 1
        if res and fails < 3:
            fails += 1
            kind, why, lines, out, ref, crash, info = res
            sig = crash if crash else "ab-diff"
            replay = common.save_replay(ctx, {"property": "C09", "kind": "engine-A/B", "why": why, "lines": lines,
                                              "with_save_load": out, "uninterrupted": ref, "crash": crash, "crash_info": info,
                                              "script": desc, "signature": sig, "inserted": lines.index("load") - lines.index("save") + 1,
                                              "how_to_replay": "python3 tools/check.py C09 --replay <this file>"})
            ctx.violations.append({"signature": sig, "replay": replay, "why": why, "found_input": True})
    ctx.stats["ab_explicit_reset_programs"] = rcases
    ctx.oblige("engine with save;load (and, for %d programs, save;reset-director;load) at every boundary == uninterrupted engine (%d programs, %d runs)" % (rcases, cases, runs),
               fails == 0, "%d programs differ" % fails, reported=True)
    sample = model_case(ctx.rng("sample"))
    ctx.samples = [[l if not l.startswith("script ") else "script m <hex> ## " + l.split("## ", 1)[1] for l in sample],
                   schedgen.gen_vars_case(ctx.rng("sample2"))[1].split("\n")[:25]]
    cov = {"evaluations": d.cases + runs, "distinct_nontrivial": len(d.distinct) + cases,
           "rule": "(a) multi-thread programs (timed waits, thread, waitthread, pause) started without host Event, random frame schedules, one save;load inserted at a random boundary, compared with the machine executing load(save s); a fixed family and random programs whose callers are suspended in the MIDDLE OF AN EXPRESSION at the save point (`100 + (waitthread l)`, `local.r = waitthread l`, array element, level variable, nested and concurrent callers; the callee sleeps across the save; the result is printed as a marker), the fixed family with save;load at EVERY boundary; (b) the same programs, free-text scripts using pending results as call arguments / in string, array, vector, comparison expressions / in if, while, switch heads, free-text scripts whose threads sleep (wait, waitthread, waittill, inside a catch handler) within try blocks while watchdog threads `throw` / `delaythrow` catch labels into them at several delays (so that for some save points the throw reaches a restored thread before it has run again), and programs holding locals of every archivable kind (ints incl. >2^32, strings, float, NIL, vector, char, arrays, nested arrays, shared arrays, const arrays, listener reference, group variable) mutated and printed after waits: engine with save;load at EVERY boundary vs uninterrupted engine; non-trivial = program prints after the save point; distinct by SHA-1",
           "ab_programs": cases, "ab_runs": runs, "op_histogram": d.hist, "exhaustive": False, "skipped_after_failures": d.skipped}
    return common.finish(ctx, "proof", cov, TRUSTED, ASSUME,
                         "cd lean && lake build && #print axioms audit; python3 tools/check.py C09")


def replay(ctx, obj):
    if obj.get("kind") == "engine-A/B":
        exe = schedcheck.build_engine(ctx)
        lines = obj["lines"]
        k = lines.index("save")
        n = obj.get("inserted", 2)
        base = lines[:k] + lines[k + n:]
        A, ca, _ = common.run_lines(exe, [], base)
        B, cb, info = common.run_lines(exe, [], lines)
        Bc = B[:k] + B[k + n:] if len(B) >= k + n else B
        for j, l in enumerate(base):
            a = A[j] if j < len(A) else None
            b = Bc[j] if j < len(Bc) else None
            print(("  " if a == b else "! ") + l[:50]); print("     A:", a); print("     B:", b)
        bad = bool(ca or cb or A != Bc)
        if cb: print(info)
        print("replay:", "still differs" if bad else "no difference")
        return 1 if bad else 0
    return schedcheck.replay(ctx, PROP, obj)
