"""C10 — archives round-trip values and object graphs faithfully (DESIGN.md 7.6)."""
import glob
import json
import os

from vlib import common, archgen
from vlib.common import Diff, VERIF, LEAN

AREA = archgen.AREA
PROPS_MODULE = "MorfuseModel.Props.C10"
PROPS_FILE = os.path.join(LEAN, "MorfuseModel", "Props", "C10.lean")

TRUSTED = [
    "Lean 4.33.0 kernel (lake build; leanchecker in the thorough tier)",
    "axioms allowed: propext, Classical.choice, Quot.sound (audited by #print axioms on every run)",
    "hand-written model lean/MorfuseModel/Archive/Model.lean (+ Value.lean) of src/Script/Archiver.cpp, "
    "Archive(Archiver&, str&) and ScriptVariable::ArchiveInternal, tied by the differential run "
    "(harness/archive.cpp on the real Archiver vs `driver archive`): archive bytes and read-back compared exactly",
    "translator tools/vlib/archgen.py (regexes over Archiver.cpp / StringDictionary.cpp -> Gen/ArchiveTable.lean: tag enum, "
    "constants, Archive* call -> tag/width table, the reader switches, the two copies of the object size bracket, the "
    "dictionary call of the load side)",
    "hand-written models lean/MorfuseModel/Archive/Dict.lean (StringDictionary Add/Get as first-occurrence interning; the hash "
    "table behind it is C17's) and Archive/Tables.lean (Container_archive.h, set_archive.h, Listener::Archive), tied by the "
    "same differential run: archives are read back in a NEW ScriptContext; Listener tables in a two-pass run (the order of "
    "the writer's table walk is taken from the real table, the model must reproduce bytes and read-back from it)",
    "g++ 12 / libstdc++ stream semantics, little-endian 64-bit target (sizeof(size_t) = sizeof(streamsize) = 8, unsigned = 4)",
]
ASSUME = [
    "the reading host issues the same sequence of calls with corresponding objects (schemaOf w), into zero-initialised variables",
    "every non-null pointer target is registered in the sequence by ArchiveObject or ArchiveObjectPosition "
    "(a pointer to an object that is never archived reads back null: generated with small probability, compared "
    "against the model but outside the round-trip statement)",
    "fewer than 2^32 - 654322 registered objects (an index then never equals ARCHIVE_NULL_POINTER)",
    "classes have single inheritance from AbstractClass (the table compares void* values)",
    "floats are 32/64-bit patterns; the bytes of a string may be anything including NUL",
    "constant strings are NUL-free texts; an object record read with the polymorphic ReadObject() names a class whose "
    "Archive() the reading host scripts (the harness's VNode/VNodf) or Listener",
    "Listener tables: notify / wait-for / end lists (con::set<const_str, ConList>); ScriptVariableList (vars) and the "
    "Array / Pointer / Container kinds of ScriptVariable are not modelled",
]


KEYKIND = {"l": "listener-key", "i": "integer-key", "s": "string-key", "k": "const-string-key"}


class Prop:
    # known finding G2: a listener key of a table with more than one bucket is not found after the load.  The stage that
    # exercises the model's prediction of it (`lkey_stage`) tolerates exactly that; everywhere else, and for every other
    # kind of key, a lost entry is a violation
    tolerate_listener_key_loss = False

    _last_arc = None

    def monitor(self, line, out):
        """trace monitor on one implementation answer: a well-formed write sequence must read back as written -
        right after it was written (`arc`: a fresh context) and when it is loaded into a session that has loaded other
        archives and was reset in between (`sload`).  Returns None or (why, signature)."""
        if line.startswith("classes"):
            self._last_arc = None
            return None
        if line == "sload":
            if self._last_arc is None or not (out == "ok" or out.startswith("ok ") or out.startswith("err")):
                return None
            line, out = self._last_arc, "- | " + out
        elif not line.startswith("arc ") or " | " not in out:
            return None
        else:
            self._last_arc = line
        written = archgen.parse_items(line.split(" ")[4:])
        if not archgen.well_formed(written):
            return None
        rb = out.split(" | ", 1)[1]
        t = rb.split(" ")
        lost = sorted(set(KEYKIND.get(x[5:], x[5:]) for x in t if x.startswith("lost:")))
        if lost and not (self.tolerate_listener_key_loss and lost == ["listener-key"]):
            return ("an entry of a loaded hash array is not found when its own key is looked up (%s)" % ", ".join(lost),
                    "roundtrip:lost-key:" + "+".join(lost))
        rb = " ".join(x[5:] if x.startswith("lost:") else x for x in t)
        if not rb.startswith("ok ") and not (rb == "ok" and not written):
            return "read-back of an intact archive failed: " + rb[:200], "roundtrip:failed-read"
        if "?missing" in rb:
            return ("a variable of a loaded ScriptVariableList is not found under its name in the loading dictionary",
                    "roundtrip:variable-name-lost")
        try:
            got = archgen.parse_items([x for x in rb.split(" ")[1:] if x], selfs=False)
        except (ValueError, IndexError) as e:
            return "read-back of an intact archive cannot be parsed (%s): %s" % (e, rb[:200]), "roundtrip:unparsable"
        want = archgen.strip_selfs(written)
        if got != want:
            what = first_value_diff(want, got)
            return "read-back differs from what was written (%s)" % what, "roundtrip:" + what
        return None

    def classify(self, lines, impl, crash, model):
        if crash:
            return "violation", "implementation crashed / sanitizer report: " + crash, crash
        for k, l in enumerate(lines):
            if k < len(impl):
                m = self.monitor(l, impl[k])
                if m:
                    return "violation", "line %d `%s…`: %s" % (k, l[:120], m[0]), m[1]
        i = common.first_diff(impl, model)
        a = impl[i] if i is not None and i < len(impl) else "<missing>"
        b = model[i] if i is not None and i < len(model) else "<missing>"
        line = lines[i] if i is not None and i < len(lines) else "?"
        why = "line %s `%s…`: implementation `%s…`, proved model `%s…`" % (i, line[:120], a[:160], b[:160])
        return "diff", why, "diff:bytes" if line.startswith("arc ") else "diff:other"


def first_value_diff(want, got):
    """which kind of item came back different (the signature of a round-trip failure)"""
    def walk(a, b):
        if isinstance(a, list):
            if not isinstance(b, list) or len(a) != len(b):
                return "different-length"
            for x, y in zip(a, b):
                r = walk(x, y)
                if r:
                    return r
            return None
        if a == b:
            return None
        if a[0] != b[0]:
            return "different-kind:%s->%s" % (a[0], b[0])
        if a[0] == "v":
            return walk(a[2], b[2]) or "value"
        if a[0] == "ca":
            if a[1:3] != b[1:3]:
                return "const-array-header"
            return walk([e for _, e in a[3]], [e for _, e in b[3]]) or "const-array"
        if a[0] in archgen.OBJ:
            return walk(a[3], b[3]) or "object"
        if a[0] == "s" and a[1] == b"" :
            return "empty-string-value:%s" % b[1].hex()
        return "value:" + a[0]
    return walk(want, got) or "unknown"


def corpus_cases(reg):
    res = []
    for p in sorted(glob.glob(os.path.join(VERIF, "corpus", "C10", "*.json"))):
        lines = json.load(open(p))["lines"]
        res.append(("corpus:" + os.path.basename(p), [reg] + [l for l in lines if not l.startswith("classes")]))
    return res


def fixed_cases(reg):
    """the shape of /repo/tests/archive.cpp and a few hand-written corner cases"""
    L = b"Listener"
    li = lambda l: ("obj", l, L, [("p", "u8", 0)])
    t1 = [("p", "u8", 1), ("p", "u16", 2), ("p", "u32", 3), ("s", b"Test string"), li(1), ("sp", 1), ("op", 1),
          ("sp", 1), ("sp", 1), ("op", 1), ("op", 1), ("sp", 2), ("op", 2), ("sp", 2), li(2), ("sp", 2), ("op", 2),
          ("op", 2), li(3), ("op", 3)] + [li(10 + i) for i in range(40)]
    t2 = [("obj", 1, b"VNode", [("op", 1), ("sp", 1), ("obj", 2, b"VNodf", [("op", 1), ("op", 3)]), ("sp", 3)]),
          ("pos", 3), ("op", 0), ("sp", 0), ("s", b""), ("s", b"\x00"), ("r", b""), ("p", "bool", 1)]
    t3 = []
    # the three ways to read an object record back; constant strings that the loading dictionary has never seen,
    # one it has (a predefined string), the same text twice
    t4 = [("sp", 2), ("objp", 1, b"VNode", [("op", 1), ("objt", 2, b"VNodf", [("op", 1), ("sp", 3)]), ("p", "u32", 7)]),
          ("objp", 3, L, [("p", "u8", 0)]), ("objt", 4, L, [("p", "u8", 0)]), ("op", 4), ("sp", 3),
          ("v", 100001, ("k", b"c10 never seen before")), ("v", 100002, ("k", b"self")),
          ("v", 100003, ("ca", 100004, 0, [(100005, ("k", b"c10 never seen before")), (100006, ("k", b"x"))]))]
    cases = []
    # every kind of ArchiveInternal: Ref backward / forward / to itself / to a const-array element / null, a pointer cell
    # shared by three variables, Container / SafeContainer, a hash array (shared by a later variable) with integer, string
    # and constant-string keys, a listener-keyed array
    A = lambda h, rc, es: ("arr", h, rc, 0, 0, 0, [], es)
    t5 = [li(1), ("v", 100001, ("i", 9)), ("v", 100002, ("ref", 100001)), ("v", 100003, ("ref", 100004)),
          ("v", 100004, ("ref", 100004)), ("v", 100005, ("ca", 100006, 1, [(100007, ("s", b"x")), (100008, ("ref", 100007))])),
          ("v", 100009, ("ref", 100007)), ("v", 100010, ("ref", 0)), ("v", 100011, ("ptr", 100012, [100011, 100013, 100014])),
          ("v", 100013, ("pref", 100012)), ("v", 100014, ("pref", 100012)), ("v", 100015, ("con", 1)), ("v", 100016, ("scon", 1)),
          ("v", 100017, A(100018, 1, [(100019, ("i", 5), 100020, ("s", b"five")), (100021, ("s", b"key"), 100022, ("ref", 100001)),
                            (100023, ("k", b"ckey"), 100024, ("l", 1)), (100025, ("i", 2 ** 64 - 1), 100026, ("k", b"self")),
                            (100027, ("i", 12), 100028, ("car", 100006)), (100029, ("s", b""), 100030, ("n",))])),
          ("v", 100031, ("aref", 100018)), ("v", 100032, A(100033, 0, [(100034, ("l", 1), 100035, ("i", 1))])),
          ("v", 100036, A(100037, 0, []))]
    # named variables (ScriptVariable::Archive) and a ScriptVariableList: names that the loading dictionary has never seen,
    # a predefined one, a Ref to a variable of the list, an unnamed variable
    t6 = [("v", 100001, ("i", 7)), ("nv", 100002, b"c10 never seen name", ("ref", 100001)), ("nv", 100003, None, ("s", b"x")),
          ("vl", 0, 0, 0, [], [(100004, b"alpha", ("i", 1)), (100005, b"beta", ("s", b"z")), (100006, b"gamma", ("ref", 100004)),
                               (100007, b"self", ("k", b"k")), (100008, b"delta", ("l", 0))]),
          ("vl", 0, 0, 0, [], []), ("vl", 0, 0, 0, [], [(100009, b"only", ("n",))])]
    cases = []
    for i, t in enumerate([t1, t2, t3, t4, t5, t6]):
        cases.append(("fixed:%d" % i, (1, b"TEST", b"Morfuse test archive"), t))
    return cases


# --------------------------------------------------------------------------------------------
# Listener::Archive with its own tables (con::set<const_str, ConList>, Container<SafePtr<Listener>>)
#
# The order in which the writer walks a hash table is a fact of the real table, so this stage is two-pass: the harness
# builds the listener from a list of insertions, prints the archive, the tables as the writer walks them and the tables
# read back in a fresh script context; the model is then given the written view and must produce the same bytes
# (listenerCalls / encode) and, with its data-directed reader (readListener), the same tables.

def gen_lis(rng):
    n = rng.choice([0, 1, 2, 3, 6, 12])
    k = rng.randint(0, n)
    nins = rng.choice([0, 1, 2, 3, 5, 8, 13, 21, 40])
    keys = [bytes(rng.choice(archgen.TEXT) for _ in range(rng.randint(1, 10))) for _ in range(rng.choice([1, 2, 3, 6, 12, 30]))]
    keys += [b"delete", b"remove", b"self"][:rng.randint(0, 3)]          # predefined strings of every dictionary
    toks = ["lis", str(k), str(n)]
    for _ in range(nins):
        toks += [rng.choice("nnwe"), rng.choice(keys).hex(), str(rng.randint(0, n) if rng.random() < 0.9 else 0)]
    return " ".join(toks)


def norm_view(v):
    """a view with the entries of every table sorted by key (the read-back order is the reader's own)"""
    out = []
    for tab in v.split(" ; "):
        t = tab.split(" ")
        if t == ["-"]:
            out.append(None)
            continue
        hdr, es, i = tuple(int(x) for x in t[:4]), [], 4
        while i < len(t):
            c = int(t[i + 1])
            es.append((t[i], tuple(int(x) for x in t[i + 2:i + 2 + c])))
            i += 2 + c
        out.append((hdr, sorted(es)))
    return out


def tables_judge(spec, impl, model):
    """None | (verdict, signature, why)"""
    if impl.count(" | ") != 2:
        return "violation", "tables:impl:" + impl[:40], "harness answer: " + impl[:200]
    hx, wv, rb = impl.split(" | ")
    if rb.startswith("err"):
        return "violation", "tables:failed-read", "read-back of an intact Listener archive failed: " + rb
    if norm_view(rb) != norm_view(wv):
        return "violation", "tables:roundtrip", "tables read back differ from the tables written: `%s` vs `%s`" % (rb[:200], wv[:200])
    if model is None:
        return None
    if " | " not in model:
        return "diff", "diff:tables:model", "model answer: " + model[:200]
    mh, mr = model.split(" | ")
    if mh != hx:
        return "diff", "diff:tables:bytes", "archive bytes differ from the model's encoding of the written tables"
    if norm_view(mr) != norm_view(rb):
        return "diff", "diff:tables:readback", "implementation `%s`, proved model `%s`" % (rb[:200], mr[:200])
    return None


def tables_run(ctx, exe, reg, specs):
    """-> list of (spec, verdict tuple or None), stats"""
    out, crash, info = archgen.run_impl(exe, [reg] + specs, timeout=300)
    res = []
    if crash is not None:
        i = max(len(out) - 1, 0)
        res.append((specs[min(i, len(specs) - 1)], ("violation", crash, "implementation crashed / sanitizer report: " + crash)))
        return res
    impl = out[1:]
    mlines = []
    for sp, a in zip(specs, impl):
        t = sp.split(" ")
        mlines.append("lisv %s %s %s" % (t[1], t[2], a.split(" | ")[1]) if a.count(" | ") == 2 else "lisv bad")
    model = archgen.run_model(mlines)
    for i, sp in enumerate(specs):
        res.append((sp, tables_judge(sp, impl[i] if i < len(impl) else "<missing>", model[i] if i < len(model) else "<missing>")))
    return res


def tables_stage(ctx, exe, reg):
    rng = ctx.rng("tables")
    n = 200 if ctx.tier == "quick" else 6000
    fixed = ["lis 0 0", "lis 1 1 n 78 1", "lis 1 3 n 666f6f 1 n 666f6f 2 n 626172 3 w 7a 0 e 64656c657465 3 n 6161 2 n 6262 1 n 6363 1"]
    specs = fixed + [gen_lis(rng) for _ in range(n)]
    bad, seen, hist = 0, set(), {"entries": 0, "tables": 0, "pointers": 0, "max_tableLength": 0}
    for i in range(0, len(specs), 200):
        for sp, j in tables_run(ctx, exe, reg, specs[i:i + 200]):
            if j is None:
                continue
            bad += 1
            if j[1] in seen:
                continue
            seen.add(j[1])
            replay = common.save_replay(ctx, {
                "property": "C10", "kind": "correspondence", "area": AREA, "lines": [sp], "verdict": j[0], "why": j[2],
                "signature": j[1], "how_to_replay": "python3 tools/check.py C10 --replay <this file>"})
            ctx.violations.append({"signature": j[1], "replay": replay, "why": j[2], "found_input": j[0] == "violation"})
    for sp in specs:
        t = sp.split(" ")[3:]
        hist["pointers"] += len(t) // 3
    ctx.oblige("Listener::Archive with tables: bytes and tables read back in a fresh context, real code == Tables model, "
               "and read back == written (%d listeners)" % len(specs), bad == 0, "%d failing" % bad, reported=True)
    return {"listeners": len(specs), "insertions": hist["pointers"]}


# --------------------------------------------------------------------------------------------
# hash arrays with listener keys in tables of more than one bucket (known finding G2)

def gen_lkey(rng):
    """an archive with 1..6 listeners and a hash array of 2..7 entries (1 or 7 buckets) some of whose keys are listeners;
    the harness gives listener L an address with `address % 7 == L % 6 + 1`, so the writer's walk order and the loss after
    the load are the same in every process and the model predicts both"""
    nl = rng.randint(1, 6)
    items = [(rng.choice(archgen.OBJ), l, b"Listener", [("p", "u8", 0)]) for l in range(1, nl + 1)]
    nxt = [200000]

    def fresh():
        nxt[0] += 1
        return nxt[0]
    es, used = [], set()
    for _ in range(rng.randint(2, 7)):
        r = rng.random()
        if r < 0.5:
            k = ("l", rng.randint(1, nl))
        elif r < 0.8:
            k = ("i", rng.choice([0, 1, 7, 14, 2 ** 64 - 1, rng.getrandbits(16)]))
        else:
            k = ("s", bytes(rng.choice(archgen.TEXT) for _ in range(rng.randint(0, 5))))
        if k in used:
            continue
        used.add(k)
        es.append((fresh(), k, fresh(), rng.choice([("i", rng.getrandbits(8)), ("s", b"v"), ("l", rng.randint(0, nl)), ("n",)])))
    arr = ("v", fresh(), ("arr", fresh(), 0, 0, 0, 0, [], es))
    items.insert(rng.randint(0, len(items)), arr)
    return (1, b"MFUS", b"lkey"), items


def lkey_stage(ctx, exe, reg):
    """(1) the corpus case of the known finding, through the ordinary monitor: fires on the unchanged tree on every run;
    (2) generated tables of the same kind through a monitor that tolerates exactly that loss: the model's prediction of
    which entries are lost must equal what the real code does"""
    L = b"Listener"
    known = ((1, b"MFUS", b"known"),
             [("obj", 1, L, [("p", "u8", 0)]), ("obj", 2, L, [("p", "u8", 0)]),
              ("v", 100103, ("arr", 100210, 0, 0, 0, 0, [],
                             [(100211, ("l", 1), 100212, ("s", b"ab")), (100213, ("l", 2), 100214, ("i", 3)),
                              (100215, ("i", 4), 100216, ("i", 5))]))])
    dk = archgen.ADiff(ctx, Prop(), exe, AREA)
    dk.base_timeout = 60
    c = archgen.canon(exe, reg, [known])[0]
    bad = dk.run_batch([("known:listener-key-lost", [reg, archgen.arc_line(*c)])])
    tol = Prop()
    tol.tolerate_listener_key_loss = True
    dt = archgen.ADiff(ctx, tol, exe, AREA)
    dt.base_timeout = 60
    rng = ctx.rng("lkey")
    cases = [gen_lkey(rng) for _ in range(60 if ctx.tier == "quick" else 1500)]
    nlost = 0
    bad2 = 0
    for i in range(0, len(cases), 100):
        fixed = archgen.canon(exe, reg, cases[i:i + 100])
        bad2 += dt.run_batch([("lkey:%d" % (i + j), [reg, archgen.arc_line(*c)]) for j, c in enumerate(fixed)])
    ctx.oblige("hash arrays with listener keys in 7-bucket tables: which entries a look-up still finds after the load, real code == "
               "model (%d tables; the loss itself is the known finding roundtrip:lost-key:listener-key)" % len(cases),
               bad2 == 0, "%d differing cases" % bad2, reported=True)
    return {"tables": len(cases), "known_case_fired": bad}


# --------------------------------------------------------------------------------------------
# several loads in one script context, with ScriptMaster::Reset() and other interning in between

def gen_session(rng):
    """`sess`, then 2..4 rounds of: an archive (constant-string values, named variables, variable lists among other
    things) is written and loaded into the session; the session is reset and some texts are interned (texts of the archives,
    in another order, and new ones).  With probability 1/2 the first constant string the next archive loads is the last one
    the previous archive loaded."""
    lines = ["sess"]
    cases = []
    nxt = [300000]

    def fresh():
        nxt[0] += 1
        return nxt[0]

    def text():
        return bytes(rng.choice(archgen.TEXT) for _ in range(rng.randint(1, 8)))
    pool = [text() for _ in range(6)]
    last = None
    for rnd in range(rng.randint(2, 4)):
        items = []
        if last is not None and rng.random() < 0.5:
            first = last
        else:
            first = rng.choice(pool)
        r = rng.random()
        if r < 0.4:
            items.append(("v", fresh(), ("k", first)))
        elif r < 0.8:
            items.append(("nv", fresh(), first, ("i", rng.getrandbits(16))))
        else:
            items.append(("vl", 0, 0, 0, [], [(fresh(), first, ("s", b"x"))]))
        for _ in range(rng.randint(0, 5)):
            r = rng.random()
            if r < 0.3:
                items.append(("v", fresh(), ("k", rng.choice(pool))))
            elif r < 0.55:
                items.append(("nv", fresh(), rng.choice(pool + [text()]), rng.choice([("i", 1), ("k", rng.choice(pool)), ("s", b"")])))
            elif r < 0.75:
                names = list(dict.fromkeys(rng.choice(pool + [text()]) for _ in range(rng.randint(0, 5))))
                items.append(("vl", 0, 0, 0, [], [(fresh(), nm, rng.choice([("i", 2), ("k", rng.choice(pool))])) for nm in names]))
            else:
                items.append(archgen.gen_prim(rng))
        last = rng.choice(pool + [text()])
        items.append(("v", fresh(), ("k", last)) if rng.random() < 0.5 else ("nv", fresh(), last, ("n",)))
        cases.append(((1, b"MFUS", b"sess"), items))
        lines += [None, "sload"]
        k = rng.randint(0, 4)
        lines.append(" ".join(["sreset"] + [rng.choice(pool + [text()]).hex() for _ in range(k)]))
    return lines, cases


def session_stage(ctx, exe, reg):
    d = archgen.ADiff(ctx, Prop(), exe, AREA)
    d.base_timeout = 60
    rng = ctx.rng("session")
    T = b"health"
    fixed_lines = ["sess", None, "sload", "sreset " + b"armor".hex() + " " + b"ammo".hex(), None, "sload", "sreset", None, "sload"]
    fixed_cases = [((1, b"MFUS", b"s1"), [("v", 300001, ("k", b"armor")), ("nv", 300002, T, ("i", 100))]),
                   ((1, b"MFUS", b"s2"), [("nv", 300003, T, ("i", 55)), ("v", 300004, ("k", b"ammo"))]),
                   ((1, b"MFUS", b"s3"), [("vl", 0, 0, 0, [], [(300005, b"ammo", ("i", 1)), (300006, T, ("k", T))])])]
    sessions = [(fixed_lines, fixed_cases)] + [gen_session(rng) for _ in range(60 if ctx.tier == "quick" else 2000)]
    bad = 0
    for i in range(0, len(sessions), 40):
        batch = []
        for j, (lines, cases) in enumerate(sessions[i:i + 40]):
            fixed = iter(archgen.canon(exe, reg, cases))
            batch.append(("session:%d" % (i + j), [reg] + [archgen.arc_line(*next(fixed)) if l is None else l for l in lines]))
        bad += d.run_batch(batch)
    ctx.oblige("several loads into one script context with ScriptMaster::Reset() and other interning in between: every load "
               "reads back what was written, real code == model (%d sessions)" % len(sessions), bad == 0,
               "%d failing sessions" % bad, reported=True)
    return {"sessions": len(sessions)}


def check(ctx):
    prop = Prop()
    d0 = archgen.translate(ctx)
    proofs_ok, _ = common.proof_side(ctx, PROPS_MODULE, PROPS_FILE)
    if ctx.stats.get("lake_build_ok"):
        archgen.cfg_obligations(ctx, d0["flags"], {
            "valueStrFresh": "a loaded String value starts from an empty string (C10_value_roundtrip for empty strings)",
            "dictLoadAdds": "the load side of StringDictionary::ArchiveString interns the text read (Add), so that it denotes "
                            "the archived text in any reading dictionary (C10_const_string_any_dictionary)"},
            "notes/C10-findings.md")
    if ctx.tier == "thorough":
        common.leanchecker(ctx, PROPS_MODULE)
    exe = archgen.build(ctx)
    reg = archgen.class_registry(ctx, exe)
    d = archgen.ADiff(ctx, prop, exe, AREA)
    d.base_timeout = 60
    bad = d.run_batch(corpus_cases(reg))
    fx = fixed_cases(reg)
    fxc = archgen.canon(exe, reg, [(info, items) for _, info, items in fx])
    bad += d.run_batch([(name, [reg, archgen.arc_line(*c)]) for (name, _, _), c in zip(fx, fxc)])
    rng = ctx.rng("random")
    quick = ctx.tier == "quick"
    ncases = 400 if quick else 12000
    hist = {}
    nwf = 0
    maxobj = 0
    batch = []

    def flush(batch):
        fixed = archgen.canon(exe, reg, [(info, items) for _, info, items, _ in batch])
        return d.run_batch([(name, [reg, archgen.arc_line(*c)] + extra) for (name, _, _, extra), c in zip(batch, fixed)])
    for i in range(ncases):
        n = rng.choice([1, 5, 20, 60, 200])
        items = archgen.gen_case(rng, n, maxstr=300 if rng.random() < 0.9 else 6000, named=True)
        info = archgen.gen_info(rng)
        nwf += archgen.well_formed(items)
        maxobj = max(maxobj, len(archgen.registered(items)))
        count_kinds(items, hist)
        batch.append(("random:%d" % i, info, items, ["rsame"] if i % 4 == 0 else []))
        if len(batch) == 100:
            bad += flush(batch)
            batch = []
    bad += flush(batch)
    # every primitive with every boundary value, alone (the width/tag table)
    sweep = []
    for p in archgen.PRIMS:
        vals = [0, 1] if p == "bool" else archgen.BOUND[archgen.WIDTH[p]] + (archgen.F32 if p == "f32" else []) + (archgen.F64 if p == "f64" else [])
        sweep.append(("sweep:" + p, [reg, archgen.arc_line((1, b"MFUS", b"Morfuse Archive"), [("p", p, v) for v in vals])]))
    bad += d.run_batch(sweep)
    ctx.oblige("correspondence harness/archive.cpp (real Archiver) == Archive model: bytes and read-back of %d write sequences" % d.cases,
               bad == 0, "%d differing cases" % bad, reported=True)
    tstats = tables_stage(ctx, exe, reg)
    kstats = lkey_stage(ctx, exe, reg)
    sstats = session_stage(ctx, exe, reg)
    s_items = archgen.gen_case(ctx.rng("sample"), 6, nobj=2)
    ctx.samples = [archgen.arc_line(*archgen.canon(exe, reg, [((1, b"MFUS", b"Morfuse Archive"), s_items)])[0])]
    cov = {
        "evaluations": d.cases, "distinct_nontrivial": len(d.distinct),
        "rule": "typed write sequences of 1..200 calls over all 15 primitive calls (boundary values 55%), strings/raw "
                "(empty, short, up to 6000 bytes, text / all-NUL / binary), object graphs of 0..30 listeners of three classes "
                "(real Listener, two scripted subclasses whose Archive() runs nested calls incl. nested ArchiveObject and self "
                "pointers), plain and safe pointers before/after/inside their targets, null pointers, position-only objects, "
                "4% pointers to never-registered objects; distinct by SHA-1 of the lines",
        "listener_tables": tstats, "listener_key_tables": kstats, "sessions": sstats,
        "item_histogram": hist, "well_formed_sequences": nwf, "max_registered_objects": maxobj,
        "model_answer_kinds": d.outkinds, "exhaustive": False,
    }
    return common.finish(ctx, "proof", cov, TRUSTED, ASSUME,
                         "cd lean && lake build && lake env lean <Audit.lean with #print axioms>; tools/check.py C10")


def count_vkinds(v, hist):
    k = "v:" + v[0] + (":empty" if v[0] == "s" and not v[1] else "")
    hist[k] = hist.get(k, 0) + 1
    if v[0] == "ca":
        for _, e in v[3]:
            count_vkinds(e, hist)
    if v[0] == "arr":
        hist["arr:entries"] = hist.get("arr:entries", 0) + len(v[7])
        for _, kv, _, vv in v[7]:
            hist["key:" + kv[0]] = hist.get("key:" + kv[0], 0) + 1
            count_vkinds(vv, hist)


def count_kinds(items, hist):
    for it in items:
        if it[0] == "v":
            count_vkinds(it[2], hist)
            continue
        if it[0] == "nv":
            hist["nv"] = hist.get("nv", 0) + 1
            count_vkinds(it[3], hist)
            continue
        if it[0] == "vl":
            hist["vl"] = hist.get("vl", 0) + 1
            hist["vl:entries"] = hist.get("vl:entries", 0) + len(it[5])
            for _, _, val in it[5]:
                count_vkinds(val, hist)
            continue
        k = it[0] + (":" + it[1] if it[0] == "p" else "")
        if it[0] in ("op", "sp") and it[1] == 0:
            k += ":null"
        hist[k] = hist.get(k, 0) + 1
        if it[0] in archgen.OBJ:
            hist["cls:" + it[2].decode()] = hist.get("cls:" + it[2].decode(), 0) + 1
            count_kinds(it[3], hist)


def replay(ctx, obj):
    archgen.translate(ctx)
    common.lake_build()
    exe = archgen.build(ctx)
    reg = archgen.class_registry(ctx, exe)
    lines = [reg] + [l for l in obj["lines"] if not l.startswith("classes")]
    if any(l.startswith("lis ") for l in lines):
        rc = 0
        for sp, j in tables_run(ctx, exe, reg, [l for l in lines if l.startswith("lis ")]):
            print("> %s\n  %s" % (sp[:300], "as the model says, read back == written" if j is None else "%s: %s" % (j[0], j[2])))
            rc = rc or (1 if j else 0)
        print("replay:", "still fails" if rc else "no difference")
        return rc
    d = archgen.ADiff(ctx, Prop(), exe, AREA)
    d.base_timeout = 60
    impl, crash, info, model = d.both(lines)
    for i, l in enumerate(lines):
        print("> %s\n  impl : %s\n  model: %s" % (l[:300], (impl[i] if i < len(impl) else "<missing>")[:600],
                                                  (model[i] if i < len(model) else "<missing>")[:600]))
    if crash:
        print("CRASH", crash)
        print(info)
    bad = crash is not None or common.first_diff(impl, model) is not None
    print("replay:", "still differs" if bad else "no difference")
    return 1 if bad else 0
