"""C11 — damaged archives are reported, never trusted (DESIGN.md 7.6)."""
import glob
import json
import os
import re
import time

from vlib import common, archgen
from vlib.common import VERIF, LEAN

AREA = archgen.AREA
PROPS_MODULE = "MorfuseModel.Props.C11"
PROPS_FILE = os.path.join(LEAN, "MorfuseModel", "Props", "C11.lean")
DETECT = ("hdr", "tag", "ver", "size", "cls")        # a substitution here must be reported
DAMAGE = ("len", "name", "ncls", "idx", "pcls", "flag")      # here only "no crash, nothing outside the objects"
# flag: the flag byte of a real Listener record (top level): a damaged flag makes Listener::Archive read event tables /
# a ScriptVariableList from the bytes behind the record; the model follows both branches (WSch.lobj)
# pcls: class-name characters of a record that is read with the polymorphic ReadObject(): the reader has no
# expected class to compare with (a name damaged into another registered name yields an object of that class)

TRUSTED = [
    "Lean 4.33.0 kernel (lake build; leanchecker in the thorough tier)",
    "axioms allowed: propext, Classical.choice, Quot.sound (audited by #print axioms on every run)",
    "hand-written reader model lean/MorfuseModel/Archive/Model.lean of src/Script/Archiver.cpp (order of checks, "
    "stream state, object table, fix-ups at Close also while unwinding), tied by the differential run: every cut and "
    "every substitution at header/tag/version/size/class-name positions of generated archives through the real reader "
    "under ASan, outcome (exception type / completed with which values) compared with the model's",
    "translator tools/vlib/archgen.py: the four reader switches of Archive.Cfg are read from the text of "
    "Archiver.cpp / str.cpp (Gen/ArchiveTable.lean); the theorems are instantiated at that configuration",
    "g++ 12 / libstdc++ istream semantics (short read sets eofbit|failbit, tellg() = -1 afterwards), ASan for "
    "'reads or writes outside the objects'; the harness installs an IMemoryManager that refuses requests of 2^20 bytes or more (= the model's allocLimit) to stand for 'malloc fails'",
]
ASSUME = [
    "the reading host issues the calls of schemaOf w into zero-initialised variables and keeps pointer slots alive until the Archiver is destroyed",
    "registered class names are distinct up to letter case (ClassDef::GetClass returns the first case-insensitive match)",
    "substitutions inside payload bytes (values, string characters) cannot be detected by this format and are outside the statement; "
    "damage to length / count / index / archive-name fields is only required to be safe, not detected",
    "Listener flag bytes are not damaged (a set bit makes Listener::Archive read con::set tables, which is outside Archiver.cpp)",
    "class-name bytes of a record read with the polymorphic ReadObject() are only required to be safe: that reader has no "
    "expected class (a name damaged into another registered name yields an object of that class, visible to the caller)",
]


def now():
    return time.time()


class Runner:
    def __init__(self, ctx, exe, reg):
        self.ctx, self.exe, self.reg = ctx, exe, reg
        self.sigs = {}            # signature -> violation dict
        self.stats = {"archives": 0, "cuts": 0, "substitutions": 0, "multi_damage": 0, "crashes": 0,
                      "by_class": {}, "impl_outcomes": {}, "model_ub_predictions": 0, "isolations": 0}
        self.diffs = 0
        self.max_sigs = 5
        self.deadline = None

    # ---- low level ----------------------------------------------------------------------
    def impl(self, head, probes):
        """outputs of the probe lines (head's outputs dropped); None where the process died, with signature"""
        res = []
        i = 0
        deaths = 0
        while i < len(probes):
            out, crash, info = archgen.run_impl(self.exe, head + probes[i:], timeout=300)
            if len(out) < len(head) and str(crash) == "timeout":
                # the head only writes the undamaged archive: a time-out there is machine load, not a reader hang;
                # run the head alone once more (a second time-out is reported)
                out2, crash2, _ = archgen.run_impl(self.exe, head, timeout=600)
                if len(out2) >= len(head) and crash2 is None:
                    self.stats["head_timeouts_retried"] = self.stats.get("head_timeouts_retried", 0) + 1
                    out, crash, info = archgen.run_impl(self.exe, head + probes[i:], timeout=900)
            if len(out) < len(head):
                res += ["CRASH in-head:" + str(crash)] * (len(probes) - i)
                break
            got = out[len(head):]
            res += got
            i += len(got)
            if crash is None:
                break
            deaths += 1
            self.stats["crashes"] += 1
            if i < len(probes):
                res.append("CRASH " + crash)
                i += 1
            if deaths > 8:
                res += ["SKIPPED"] * (len(probes) - i)
                break
        return res

    def model(self, head, probes):
        return archgen.run_model(head + probes)[len(head):]

    # ---- judging ------------------------------------------------------------------------
    def judge(self, kind, pc, orig, val, impl, model):
        """None | (verdict, signature, why)"""
        k = impl.split(":")[0].split(" ")[0]
        self.stats["impl_outcomes"][k] = self.stats["impl_outcomes"].get(k, 0) + 1
        if impl == "SKIPPED":
            return None
        if impl.startswith("CRASH"):
            # …or stopped with a reported error raised by *another* damaged byte of the same probe: the destructor
            # still runs the fix-ups that were queued with the in-range index (crash inside the fix-up pass only)
            fixup_pass = re.search(r"@(mfuse::)?(SafePtrBase::(AddReference|RemoveReference|InitSafePtr)|Archiver::Close)", impl)
            if pc in ("data", "flag") and model.startswith("ok") and fixup_pass:
                # a payload byte of a script value can itself be an object-index field (holder / pointer-cell / Ref
                # references inside values and variable lists): the same input class as the known finding, recognised
                # here only when the crash is in the fix-up pass
                return ("violation", "crash:index-damage-in-range",
                        "a payload byte that is an index field inside a script value was changed to another index inside "
                        "the table; the reader went on (model: %s) and the fix-up pass resolved a pointer to an object of "
                        "the wrong type: %s" % (model[:40], impl[6:]))
            if pc in ("idx", "multi+idx") and (model.startswith("ok") or (
                    pc == "multi+idx" and fixup_pass and not model.startswith("UB:") and model != "InvalidObjectIndex")):
                # the damaged index is still inside the object table: the format has no type information, a pointer
                # then resolves to an object of another type (see notes/C11-findings.md F7)
                return ("violation", "crash:index-damage-in-range",
                        "an index field was changed to another index inside the table; the reader went on (model: %s) "
                        "and the fix-up pass resolved a pointer to an object of the wrong type: %s" % (model[:40], impl[6:]))
            return "violation", "crash:" + impl[6:], "the reader crashed / sanitizer report (%s)" % impl[6:]
        completed = impl.startswith("ok")
        if kind == "cut" and completed:
            return "violation", "undetected:truncation", "a truncated archive was read to completion without any error"
        if kind == "sub" and pc in DETECT and completed:
            if pc == "cls" and upc(orig) == upc(val):
                pass    # the reader compares class names case-insensitively: not a mismatch for it
            else:
                return "violation", "undetected:" + pc, "a substituted %s byte was accepted without any error" % pc
        if model.startswith("UB:"):
            self.stats["model_ub_predictions"] += 1
            return None
        if pc in ("idx", "multi+idx") and model.startswith("ok"):
            # in-range index damage: which host object a pointer now names is not comparable (the harness can
            # only print objects of the expected type); only a crash counts (handled above)
            self.stats["index_damage_in_range"] = self.stats.get("index_damage_in_range", 0) + 1
            return None
        if pc in ("data", "flag") and impl.startswith("ok") and model.startswith("ok"):
            # a damaged payload byte that both readers accept: the load completes with other values (which ones is not
            # C11's business, and a read-back of a variable list looks its variables up by their written names)
            self.stats["payload_damage_accepted"] = self.stats.get("payload_damage_accepted", 0) + 1
            return None
        if impl != model:
            return "diff", "diff:%s:%s" % (kind, pc), "implementation `%s`, proved model `%s`" % (impl, model)
        return None

    def record(self, verdict, sig, why, info, items, probe):
        if verdict == "diff":
            self.diffs += 1
        if sig in self.sigs:
            return
        lines = [archgen.arc_line(info, items), probe]
        replay = common.save_replay(self.ctx, {
            "property": "C11", "kind": "correspondence", "area": AREA, "lines": lines, "verdict": verdict,
            "why": why, "signature": sig,
            "how_to_replay": "python3 tools/check.py C11 --replay <this file>"})
        v = {"signature": sig, "replay": replay, "why": why, "found_input": verdict == "violation"}
        self.sigs[sig] = v
        self.ctx.violations.append(v)

    # ---- one archive --------------------------------------------------------------------
    def probe_archive(self, info, items, rng, exhaustive_positions=400, ndamage=30, nmulti=30, ndata=12, extra_probes=()):
        info, items = archgen.canon(self.exe, self.reg, [(info, items)])[0]
        head = [self.reg, archgen.arc_line(info, items)]
        pre = archgen.run_model(head + ["layout"])
        if pre[0] != "ok" or " | " not in pre[1]:
            raise common.CheckError("model refused a generated archive: " + pre[1][:200])
        hexbytes = pre[1].split(" | ")[0]
        data = bytes.fromhex(hexbytes) if hexbytes != "-" else b""
        lay = archgen.expand_rle(pre[2])
        n = len(data)
        assert len(lay) == n
        self.stats["archives"] += 1
        det = [p for p in range(n) if lay[p] in DETECT]
        dam = [p for p in range(n) if lay[p] in DAMAGE]
        if len(det) > exhaustive_positions:
            det = sorted(rng.sample(det, exhaustive_positions))
        flags = [p for p in dam if lay[p] == "flag"]
        dam = sorted(set(rng.sample(dam, min(ndamage, len(dam))) + flags[:8]))
        # payload bytes too (kind bytes, counts and sizes of arrays / sets / lists, key flags, values): only "no crash,
        # nothing outside the objects" is required there, and the data-directed reader model must predict the outcome
        pay = [p for p in range(n) if lay[p] == "data"]
        pay = sorted(rng.sample(pay, min(ndata, len(pay))))
        probes = ["tall"] + ["sx %d" % p for p in det + dam + pay] + list(extra_probes)
        nd = [p for p in range(n) if lay[p] != "data"]
        for _ in range(nmulti if nd else 0):
            ps = rng.sample(nd, min(len(nd), rng.choice([2, 2, 3, 4, 8])))
            probes.append("m " + " ".join("%d %d" % (p, rng.getrandbits(8)) for p in ps))
        t1 = now()
        impl = self.impl(head, probes)
        t2 = now()
        model = self.model(head, probes)
        self.stats["impl_s"] = round(self.stats.get("impl_s", 0) + t2 - t1, 1)
        self.stats["model_s"] = round(self.stats.get("model_s", 0) + now() - t2, 1)
        if os.environ.get("VERIF_DEBUG"):
            print("archive n=%d probes=%d impl %.1fs model %.1fs" % (n, len(probes), t2 - t1, now() - t2), flush=True)
        if len(model) != len(probes):
            raise common.CheckError("model driver answered %d of %d probes" % (len(model), len(probes)))
        for i, pr in enumerate(probes):
            if len(self.sigs) >= self.max_sigs:
                return
            a = impl[i] if i < len(impl) else "SKIPPED"
            if a == "SKIPPED":
                continue
            if a.startswith("CRASH in-head"):
                self.record("violation", "crash:" + a[6:], "the reader crashed on the intact archive", info, items, pr)
                continue
            t = pr.split(" ")
            if t[0] == "tall":
                mo = archgen.expand_rle(model[i])
                if a.startswith("CRASH"):
                    self.stats["isolations"] += 1
                    io = self.impl(head, ["t %d" % k for k in range(n)])
                    io = [shorten(x) for x in io]
                else:
                    io = archgen.expand_rle(a)
                self.stats["cuts"] += n
                for k in range(n):
                    j = self.judge("cut", "cut", 0, 0, io[k] if k < len(io) else "SKIPPED", mo[k])
                    if j:
                        self.record(j[0], j[1], j[2], info, items, "t %d" % k)
            elif t[0] == "sx":
                p = int(t[1])
                pc = lay[p]
                mo = archgen.expand_rle(model[i])
                if a.startswith("CRASH"):
                    self.stats["isolations"] += 1
                    vals = [b for b in range(256) if b != data[p]]
                    io0 = [shorten(x) for x in self.impl(head, ["s %d %d" % (p, b) for b in vals])]
                    io = ["same"] * 256
                    for b, x in zip(vals, io0):
                        io[b] = x
                else:
                    io = archgen.expand_rle(a)
                self.stats["substitutions"] += 255
                self.stats["by_class"][pc] = self.stats["by_class"].get(pc, 0) + 255
                for b in range(256):
                    if b == data[p]:
                        continue
                    j = self.judge("sub", pc, data[p], b, io[b] if b < len(io) else "SKIPPED", mo[b])
                    if j:
                        self.record(j[0], j[1], j[2], info, items, "s %d %d" % (p, b))
            elif t[0] == "t":
                self.stats["cuts"] += 1
                j = self.judge("cut", "cut", 0, 0, shorten(a), shorten(model[i]))
                if j:
                    self.record(j[0], j[1], j[2], info, items, pr)
            elif t[0] == "s":
                self.stats["substitutions"] += 1
                p = int(t[1])
                j = self.judge("sub", lay[p], data[p], int(t[2]), shorten(a), shorten(model[i]))
                if j:
                    self.record(j[0], j[1], j[2], info, items, pr)
            else:
                self.stats["multi_damage"] += 1
                ps = [int(x) for x in t[1::2]]
                j = self.judge("multi", "multi+idx" if any(lay[p] == "idx" for p in ps) else "multi", 0, 0,
                               shorten(a), shorten(model[i]))
                if j:
                    self.record(j[0], j[1], j[2], info, items, pr)


def upc(b):
    return b - 32 if 97 <= b <= 122 else b


def fnv(s):
    h = 2166136261
    for c in s.encode():
        h = ((h ^ c) * 16777619) & 0xFFFFFFFF
    return h


def shorten(x):
    """long outcome -> the short form used inside summaries"""
    if x.startswith("err "):
        return x[4:]
    if x == "ok" or x.startswith("ok "):
        return "ok:%d" % fnv(x[3:])
    return x


NEED = {
    "checkAfterRead": "a short read is reported at once (C11_truncation_detected, C11_never_undefined)",
    "versionOr": "either version field differing is rejected (C11_header_version_detected)",
    "indexChecked": "indices from the archive are range-checked (C11_indices_in_bounds, C11_never_undefined)",
    "lengthChecked": "lengths from the archive are bounded by the stream (C11_never_undefined)",
    "arraySizeChecked": "the element count of an archived const array is bounded by the stream before the elements are allocated (C11_container_archive_never_undefined, C11_set_archive_never_undefined)",
    "valueTypeLate": "a load that fails leaves no script variable with a kind but no data behind (its destructor would crash)",
}


def corpus_archives():
    res = []
    for p in sorted(glob.glob(os.path.join(VERIF, "corpus", "C11", "*.json"))):
        o = json.load(open(p))
        t = o["lines"][0].split(" ")
        info = (int(t[1]), b"" if t[2] == "-" else bytes.fromhex(t[2]), b"" if t[3] == "-" else bytes.fromhex(t[3]))
        res.append((info, archgen.parse_items(t[4:]), [l for l in o["lines"][1:] if l.split(" ")[0] in ("t", "s", "m")]))
    return res


def fixed_archives():
    L = b"Listener"
    li = lambda l: ("obj", l, L, [("p", "u8", 0)])
    return [
        ((1, b"MFUS", b"Morfuse Archive"), [("p", "u8", 1), ("p", "u16", 2), ("p", "u32", 3)]),
        ((1, b"TEST", b"Morfuse test archive"),
         [("p", "u8", 1), ("s", b"Test string"), li(1), ("sp", 1), ("op", 1), ("sp", 2), ("op", 2), li(2), ("op", 0),
          ("pos", 3), ("op", 3)]),
        ((2, b"MFUS", b""), [("obj", 1, b"VNode", [("op", 1), ("obj", 2, b"VNodf", []), ("s", b"")]), ("obj", 3, b"VNode", [])]),
        # the same object records read with ReadObject<T>() and with the polymorphic ReadObject()
        ((1, b"MFUS", b"x"), [("objp", 1, L, [("p", "u8", 0)]), ("objt", 2, L, [("p", "u8", 0)]), ("sp", 1),
                              ("objt", 3, b"VNode", [("op", 1), ("objt", 6, b"VNodf", [("p", "u16", 9)]), ("s", b"ab")]),
                              ("objp", 4, L, [("p", "u8", 0)]), ("objt", 5, b"VNodf", [("sp", 5)])]),
        ((1, b"MFUS", b"x"), []),
    ]


def check(ctx):
    d = archgen.translate(ctx)
    proofs_ok, _ = common.proof_side(ctx, PROPS_MODULE, PROPS_FILE)
    if proofs_ok or ctx.stats.get("lake_build_ok"):
        archgen.cfg_obligations(ctx, d["flags"], NEED, "notes/C11-findings.md")
    if ctx.tier == "thorough":
        common.leanchecker(ctx, PROPS_MODULE)
    exe = archgen.build(ctx)
    reg = archgen.class_registry(ctx, exe)
    r = Runner(ctx, exe, reg)
    rng = ctx.rng("random")
    quick = ctx.tier == "quick"
    budget = 45 if quick else 800
    t0 = now()
    todo = corpus_archives() + [(i, it, []) for i, it in fixed_archives()]
    narch = 0
    while len(r.sigs) < r.max_sigs:
        extra = []
        if todo:
            info, items, extra = todo.pop(0)
            big = False
        else:
            if now() - t0 > budget:
                break
            big = rng.random() < 0.15
            nit = rng.choice([30, 80, 200]) if big else rng.choice([1, 3, 6, 10, 16])
            items = archgen.gen_case(rng, nit, nobj=rng.randint(0, 30 if big else 6), maxstr=40, dangling=0.03,
                                     poly_scripted=False, named=True)
            info = archgen.gen_info(rng)
        r.probe_archive(info, items, rng, exhaustive_positions=(30 if quick else 120) if big else 400,
                        ndamage=20 if quick else 40, nmulti=20 if quick else 60, ndata=10 if quick else 30,
                        extra_probes=extra)
        narch += 1
    ncmp = r.stats["cuts"] + r.stats["substitutions"] + r.stats["multi_damage"]
    viol = [v for v in r.sigs.values() if v["found_input"]]
    ctx.oblige("every cut / substitution of %d archives (%d damaged reads): real reader under ASan == reader model, "
               "and the trace monitor (reported error, no crash) holds on the implementation" % (narch, ncmp),
               not r.sigs, "%d kinds of failure: %s" % (len(r.sigs), ", ".join(sorted(r.sigs))), reported=True)
    ctx.samples = [archgen.arc_line((1, b"MFUS", b"Morfuse Archive"), archgen.gen_case(ctx.rng("sample"), 5, nobj=2, values=0)) + " ; tall ; sx 0"]
    ctx.stats.update(r.stats)
    cov = {
        "evaluations": ncmp, "distinct_nontrivial": narch,
        "rule": "per generated archive (C10 generator, 1..200 calls, 0..30 objects): every truncation length 0..n-1; all 255 "
                "substitutions at every header / tag / version / object-size / class-name byte (sampled to 120 positions "
                "for the large archives); all 255 substitutions at sampled length / archive-name / numClasses / index bytes; "
                "random 2..8-byte damage outside payload bytes; non-trivial = archives",
        "damaged_reads": {"cuts": r.stats["cuts"], "substitutions": r.stats["substitutions"], "multi": r.stats["multi_damage"]},
        "substitutions_by_class": r.stats["by_class"], "impl_outcome_histogram": r.stats["impl_outcomes"],
        "reader_switches": d["flags"], "exhaustive": False,
    }
    return common.finish(ctx, "proof", cov, TRUSTED, ASSUME,
                         "cd lean && lake build && lake env lean <Audit.lean with #print axioms>; tools/check.py C11")


def replay(ctx, obj):
    archgen.translate(ctx)
    common.lake_build()
    exe = archgen.build(ctx)
    reg = archgen.class_registry(ctx, exe)
    lines = [reg] + [l for l in obj["lines"] if not l.startswith("classes")]
    impl, crash, info = archgen.run_impl(exe, lines)
    model = archgen.run_model(lines)
    for i, l in enumerate(lines[1:], 1):
        print("> %s\n  impl : %s\n  model: %s" % (l[:300], (impl[i] if i < len(impl) else "<missing>")[:400],
                                                  (model[i] if i < len(model) else "<missing>")[:400]))
    bad = crash is not None
    if crash:
        print("CRASH", crash)
        print(info[-3000:])
    for i in range(2, len(lines)):
        a = impl[i] if i < len(impl) else "CRASH"
        if a.startswith("ok") or (not model[i].startswith("err UB:") and a != model[i]):
            bad = True
    print("replay:", "still fails" if bad else "reported as an archive error, as the model says")
    return 1 if bad else 0
