"""C12 — weak references never dangle (DESIGN.md 7.1)."""
import glob
import json
import os

from vlib import common
from vlib.common import Diff, VERIF, LEAN

AREA = "safeptr"
PROPS_MODULE = "MorfuseModel.Props.C12"
PROPS_FILE = os.path.join(LEAN, "MorfuseModel", "Props", "C12.lean")
NOBJ, NREF = 3, 5
OPS = ["newobj", "delobj", "newref", "copyref", "assignobj", "assignref", "clear", "delref", "moveassign", "movector", "cadd", "cadd", "cremove"]

TRUSTED = [
    "Lean 4.33.0 kernel (lake build; leanchecker in the thorough tier)",
    "axioms allowed: propext, Classical.choice, Quot.sound (audited by #print axioms on every run)",
    "hand-written model lean/MorfuseModel/SafePtr/Model.lean of src/Common/SafePtr.cpp + AbstractClass.cpp, tied by the differential correspondence run (harness/safeptr.cpp vs lean driver)",
    "g++ 12 / ASan semantics for 'a write through a stale link is reported'",
    "Std.HashMap.getD_insert (core library lemma) behind Mem.get_set",
]
ASSUME = [
    "operations are legal C++ fragments (no use of a destroyed SafePtr object, no double construction): illegal lines are answered bad-op on both sides",
    "IsLastReference on a null reference is outside the property and is not observed",
    "prev/next of a reference constructed from a null pointer are uninitialised in C++ and never observed",
]


class Prop:
    def classify(self, lines, impl, crash, model):
        # every observed token (pointer value, validity, last-reference flag) is what the property
        # speaks about and the model's values are proved equal to the abstract spec, so any
        # difference on a legal history is a violation of C12 itself.
        if crash:
            j = common.first_diff(impl[:len(model)], model[:len(impl)]) if impl else None
            extra = ""
            if j is not None and j < len(impl) and j < len(model):
                extra = "; before that, line %d `%s`: implementation observed `%s`, proved model `%s`" % (
                    j, lines[j] if j < len(lines) else "?", impl[j][:300], model[j][:300])
            return "violation", "implementation crashed / sanitizer report: " + crash + extra, crash
        i = common.first_diff(impl, model)
        why = "line %d `%s`: implementation says `%s`, proved model says `%s`" % (
            i, lines[i] if i < len(lines) else "?", impl[i] if i < len(impl) else "<missing>",
            model[i] if i < len(model) else "<missing>")
        a = impl[i] if i < len(impl) else ""
        kind = "bad-op-mismatch" if "bad-op" in (a, model[i] if i < len(model) else "") else "observation"
        return "violation", why, "diff:" + kind


def gen_case(rng, n, nobj=NOBJ, nref=NREF):
    """mostly-legal op sequence: tracks liveness so that most ops are accepted, with a small
    stream of illegal ones (both sides must answer bad-op)."""
    lines = ["universe %d %d" % (nobj, nref)]
    objs, refs = set(), set()
    ncont = [0]
    for _ in range(n):
        illegal = rng.random() < 0.03
        op = rng.choice(OPS)
        anyobj = lambda: rng.randint(1, nobj)
        anyref = lambda: rng.randint(1, nref)
        if illegal:
            a, b = rng.randint(0, nref + 1), rng.randint(0, nobj + 1)
            lines.append("%s %d" % (op, a) if op in ("newobj", "delobj", "clear", "delref", "cadd", "cremove") else "%s %d %d" % (op, a, b))
            continue
        if op == "newobj":
            free = [o for o in range(1, nobj + 1) if o not in objs]
            if not free:
                continue
            o = rng.choice(free); objs.add(o); lines.append("newobj %d" % o)
        elif op == "delobj":
            if not objs or rng.random() < 0.5:
                continue
            o = rng.choice(sorted(objs)); objs.discard(o); lines.append("delobj %d" % o)
        elif op == "newref":
            free = [r for r in range(1, nref + 1) if r not in refs]
            if not free:
                continue
            r = rng.choice(free); refs.add(r)
            o = rng.choice(sorted(objs)) if objs and rng.random() < 0.85 else 0
            lines.append("newref %d %d" % (r, o))
        elif op == "copyref":
            free = [r for r in range(1, nref + 1) if r not in refs]
            if not free or not refs:
                continue
            r = rng.choice(free); q = rng.choice(sorted(refs)); refs.add(r)
            lines.append("copyref %d %d" % (r, q))
        elif op == "assignobj":
            if not refs:
                continue
            o = rng.choice(sorted(objs)) if objs and rng.random() < 0.8 else 0
            lines.append("assignobj %d %d" % (rng.choice(sorted(refs)), o))
        elif op == "assignref":
            if not refs:
                continue
            lines.append("assignref %d %d" % (rng.choice(sorted(refs)), rng.choice(sorted(refs))))
        elif op == "clear":
            if not refs:
                continue
            lines.append("clear %d" % rng.choice(sorted(refs)))
        elif op == "moveassign":
            if len(refs) < 2:
                continue
            a, b = rng.sample(sorted(refs), 2)
            lines.append("moveassign %d %d" % (a, b))
        elif op == "movector":
            free = [r for r in range(1, nref + 1) if r not in refs]
            if not free or not refs:
                continue
            r = rng.choice(free); q = rng.choice(sorted(refs)); refs.add(r)
            lines.append("movector %d %d" % (r, q))
        elif op == "cadd":
            if ncont[0] >= 30:
                continue
            o = rng.choice(sorted(objs)) if objs and rng.random() < 0.9 else 0
            ncont[0] += 1
            lines.append("cadd %d" % o)
        elif op == "cremove":
            if ncont[0] == 0 or rng.random() < 0.3:
                continue
            lines.append("cremove %d" % rng.randint(1, ncont[0]))
            ncont[0] -= 1
        elif op == "delref":
            if not refs or rng.random() < 0.4:
                continue
            r = rng.choice(sorted(refs)); refs.discard(r); lines.append("delref %d" % r)
    return lines


RING_QUICK = [1, 2, 100, 1025, 2500]
RING_THOROUGH = RING_QUICK + [5000]


def ring_case(rng, n, nby=3, drop=True):
    """deterministic large-ring family: ONE object with n weak references (built by every way a reference can
    be attached: `SafePtr r(o)`, `SafePtr r(other)`, `r = o`, `r = other`), a bystander object with nby
    references; a few references are dropped again, the object is destroyed, every reference to it must read
    null (theorem C12_destroy_nulls_exactly holds for rings of any size) and the bystander's ring is untouched;
    afterwards the now-null references are re-used / destroyed.  Accepted operations answer `ok` only (`quiet`);
    the state is observed by `obs` (run-length encoded, one short line)."""
    by0 = n + 1
    lines = ["universe 3 %d q" % (n + nby + 2), "newobj 1", "newobj 2"]
    lines.append("mkrefs 2 %d %d" % (by0, by0 + nby - 1))
    # half by the bulk constructor, the rest one at a time by the four attach operations
    bulk = n if n <= 2 else rng.randint(n // 2, n - 1)
    if rng.random() < 0.5 or n <= 2:
        lines.append("mkrefs 1 1 %d" % bulk)
        nxt = bulk + 1
    else:
        # interleave: the bulk part is built in two pieces around the bystander ring
        h = max(1, bulk // 2)
        lines.append("mkrefs 1 1 %d" % h)
        lines.append("mkrefs 1 %d %d" % (h + 1, bulk))
        nxt = bulk + 1
    for r in range(nxt, n + 1):
        k = rng.randrange(4)
        if k == 0:
            lines.append("newref %d 1" % r)
        elif k == 1:
            lines.append("copyref %d %d" % (r, rng.randint(1, r - 1)))
        elif k == 2:
            lines += ["newref %d %d" % (r, rng.choice([0, 2])), "assignobj %d 1" % r]
        else:
            lines += ["newref %d %d" % (r, rng.choice([0, 2])), "assignref %d %d" % (r, rng.randint(1, r - 1))]
    lines.append("obs")
    dropped = set()
    if n > 4 and drop:
        for r in rng.sample(range(1, n + 1), min(4, n // 3)):
            dropped.add(r)
            lines.append(rng.choice(["clear %d", "assignobj %d 0", "assignobj %d 2"]) % r)
        lines.append("obs")
    lines.append("delobj 1")
    lines.append("obs")
    # the references are still usable objects: re-attach a few to the bystander, destroy the rest
    lines.append("newobj 3")
    for r in rng.sample(range(1, n + 1), min(3, n)):
        lines.append("assignobj %d %d" % (r, rng.choice([2, 3])))
    lines.append("obs")
    lines.append("delrefs 1 %d" % n)
    lines.append("obs")
    lines.append("delobj 2")
    lines.append("obs")
    return lines


def exhaustive(maxlen, nobj=2, nref=3):
    """every legal history up to maxlen over a reduced universe (correspondence input, not proof)"""
    out = []

    def rec(prefix, objs, refs, depth):
        if prefix:
            out.append(["universe %d %d" % (nobj, nref)] + prefix)
        if depth == 0:
            return
        for o in range(1, nobj + 1):
            if o not in objs:
                rec(prefix + ["newobj %d" % o], objs | {o}, refs, depth - 1)
            else:
                rec(prefix + ["delobj %d" % o], objs - {o}, refs, depth - 1)
        for r in range(1, nref + 1):
            if r not in refs:
                for o in [0] + sorted(objs):
                    rec(prefix + ["newref %d %d" % (r, o)], objs, refs | {r}, depth - 1)
                for q in sorted(refs):
                    rec(prefix + ["copyref %d %d" % (r, q)], objs, refs | {r}, depth - 1)
            else:
                for o in [0] + sorted(objs):
                    rec(prefix + ["assignobj %d %d" % (r, o)], objs, refs, depth - 1)
                for q in sorted(refs):
                    if q != r:
                        rec(prefix + ["assignref %d %d" % (r, q)], objs, refs, depth - 1)
                rec(prefix + ["clear %d" % r], objs, refs, depth - 1)
                rec(prefix + ["delref %d" % r], objs, refs - {r}, depth - 1)
    rec([], frozenset(), frozenset(), maxlen)
    # only maximal histories are needed (every prefix is observed line by line)
    keep = [c for c in out if len(c) == maxlen + 1]
    return keep


def corpus_cases():
    res = []
    for p in sorted(glob.glob(os.path.join(VERIF, "corpus", "C12", "*.json"))):
        res.append(("corpus:" + os.path.basename(p), json.load(open(p))["lines"]))
    return res


def build(ctx):
    return common.build_light(ctx, "h_safeptr", ["safeptr.cpp"],
                              ["src/Common/SafePtr.cpp", "src/Common/AbstractClass.cpp",
                               "src/Common/MEM/Memory.cpp", "src/Common/MEM/DefaultAlloc.cpp"])


def check(ctx):
    prop = Prop()
    proofs_ok, _ = common.proof_side(ctx, PROPS_MODULE, PROPS_FILE)
    if ctx.tier == "thorough":
        common.leanchecker(ctx, PROPS_MODULE)
    exe = build(ctx)
    d = Diff(ctx, prop, exe, AREA)
    bad = d.run_batch(corpus_cases())
    rng = ctx.rng("random")
    quick = ctx.tier == "quick"
    ncases, length = (120, 170) if quick else (8000, 700)
    batch = []
    for i in range(ncases):
        batch.append(("random:%d" % i, gen_case(rng, rng.choice([10, 40, length]))))
        if len(batch) == 200:
            bad += d.run_batch(batch); batch = []
    bad += d.run_batch(batch)
    rings = RING_QUICK if quick else RING_THOROUGH
    rrng = ctx.rng("ring")
    ring_bad = 0
    for n in rings:
        for v in range(2 if quick else 4):
            ring_bad += d.run_batch([("ring:%d:%d" % (n, v), ring_case(rrng, n, drop=(v % 2 == 1)))])
    bad += ring_bad
    ctx.stats["ring_sizes"] = rings
    exh = exhaustive(4 if quick else 5)
    ctx.stats["exhaustive_histories"] = len(exh)
    for i in range(0, len(exh), 2000):
        bad += d.run_batch([("exh:%d" % (i + j), c) for j, c in enumerate(exh[i:i + 2000])])
    if not quick:
        # long single histories (the property's 10^4 bound)
        bad += d.run_batch([("long:%d" % i, gen_case(rng, 10000)) for i in range(20)])
    ctx.oblige("correspondence harness/safeptr.cpp == SafePtr model on %d histories" % d.cases, bad == 0,
               "%d differing cases" % bad, reported=True)
    ctx.samples = [gen_case(ctx.rng("sample"), 12)]
    cov = {
        "evaluations": d.cases, "distinct_nontrivial": len(d.distinct),
        "rule": "histories over %d objects / %d refs generated with liveness tracking (3%% illegal ops) plus every legal history of the stated length over 2 objects / 3 refs plus the deterministic large-ring family (one object with N references for each N in ring_sizes, destroyed, every reference observed); non-trivial = at least one accepted operation with an observation; distinct by SHA-1 of the op lines" % (NOBJ, NREF),
        "op_lines": d.lines, "op_histogram": d.hist, "model_answer_kinds": d.outkinds,
        "ring_sizes": rings, "exhaustive": False,
    }
    return common.finish(ctx, "proof", cov, TRUSTED, ASSUME,
                         "cd lean && lake build && lake env lean <Audit.lean with #print axioms>; tools/check.py C12")


def replay(ctx, obj):
    common.lake_build()
    exe = build(ctx)
    d = Diff(ctx, Prop(), exe, AREA)
    impl, crash, info, model = d.both(obj["lines"])
    for i, l in enumerate(obj["lines"]):
        print("> %s\n  impl : %s\n  model: %s" % (l, impl[i] if i < len(impl) else "<missing>", model[i] if i < len(model) else "<missing>"))
    if crash:
        print("CRASH", crash); print(info)
    bad = crash is not None or common.first_diff(impl, model) is not None
    print("replay:", "still differs" if bad else "no difference")
    return 1 if bad else 0
