"""C13 — nothing outlives its script: idle means empty, reset means clean (DESIGN.md 7.4)."""
import os

from vlib import common, schedcheck, schedgen
from vlib.common import LEAN

PROPS_MODULE = "MorfuseModel.Props.C13"
PROPS_FILE = os.path.join(LEAN, "MorfuseModel", "Props", "C13.lean")

TRUSTED = [
    "Lean 4.33.0 kernel; axioms propext / Classical.choice / Quot.sound only (audited on every run)",
    "hand-written model lean/MorfuseModel/Sched/Machine.lean (instances, VM chains, thread destruction cascades, Reset, recompile), tied by the differential run against harness/engine.cpp; pool-level FreeAll is property C19's model and theorem",
    "renderer tools/vlib/schedgen.py; hook H1; g++/ASan/UBSan",
]
ASSUME = [
    "script-created objects are SimpleEntity instances named by target name and are not parked in persistent scopes; director.Reset() does not destroy them (they belong to the context) and the generator does not count them",
    "the machine-level invariant 'every live thread is in exactly one live instance chain' is not proved: it is observed through the pool counts after every command (cls/thr/vm/tim) and the monitor below",
]


def monitor(line):
    """the property as a predicate on one answer line of the real engine"""
    f = schedcheck.fields(line)
    if "idle" not in f:
        return None
    n = {k: int(f.get(k, "0")) for k in ("cls", "thr", "vm", "tim", "ev")}
    if f["idle"] == "1" and any(n.values()):
        return "idle reported while something is alive: " + line
    if (n["thr"] or n["vm"] or n["cls"] or n["tim"]) and f["idle"] == "1":
        return "live thread/VM/instance/timer but idle: " + line
    if n["cls"] == 0 and (n["thr"] or n["vm"] or n["tim"]):
        return "no script instance but threads/VMs/timers remain: " + line
    # between host operations no VM is on the native stack, so every script instance has at least one
    # thread (the last thread leaving deletes its instance; a failed start deletes the fresh instance)
    if n["cls"] and n["thr"] == 0:
        return "script instance(s) without any thread (nothing will ever delete them; the engine can never report idle): " + line
    return None


class Prop(schedcheck.SchedProp):
    def classify(self, lines, impl, crash, model):
        if not crash:
            for i, l in enumerate(impl):
                m = monitor(l)
                if m:
                    return "violation", "line %d: %s" % (i, m), "phi:idle-empty"
                if i < len(lines) and lines[i] == "reset-director":
                    f = schedcheck.fields(l)
                    if any(int(f.get(k, "0")) for k in ("cls", "thr", "vm", "tim")):
                        return "violation", "Reset left something alive: " + l, "phi:reset-clean"
        return super().classify(lines, impl, crash, model)


PROP = Prop(relevant={"out", "idle", "_status", "cls", "thr", "vm", "tim", "ev", "cur", "ret"},
            what="pools, timers, idle flag or the behaviour after Reset / recompile differ from the proved-and-compared machine")


def reset_case(rng):
    return schedgen.gen_reset_case(rng)


def every_boundary(quick):
    """a fixed family of programs with Reset / recompile injected at every frame and host-call boundary"""
    import random
    rng = random.Random(12345)
    cases = []
    for _ in range(6 if quick else 40):
        prog = schedgen.gen_sync_prog(rng)
        base = schedgen.gen_case(rng, prog, ncalls=2, nsteps=5)
        body = base[2:]
        for cut in range(1, len(body) + 1):
            for inj in (["reset-director", schedgen.script_line(prog)], [schedgen.script_line(prog)]):
                cases.append(base[:2] + body[:cut] + inj + ["call m t1" if len(prog) > 1 else "call m t0", "step 125", "step 1000", "step 1000"])
    # thread starts at labels that do not exist, every script form and every host form (deterministic)
    cases += schedgen.badlabel_family()
    return cases


def check(ctx):
    # the monitor runs on every implementation line, also where model and engine agree
    gens = [("reset", 400, 30000, reset_case), ("sync", 500, 20000, lambda r: schedgen.gen_case(r, schedgen.gen_sync_prog(r))),
            ("timer", 200, 10000, lambda r: schedgen.gen_case(r, schedgen.gen_timer_prog(r))),
            ("hub", 150, 8000, lambda r: schedgen.gen_case(r, schedgen.gen_hub_prog(r), ncalls=1)),
            ("badlabel", 300, 15000, schedgen.gen_badlabel_case)]
    rule = ("sync/timer programs under random schedules with director.Reset(), a recompile of the same script or of a different "
            "script injected at a random frame / host-call boundary, then compiled and run again; plus a fixed family with the "
            "injection at EVERY boundary; the same program classes with thread starts at labels that do not exist "
            "(thread / waitthread / exec / waitexec, on the thread itself, on an object, on level, in a second file, in a "
            "missing file, in statement and in expression position) and host calls of missing labels through every "
            "ExecuteThread overload, random and as a fixed family; every engine answer is also checked by the monitor idle=>all pools empty, "
            "alive=>not idle, every instance has a thread, Reset=>all pools empty; non-trivial = at least one accepted command; distinct by SHA-1")
    rc = schedcheck.run(ctx, PROP, PROPS_MODULE, PROPS_FILE, gens, TRUSTED, ASSUME, rule, exhaustive=every_boundary,
                        line_monitor=monitor)
    return rc


def replay(ctx, obj):
    return schedcheck.replay(ctx, PROP, obj)
