"""C13 — nothing outlives its script: idle means empty, reset means clean (DESIGN.md 7.4)."""
import os

from vlib import common, schedcheck, schedgen
from vlib.common import LEAN

PROPS_MODULE = "MorfuseModel.Props.C13"
PROPS_FILE = os.path.join(LEAN, "MorfuseModel", "Props", "C13.lean")

TRUSTED = [
    "Lean 4.33.0 kernel; axioms propext / Classical.choice / Quot.sound only (audited on every run)",
    "hand-written model lean/MorfuseModel/Sched/Machine.lean (instances, VM chains, thread destruction cascades, Reset, recompile), tied by the differential run against harness/engine.cpp; pool-level FreeAll is property C19's model and theorem",
    "renderer tools/vlib/schedgen.py; hook H1; g++/ASan/UBSan",
]
ASSUME = [
    "script-created objects are SimpleEntity instances named by target name and are not parked in persistent scopes; director.Reset() does not destroy them (they belong to the context) and the generator does not count them",
    "the machine-level invariant 'every live thread is in exactly one live instance chain' is not proved: it is observed through the pool counts after every command (cls/thr/vm/tim) and the monitor below",
]


def monitor(line):
    """the property as a predicate on one answer line of the real engine"""
    f = schedcheck.fields(line)
    if "idle" not in f:
        return None
    n = {k: int(f.get(k, "0")) for k in ("cls", "thr", "vm", "tim", "ev")}
    if f["idle"] == "1" and any(n.values()):
        return "idle reported while something is alive: " + line
    if (n["thr"] or n["vm"] or n["cls"] or n["tim"]) and f["idle"] == "1":
        return "live thread/VM/instance/timer but idle: " + line
    if n["cls"] == 0 and (n["thr"] or n["vm"] or n["tim"]):
        return "no script instance but threads/VMs/timers remain: " + line
    # between host operations no VM is on the native stack, so every script instance has at least one
    # thread (the last thread leaving deletes its instance; a failed start deletes the fresh instance)
    if n["cls"] and n["thr"] == 0:
        return "script instance(s) without any thread (nothing will ever delete them; the engine can never report idle): " + line
    return None


class Prop(schedcheck.SchedProp):
    def classify(self, lines, impl, crash, model):
        if not crash:
            for i, l in enumerate(impl):
                m = monitor(l)
                if m:
                    return "violation", "line %d: %s" % (i, m), "phi:idle-empty"
                if i < len(lines) and lines[i] == "reset-director":
                    f = schedcheck.fields(l)
                    if any(int(f.get(k, "0")) for k in ("cls", "thr", "vm", "tim")):
                        return "violation", "Reset left something alive: " + l, "phi:reset-clean"
        return super().classify(lines, impl, crash, model)


PROP = Prop(relevant={"out", "idle", "_status", "cls", "thr", "vm", "tim", "ev", "cur", "ret"},
            what="pools, timers, idle flag or the behaviour after Reset / recompile differ from the proved-and-compared machine")


def reset_case(rng):
    return schedgen.gen_reset_case(rng)


def every_boundary(quick):
    """a fixed family of programs with Reset / recompile injected at every frame and host-call boundary"""
    import random
    rng = random.Random(12345)
    cases = []
    for _ in range(6 if quick else 40):
        prog = schedgen.gen_sync_prog(rng)
        base = schedgen.gen_case(rng, prog, ncalls=2, nsteps=5)
        body = base[2:]
        for cut in range(1, len(body) + 1):
            for inj in (["reset-director", schedgen.script_line(prog)], [schedgen.script_line(prog)]):
                cases.append(base[:2] + body[:cut] + inj + ["call m t1" if len(prog) > 1 else "call m t0", "step 125", "step 1000", "step 1000"])
    # thread starts at labels that do not exist, every script form and every host form (deterministic)
    cases += schedgen.badlabel_family()
    return cases


def abort_family():
    """Engine-only (the machine has no abort path): a recursive start chain is refused by the native-stack
    depth guard (MaxStackDepth); whatever the abort leaves behind must be gone after Reset, after a recompile
    of its script, and after load + Reset.  (description, lines)"""
    cases = []
    starts = ["thread t0 (local.n + 1)", "waitthread t0 (local.n + 1)", "local.r = waitthread t0 (local.n + 1)",
              "level thread t0 (local.n + 1)", "local thread t0 (local.n + 1)"]
    for st in starts:
        src = ("t0 local.n:\nprintln (\"d\" + local.n)\n%s\nprintln (\"back\" + local.n)\nwait 0.125\n"
               "println (\"late\" + local.n)\nend\nt1:\nprintln \"other\"\nwait 0.125\nend\n" % st)
        sl = "script m " + src.encode().hex()
        for depth in (1, 3, 7):
            head = ["reset", "cfg depth %d" % depth, sl, "call m t0 i0", "step 0"]
            for mid in (["reset-director", sl], [sl], ["save", "load", "reset-director", sl], ["step 125", "reset-director", sl],
                        ["call m t0 i0", "reset-director", sl]):
                cases.append((st + " depth=%d then %s" % (depth, "+".join(m.split(" ")[0] for m in mid)),
                              head + mid + ["call m t1", "step 125", "step 1000", "reset-director"]))
    return cases


def recompile_mixed_family():
    """Engine-only (the machine holds one program): live instances of TWO scripts in every creation order of
    length 2..4; recompiling one script destroys exactly its instances (every one of them, none of the other
    script's).  (description, lines, {line index: expected instance = thread = VM = timer count})"""
    import itertools
    src = "t0:\nprintln \"a\"\nwait 10\nprintln \"b\"\nend\n"
    sm, sk = "script m " + src.encode().hex(), "script k " + src.encode().hex()
    cases = []
    for n in (2, 3, 4):
        for order in itertools.product("mk", repeat=n):
            if len(set(order)) < 2:
                continue
            for first in "mk":
                other = "k" if first == "m" else "m"
                lines = ["reset", sm, sk] + ["callv %s t0" % x for x in order]
                expect = {len(lines) - 1: n}
                lines.append(sm if first == "m" else sk)
                expect[len(lines) - 1] = order.count(other)
                lines.append("step 125")
                expect[len(lines) - 1] = order.count(other)
                lines.append("callv %s t0" % first)
                expect[len(lines) - 1] = order.count(other) + 1
                lines.append(sk if first == "m" else sm)
                expect[len(lines) - 1] = 1
                lines += ["step 20000", "reset-director"]
                expect[len(lines) - 2] = 0
                cases.append(("instances %s, recompile %s then %s" % ("".join(order), first, other), lines, expect))
    return cases


def engine_only_family(ctx, exe):
    """runs `abort_family` on the real engine only; every answer goes through the monitor, every Reset and
    every recompile of the only script must leave all pools empty, the last line must be idle and empty"""
    n = bad = 0
    for case in [c + ({},) for c in abort_family()] + recompile_mixed_family():
        desc, lines, expect = case
        impl, crash, info = common.run_lines(exe, [], lines, timeout=60)
        n += 1
        why = None
        if crash:
            why = "crash: " + crash
        elif len(impl) != len(lines):
            why = "engine answered %d lines for %d commands" % (len(impl), len(lines))
        else:
            for i, l in enumerate(impl):
                f = schedcheck.fields(l)
                m = monitor(l)
                if not m and i in expect and any(f.get(k) != str(expect[i]) for k in ("cls", "thr", "vm", "tim")):
                    m = "exactly %d instance(s) / thread(s) / VM(s) / timer entries must be alive here: %s" % (expect[i], l)
                if not m and not expect and i > 2 and (lines[i] == "reset-director" or lines[i].startswith("script ")) and any(
                        int(f.get(k, "0")) for k in ("cls", "thr", "vm", "tim")):
                    m = "Reset / recompile left something alive: " + l
                if not m and i == len(impl) - 1 and f.get("idle") != "1":
                    m = "not idle at the end: " + l
                if m:
                    why = "line %d `%s`: %s" % (i, lines[i][:40], m)
                    break
        if why is None:
            continue
        bad += 1
        if bad <= 3:
            sig = crash if crash else ("phi:recompile-exactly-old-instances" if expect else "phi:abort-then-clean")
            replay = common.save_replay(ctx, {
                "property": "C13", "kind": "engine-only family", "case": desc, "lines": lines, "impl_out": impl,
                "expect_counts": {str(k): v for k, v in expect.items()},
                "crash": crash, "crash_info": info if crash else "", "signature": sig, "why": why,
                "how_to_replay": "python3 tools/check.py C13 --replay <this file>"})
            ctx.violations.append({"signature": sig, "replay": replay, "why": why, "found_input": True})
    ctx.oblige("engine-only: MaxStackDepth abort of a recursive start chain, then Reset / recompile / load leave nothing; "
               "recompile with live instances of two scripts kills exactly the old instances (%d scenarios)" % n,
               bad == 0, "%d failing" % bad, reported=True)
    ctx.stats["abort_family_scenarios"] = n
    return bad


def check(ctx):
    # the monitor runs on every implementation line, also where model and engine agree
    gens = [("reset", 400, 30000, reset_case), ("sync", 500, 20000, lambda r: schedgen.gen_case(r, schedgen.gen_sync_prog(r))),
            ("timer", 200, 10000, lambda r: schedgen.gen_case(r, schedgen.gen_timer_prog(r))),
            ("hub", 150, 8000, lambda r: schedgen.gen_case(r, schedgen.gen_hub_prog(r), ncalls=1)),
            ("badlabel", 300, 15000, schedgen.gen_badlabel_case)]
    rule = ("sync/timer programs under random schedules with director.Reset(), a recompile of the same script or of a different "
            "script injected at a random frame / host-call boundary, then compiled and run again; plus a fixed family with the "
            "injection at EVERY boundary; the same program classes with thread starts at labels that do not exist "
            "(thread / waitthread / exec / waitexec, on the thread itself, on an object, on level, in a second file, in a "
            "missing file, in statement and in expression position) and host calls of missing labels through every "
            "ExecuteThread overload, random and as a fixed family; every engine answer is also checked by the monitor idle=>all pools empty, "
            "alive=>not idle, every instance has a thread, Reset=>all pools empty; non-trivial = at least one accepted command; distinct by SHA-1")
    rc = schedcheck.run(ctx, PROP, PROPS_MODULE, PROPS_FILE, gens, TRUSTED, ASSUME, rule, exhaustive=every_boundary,
                        line_monitor=monitor, extra_engine=engine_only_family)
    return rc


def replay(ctx, obj):
    if obj.get("kind") == "engine-only family":
        exe = schedcheck.build_engine(ctx)
        impl, crash, info = common.run_lines(exe, [], obj["lines"], timeout=60)
        for l, a in zip(obj["lines"], impl):
            print("> %s\n  impl : %s%s" % (l[:60], a, "   <-- " + monitor(a) if monitor(a) else ""))
        if crash:
            print("CRASH", crash); print(info)
        bad = crash is not None or impl != obj.get("impl_out")
        exp = obj.get("expect_counts") or {}
        if exp:
            still = crash is not None or any(monitor(a) for a in impl) or any(
                schedcheck.fields(impl[int(i)]).get(k) != str(v) for i, v in exp.items() if int(i) < len(impl) for k in ("cls", "thr", "vm", "tim"))
        else:
            still = crash is not None or any(monitor(a) for a in impl) or any(
                int(schedcheck.fields(a).get(k, "0")) for l, a in list(zip(obj["lines"], impl))[3:] if l == "reset-director" or l.startswith("script ")
                for k in ("cls", "thr", "vm", "tim"))
        print("replay:", "still fails" if still else "no failure")
        return 1 if still else 0
    return schedcheck.replay(ctx, PROP, obj)
