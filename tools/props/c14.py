"""C14 — runaway and over-deep scripts are stopped and the engine recovers (DESIGN.md 7.4, notes/C14-design.md).

Proof side: lean/MorfuseModel/Props/C14.lean (guard arithmetic + the theorems about the unwind model
lean/MorfuseModel/Unwind/Model.lean).  Tie: every scenario is run on the real engine (harness/engine.cpp in
its `c14reset` observation mode, injected clock H1) and on the compiled unwind model (`driver unwind`), and
the answers are compared line by line: outcome class of every host call, `m_CurrentThread` /
`m_PreviousThread` set or not, `ScriptExecutionStack::stackDepth`, instance / thread / VM pool counters, timer
length, the injected clock (= number of opcodes executed), markers printed (sentinel order) and what reached
each diagnostic stream (Debug / Warn / Error blocks, Verbose frame depths)."""
import os

from vlib import common
from vlib.common import Diff, LEAN
from vlib import schedcheck, unwindgen

AREA = "unwind"
PROPS_MODULE = "MorfuseModel.Props.C14"
PROPS_FILE = os.path.join(LEAN, "MorfuseModel", "Props", "C14.lean")

TRUSTED = [
    "Lean 4.33.0 kernel; axioms propext / Classical.choice / Quot.sound only (audited on every run)",
    "hand-written unwind model lean/MorfuseModel/Unwind/Model.lean (transcription of ScriptVM::Execute/Process, HandleScriptException[Abort], ScriptExecutionStack, ScriptThread::Execute/ScriptExecuteInternal/Resume, ScriptMaster::ExecuteRunning/ExecuteThread, ScriptContext::Execute) and guard model Sched/Guard.lean; tied to the engine only through the scenarios below",
    "renderer tools/vlib/unwindgen.py: script text and opcode-level abstract program of each statement template (a wrong opcode count shows as a `clk` difference)",
    "harness/engine.cpp `c14reset` observation mode (reads m_CurrentThread, m_PreviousThread, stackDepth, pool counters with -fno-access-control; counts diagnostic blocks per stream)",
    "hook H1: injected clock that advances a fixed amount per reading stands for real time passing while a script runs",
]
ASSUME = [
    "the theorems are about the unwind model; that the engine behaves like the model is compared on the generated scenarios (all program families x configurations below), not proved",
    "loop protection off + a loop that never ends blocks the host by design, and a loop that yields in every round (`waitthread`/`wait 0` in the body) gets a fresh deadline at every resumption: neither is generated (the model answers `hang` for them and such cases are dropped before the engine runs)",
    "no crash = no signal, no sanitizer report (ASan + UBSan subset) during the scenario",
]

# fields of an answer line the property itself speaks about; the others (clock, per-stream diagnostics,
# m_PreviousThread) are representation: a difference there breaks the correspondence only
RELEVANT = ("_status", "out", "cur", "depth", "idle", "cls", "thr", "vm", "tim")


class Prop:
    def classify(self, lines, impl, crash, model):
        if crash:
            return "violation", "the host crashed / hung / sanitizer report during an interruption scenario: " + crash, crash
        first_other = None
        for i in range(max(len(impl), len(model))):
            a = impl[i] if i < len(impl) else "<missing>"
            b = model[i] if i < len(model) else "<missing>"
            cmd = lines[i] if i < len(lines) else "?"
            if cmd.startswith("script "):
                cmd = "script … ## " + cmd.split("## ", 1)[-1]
            fa, fb = schedcheck.fields(a), schedcheck.fields(b)
            if a != b:
                diff = sorted(k for k in set(fa) | set(fb) if fa.get(k) != fb.get(k))
                why = "line %d `%s`: engine `%s` vs unwind model `%s` (fields %s)" % (i, cmd, a, b, ",".join(diff))
                rel = [k for k in diff if k in RELEVANT]
                if rel:
                    return "violation", why, "diff:" + "+".join(rel) + ":" + fb.get("_status", "?").replace(" ", "-")
                if first_other is None:
                    first_other = (why, diff)
            if monitor(a):
                return "violation", "line %d `%s`: engine answers `%s`: a thread is still current / the nesting counter is not back to 0 between host calls" % (i, cmd, a), "monitor:" + fa.get("cur", "?") + ":" + fa.get("depth", "?")
        if first_other is None:
            return "harmless", "no difference", "none"
        why, diff = first_other
        return "harmless", why + " — differs only in fields the property does not speak about", "diff-other:" + "+".join(diff)


def monitor(line):
    """property clause checked on every engine answer, independent of the model: between host calls no
    thread is current (else ExecuteRunning never resumes anything) and the nesting counter is 0"""
    if " depth=" not in line:
        return False
    f = schedcheck.fields(line)
    return f.get("cur") != "0" or f.get("depth") != "0"


def build(ctx):
    return common.build_full(ctx, "h_engine", ["engine.cpp"])


def scenarios(ctx, n, salt):
    """generate n scenarios; those the model does not finish (`hang`: outside the property's class) are dropped"""
    rng = ctx.rng(salt)
    cases, kinds = [], []
    off = rng.randrange(64)
    for i in range(n):
        # every combination of {Output, Warn, Debug, Error, Verbose attached} x developer mode, in turn
        lines, kind = unwindgen.scenario(rng, combo=(off + 37 * i) % 64)
        cases.append(("scen:%s:%d:%s" % (salt, i, kind), lines))
        kinds.append(kind)
    allines = [l for _, c in cases for l in c]
    out = common.run_model(AREA, allines)
    if len(out) != len(allines):
        raise common.CheckError("unwind driver produced %d lines for %d inputs" % (len(out), len(allines)))
    keep, hang, pos = [], 0, 0
    hist = {}
    for (name, c), kind in zip(cases, kinds):
        o = out[pos:pos + len(c)]
        pos += len(c)
        if any(x == "hang" or x == "ub" or x == "bad-op" for x in o):
            hang += 1
            continue
        keep.append((name, c))
        fam = kind
        hist[fam] = hist.get(fam, 0) + 1
        for x in o:
            if x.startswith("err "):
                k = "outcome:" + x.split()[1]
                hist[k] = hist.get(k, 0) + 1
    return keep, hang, hist


def check(ctx):
    prop = Prop()
    common.proof_side(ctx, PROPS_MODULE, PROPS_FILE)
    if ctx.tier == "thorough":
        common.leanchecker(ctx, PROPS_MODULE)
    exe = build(ctx)
    d = Diff(ctx, prop, exe, AREA)
    d.base_timeout = 25
    d.line_monitor = monitor
    bad = d.run_batch([c for c in schedcheck.corpus_cases("C14")])
    n = 160 if ctx.tier == "quick" else 8000
    total_hang, hist = 0, {}
    done = 0
    while done < n:
        m = min(400, n - done)
        cases, hang, h = scenarios(ctx, m, "unw%d" % done)
        done += m
        total_hang += hang
        for k, v in h.items():
            hist[k] = hist.get(k, 0) + v
        for i in range(0, len(cases), 20):
            bad += d.run_batch(cases[i:i + 20])
    ctx.oblige("engine == unwind model, observation by observation, on %d scenarios (%d answer lines; monitor: no current thread, nesting counter 0 between host calls)" % (d.cases, d.lines),
               bad == 0 and d.failing_cases == 0, "%d differing" % max(bad, d.failing_cases), reported=True)
    s, _ = unwindgen.scenario(ctx.rng("sample"))
    ctx.samples = [l if not l.startswith("script ") else "script m <hex> ## " + l.split("## ", 1)[1] for l in s][:14]
    cov = {"evaluations": d.cases, "answer_lines_compared": d.lines, "distinct_nontrivial": len(d.distinct),
           "families_and_outcomes": hist, "dropped_model_hang": total_hang,
           "rule": "scenario = abstract program of the unwind model's class (non-yielding while/for/do/goto loops with filler, thread-spawning and error-raising bodies; counted loops that cross the deadline; chains of thread/waitthread calls around the nesting limit ending in end / loop / abort / wait; mutual thread recursion; notify ping-pong with 1-3 waiters; abort raised inside a thread woken by notify with other waiters pending) rendered to script text + opcode-level abstract form, x started by the host call or resumed by the scheduler after a first wait (late) x protection on/off x limit {0,1,10,100} ms x clock step {0,1,2,3,7} x nesting limit {1,5,20} x every combination of Output/Warn/Debug/Error/Verbose stream attached or not x developer mode (all 64 in turn) x 1-3 interruptions in a row, followed by the recovery probes (sentinel due, new host call, Reset + recompile + host call); every answer line of every command is compared",
           "exhaustive": False, "skipped_after_failures": d.skipped}
    return common.finish(ctx, "proof", cov, TRUSTED, ASSUME,
                         "cd lean && lake build && #print axioms audit; python3 tools/check.py C14")


def replay(ctx, obj):
    common.lake_build()
    exe = build(ctx)
    area = obj.get("area", AREA)
    d = Diff(ctx, Prop(), exe, area)
    d.base_timeout = 60
    impl, crash, info, model = d.both(obj["lines"])
    print("impl :", impl, "\nmodel:", model)
    if crash:
        print("CRASH", crash); print(info)
    bad = crash is not None or common.first_diff(impl, model) is not None or any(monitor(l) for l in impl)
    print("replay:", "still differs" if bad else "no difference")
    return 1 if bad else 0
