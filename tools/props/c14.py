"""C14 — runaway and over-deep scripts are stopped and the engine recovers (DESIGN.md 7.4)."""
import itertools
import os

from vlib import common
from vlib.common import Diff, LEAN
from vlib import schedcheck

AREA = "guard"
PROPS_MODULE = "MorfuseModel.Props.C14"
PROPS_FILE = os.path.join(LEAN, "MorfuseModel", "Props", "C14.lean")

TRUSTED = [
    "Lean 4.33.0 kernel; axioms propext / Classical.choice / Quot.sound only (audited on every run)",
    "hand-written guard model lean/MorfuseModel/Sched/Guard.lean of ScriptVM::Execute/Process time check and ScriptExecutionStack",
    "the composite scenario `c14` in harness/engine.cpp (sentinel thread, runaway program, recovery observations) and the program templates below",
    "hook H1: injected clock that advances a fixed amount per reading stands for real time passing while a script runs",
]
ASSUME = [
    "the recovery clauses (no crash whatever streams are attached, scheduler still resumes a waiting thread, new host call, reset) are observed on the real engine and compared with the constant expectation of the property; they are runtime facts, not theorems",
    "loop protection off + infinite loop blocks the host by design and is not generated; with protection off only loops that cross the deadline and then finish are run",
]

SENTINEL = 'sentinel:\nprintln "s1"\nwait 0.5\nprintln "s2"\nend\nping:\nprintln "pong"\nend\n'

INF_BODIES = [
    "while (1) { local.i++ }",
    "for (local.i = 0; 1; local.i++) { local.j = local.i }",
    "l1:\nlocal.i++\ngoto l1",
    "while (1) { local.i = local.i + 1; if (local.i > 1000000) { local.i = 0 } }",
    "local.i = 0\nwhile (local.i >= 0) { local.i++; local.k = local.i * 2 }",
    "while (1) { thread noop }",
    "do { local.i++ } while (1)",
]
# not generated: `while (1) { waitthread noop }` / `while (1) { wait 0 }` — these *yield* (zero delay), every
# resumption gets a fresh deadline and the scheduler loop never returns to the host; outside C14's
# "non-yielding" class (recorded in DESIGN.md section 8 as an observation).


def prog_inf(rng):
    body = rng.choice(INF_BODIES)
    return "prog:\n" + body + "\nend\nnoop:\nend\n" + SENTINEL, "inf 0"


def prog_fin(rng, k):
    bodies = [
        "for (local.i = 0; local.i < %d; local.i++) { local.j = local.i }" % k,
        "local.i = 0\nwhile (local.i < %d) { local.i++ }" % k,
    ]
    return "prog:\n" + rng.choice(bodies) + "\nprintln \"done\"\nend\n" + SENTINEL, "fin %d" % k


def prog_rec(rng, k):
    call = rng.choice(["thread", "waitthread"])
    src = ("prog:\n%s rec %d\nend\nrec local.n:\nif (local.n > 1) { %s rec (local.n - 1) }\nend\n" % (call, k, call)) + SENTINEL
    return src, "rec %d" % k


def case(rng):
    streams = "".join(rng.choice("01") for _ in range(5))
    dev = rng.choice("01")
    r = rng.random()
    if r < 0.4:
        src, kind = prog_inf(rng)
        mx, st, prot, depth = rng.choice([1, 10, 100]), rng.choice([1, 2, 7]), 1, rng.choice([5, 20])
    elif r < 0.65:
        mx, st = rng.choice([1, 10, 100]), rng.choice([1, 3])
        src, kind = prog_fin(rng, 4 * mx // st + rng.randint(5, 40))
        prot, depth = 0, 20
    else:
        depth = rng.choice([1, 5, 20])
        k = rng.choice([1, depth - 1, depth, depth + 1, depth + 3]) if depth > 1 else rng.choice([1, 2, 3])
        src, kind = prog_rec(rng, max(1, k))
        mx, st, prot = rng.choice([10, 100]), 0, rng.choice([0, 1])
    late = ""
    if rng.random() < 0.35:
        # the same program, but it yields once first, so that the runaway / over-deep part executes in a
        # thread resumed by the scheduler (ExecuteRunning) instead of directly under the host call
        src = src.replace("prog:\n", "prog:\nwait 0.125\n", 1)
        late = " late"
    return ["c14 %s prot=%d max=%d step=%d depth=%d streams=%s dev=%s ## %s%s" % (src.encode().hex(), prot, mx, st, depth, streams, dev, kind, late)]


class Prop:
    def classify(self, lines, impl, crash, model):
        if crash:
            return "violation", "the host crashed / sanitizer report during an interruption scenario: " + crash, crash
        i = common.first_diff(impl, model)
        a = impl[i] if i < len(impl) else "<missing>"
        b = model[i] if i < len(model) else "<missing>"
        cfg = lines[i].split(" ", 2)[2] if i < len(lines) else "?"
        fa, fb = schedcheck.fields(a), schedcheck.fields(b)
        diff = sorted(k for k in set(fa) | set(fb) if fa.get(k) != fb.get(k))
        return "violation", "scenario `%s`: engine `%s`, required `%s`" % (cfg, a, b), "diff:" + "+".join(diff) + ":" + fa.get("outcome", "?")


def build(ctx):
    return common.build_full(ctx, "h_engine", ["engine.cpp"])


def check(ctx):
    prop = Prop()
    common.proof_side(ctx, PROPS_MODULE, PROPS_FILE)
    if ctx.tier == "thorough":
        common.leanchecker(ctx, PROPS_MODULE)
    exe = build(ctx)
    d = Diff(ctx, prop, exe, AREA)
    d.base_timeout = 60
    bad = d.run_batch(schedcheck.corpus_cases("C14"))
    rng = ctx.rng("scen")
    n = 60 if ctx.tier == "quick" else 5000
    batch = []
    for i in range(n):
        batch.append(("scen:%d" % i, case(rng)))
        if len(batch) == 20:
            bad += d.run_batch(batch); batch = []
    bad += d.run_batch(batch)
    ctx.oblige("engine outcome and recovery == guard model + required recovery on %d scenarios" % d.cases,
               bad == 0 and d.failing_cases == 0, "%d differing" % max(bad, d.failing_cases), reported=True)
    s = case(ctx.rng("sample"))[0]
    ctx.samples = ["c14 <hex of: prog/rec/sentinel/ping script> " + s.split(" ", 2)[2]]
    kinds = {}
    cov = {"evaluations": d.cases, "distinct_nontrivial": len(d.distinct),
           "rule": "scenario = (program template: 7 infinite-loop shapes incl. goto cycles and thread/waitthread spawning loops, finite loops crossing the deadline with protection off, thread/waitthread recursion to a chosen depth) x started directly by the host call or resumed by the scheduler after a first wait x protection x limit {1,10,100} ms x clock step x nesting limit {1,5,20} x attached-stream subsets x developer flag; every scenario is non-trivial (runs the sentinel, the program, and four recovery probes); distinct by SHA-1",
           "exhaustive": False, "skipped_after_failures": d.skipped}
    return common.finish(ctx, "proof", cov, TRUSTED, ASSUME,
                         "cd lean && lake build && #print axioms audit; python3 tools/check.py C14")


def replay(ctx, obj):
    common.lake_build()
    exe = build(ctx)
    d = Diff(ctx, Prop(), exe, AREA)
    d.base_timeout = 60
    impl, crash, info, model = d.both(obj["lines"])
    print("impl :", impl, "\nmodel:", model)
    if crash:
        print("CRASH", crash); print(info)
    bad = crash is not None or common.first_diff(impl, model) is not None
    print("replay:", "still differs" if bad else "no difference")
    return 1 if bad else 0
