"""C15 — `$name` denotes exactly the live objects currently bearing that target name (DESIGN.md 7.8)."""
import glob
import json
import os

from vlib import common
from vlib.common import Diff, VERIF, LEAN

AREA = "target"
PROPS_MODULE = "MorfuseModel.Props.C15"
PROPS_FILE = os.path.join(LEAN, "MorfuseModel", "Props", "C15.lean")
MAXOBJ = 8
NAMES = [2, 3, 4, 5]          # "n1".."n4"; 1 = "" (ConstStrings::Empty), 0 = empty StringResolvable

TRUSTED = [
    "Lean 4.33.0 kernel (lake build; leanchecker in the thorough tier)",
    "axioms allowed: propext, Classical.choice, Quot.sound (audited by #print axioms on every run)",
    "hand-written model lean/MorfuseModel/Target/Model.lean of TargetList.cpp, TargetComponent.cpp, SimpleEntity.cpp, OP_UN_TARGETNAME / ExecCmdMethodCommon / OP_LOAD_FIELD_VAR and the Container cases of ScriptVariable.cpp, tied by the differential correspondence (harness/target.cpp vs lean driver) at host level and at script level",
    "weak references are modelled abstractly (Option ObjId, nulled exactly when the object is destroyed): this is theorem C12_destroy_nulls_exactly of the SafePtr layer, not re-proved here",
    "the script renderer in tools/props/c15.py (abstract statement -> script text)",
    "g++ 12 / ASan + hook H2 (pool slot poisoning) for 'a read through a pointer to a freed table entry is reported'",
]
ASSUME = [
    "output streams: Output and Error always attached; Debug attached in about a third of the cases (its text is not compared), Warn detached in about an eighth (no warning lines, everything else compared), developer mode in about a seventh (source-position lines dropped by the harness)",
    "objects are SimpleEntity instances created by `spawn` / `new`; raw AddListener/RemoveListener calls from a host (which can register an object under a name it does not bear) are outside the property's quantifier",
    "an access through a pointer to a freed table entry is undefined behaviour: the model answers `ub`, the case ends there, and whatever the implementation does on that line is accepted (a sanitizer report on it is recorded as the D16 finding)",
]


def header(cfg):
    """snapshot / fieldfan: which code the model follows (from the probes); dbg / warn / dev: which
    output streams the harness attaches to the context for this case (and the model is told)"""
    return "universe snapshot=%d fieldfan=%d max=%d dbg=%d warn=%d dev=%d" % (
        cfg["snapshot"], cfg["fieldfan"], MAXOBJ, cfg.get("dbg", 0), cfg.get("warn", 1), cfg.get("dev", 0))


def pick_streams(rng):
    """about a third of the cases run with a Debug stream attached (OP_UN_TARGETNAME then reports a
    missing target), some without a Warn stream (warnings are not printed; nothing else may change),
    some in developer mode (source positions in front of warnings)"""
    return {"dbg": 1 if rng.random() < 0.35 else 0, "warn": 0 if rng.random() < 0.12 else 1,
            "dev": 1 if rng.random() < 0.15 else 0}


# ---------------------------------------------------------------------------------------------
# host level generator

def gen_host(rng, n, cfg, nnames=4):
    lines = [header(cfg)]
    alive, count = [], 0
    names = [0, 1] + NAMES[:nnames]
    for _ in range(n):
        x = rng.random()
        if x < 0.02:
            # illegal: dead / unknown object
            lines.append(rng.choice(["setname %d 2", "delete %d", "index %d 2", "getnext %d 3"]) % rng.randint(0, MAXOBJ + 1))
        elif x < 0.17:
            if count < MAXOBJ:
                count += 1; alive.append(count); lines.append("spawn")
        elif x < 0.55:
            if alive:
                nm = rng.choice(names) if rng.random() < 0.2 else rng.choice(NAMES[:nnames])
                lines.append("setname %d %d" % (rng.choice(alive), nm))
        elif x < 0.65:
            if alive and rng.random() < 0.7:
                o = rng.choice(alive); alive.remove(o); lines.append("delete %d" % o)
        elif x < 0.78:
            lines.append("gettarget %d" % rng.choice(names))
        elif x < 0.90:
            lines.append("getnext %d %d" % (rng.choice([0] + alive), rng.choice(names)))
        else:
            if alive:
                lines.append("index %d %d" % (rng.choice(alive), rng.choice(names)))
    return lines


def exhaustive_host(depth, cfg, nobj=3, names=(1, 2, 3)):
    """every history of `depth` mutating operations over nobj objects and the given names; after
    every operation the whole table is compared"""
    out = []

    def rec(prefix, alive, count, d):
        if d == 0:
            q = []
            for nm in names:
                q.append("gettarget %d" % nm)
                for o in [0] + sorted(alive):
                    q.append("getnext %d %d" % (o, nm))
                for o in sorted(alive):
                    q.append("index %d %d" % (o, nm))
            out.append([header(cfg)] + prefix + q)
            return
        if count < nobj:
            rec(prefix + ["spawn"], alive | {count + 1}, count + 1, d - 1)
        for o in sorted(alive):
            for nm in names:
                rec(prefix + ["setname %d %d" % (o, nm)], alive, count, d - 1)
            rec(prefix + ["delete %d" % o], alive - {o}, count, d - 1)
    rec([], frozenset(), 0, depth)
    return out


# ---------------------------------------------------------------------------------------------
# script level: abstract statements (the syntax read by lean/Driver/Target.lean) and their rendering

def name_lit(n):
    return '""' if n == 1 else '"n%d"' % (n - 1)


def name_expr(n, rng):
    if n == 1:
        return '$("")'
    return rng.choice(["$n%d", '$("n%d")', "$n%d"]) % (n - 1)


def who_expr(w):
    return "self" if w == "self" else "level.o[%s]" % w[1:]


def src_expr(x, rng):
    return name_expr(int(x[1:]), rng) if x[0] == "$" else "level.%s" % x


class Renderer:
    """abstract statement (token list) -> script text.  Every statement is its own script, run in
    the same context: objects are `level.o[k]` (k = creation order, `level.n` objects so far),
    captured values are `level.v<k>`."""

    def __init__(self, rng):
        self.rng = rng
        self.k = 0

    def fresh(self):
        self.k += 1
        return self.k

    def act(self, t):
        rng = self.rng
        op = t[0]
        if op == "spawn":
            n = int(t[1])
            arg = (" targetname " + name_lit(n)) if n else ""
            return ["if (level.n < %d) {" % MAXOBJ, "level.n++", "local.s = spawn SimpleEntity" + arg,
                    "local.s.id = level.n", "local.s.cnt = 0", "local.s.fld = 0", "level.o[level.n] = local.s",
                    'println ("sp " + level.n)', "} else {", 'println "full"', "}"]
        if op == "setname":
            w, n = who_expr(t[1]), name_lit(int(t[2]))
            return [rng.choice(["%s.targetname = %s", "%s targetname %s"]) % (w, n)]
        if op == "delete":
            return ["%s %s" % (who_expr(t[1]), rng.choice(["remove", "delete", "immediateremove"]))]
        if op == "mark":
            w = who_expr(t[1])
            return ["if (%s) {" % w, "%s.cnt = %s.cnt + 1" % (w, w), "} else {", 'println "m0"', "}"]
        if op == "hello":
            return ["if (self) {", 'println ("h " + self.id)', "} else {", 'println "h0"', "}"]
        if op == "capture":
            return ["level.v%s = %s" % (t[1], name_expr(int(t[2]), rng))]
        if op == "copy":
            return ["level.v%s = level.v%s" % (t[1], t[2])]
        if op == "query":
            k = self.fresh()
            x, i, e = "local.x%d" % k, "local.i%d" % k, "local.e%d" % k
            return ["%s = %s" % (x, src_expr(t[1], rng)),
                    'println ("q " + (typeof %s) + " " + %s.size)' % (x, x),
                    "for (%s = 1; %s <= %s.size; %s++) {" % (i, i, x, i),
                    "%s = %s[%s]" % (e, x, i),
                    "if (%s) {" % e, 'println ("e " + %s.id)' % e, "} else {", 'println "e 0"', "}", "}"]
        if op == "size":
            return ['println ("s " + %s.size)' % src_expr(t[1], rng)]
        if op == "index":
            e = "local.e%d" % self.fresh()
            return ["%s = %s[%s]" % (e, src_expr(t[1], rng), t[2]),
                    "if (%s) {" % e, 'println ("i " + %s.id)' % e, "} else {", 'println "i 0"', "}"]
        raise ValueError("unknown act " + " ".join(t))

    def stmt(self, t):
        rng = self.rng
        op = t[0]
        body, labels = [], []
        if op == "init":
            body = ["level.n = 0"]
        elif op == "fan":
            acts, cur = [], []
            for tok in t[2:]:
                if tok == ";":
                    acts.append(cur); cur = []
                else:
                    cur.append(tok)
            if cur:
                acts.append(cur)
            body = ["%s thread handler" % src_expr(t[1], rng)]
            labels = ["handler:"] + [l for a in acts for l in self.act(a)] + ["end"]
        elif op == "fanname":
            body = ["%s targetname %s" % (src_expr(t[1], rng), name_lit(int(t[2])))]
        elif op == "fandelete":
            body = ["%s %s" % (src_expr(t[1], rng), rng.choice(["remove", "delete"]))]
        elif op == "fieldset":
            body = ["%s.fld = %s" % (src_expr(t[1], rng), t[2])]
        elif op == "fieldtarget":
            # setter-backed field (EV_SimpleEntity_SetterTarget): the value goes through executeSetter
            body = ['%s.target = "t%s"' % (src_expr(t[1], rng), t[2])]
        elif op == "fieldname":
            # setter-backed field targetname: on a group this renames every member (field path, not the command)
            body = ["%s.targetname = %s" % (src_expr(t[1], rng), name_lit(int(t[2])))]
        else:
            body = self.act(t)
        return "\n".join(["main:"] + body + ["end"] + labels) + "\n"


def sline(rd, toks):
    src = rd.stmt(toks)
    return "s %s ## %s" % (src.encode().hex(), " ".join(toks))


def gen_simple_act(rng, nobj, nnames, in_handler):
    """one simple statement, mostly meaningful"""
    names = NAMES[:nnames]
    nm = lambda: (rng.choice(names) if rng.random() < 0.9 else 1)
    who = lambda: ("self" if in_handler and rng.random() < 0.5 else "o%d" % rng.randint(1, max(1, min(MAXOBJ, nobj + (1 if rng.random() < 0.05 else 0)))))
    src = lambda: ("$%d" % nm() if rng.random() < 0.6 else "v%d" % rng.randint(1, 3))
    x = rng.random()
    if x < 0.12:
        return ["spawn", str(rng.choice([0] + names + names))]
    if x < 0.40:
        return ["setname", who(), str(nm())]
    if x < 0.52:
        return ["delete", who()]
    if x < 0.58:
        return ["mark", who()]
    if x < 0.68:
        return ["capture", str(rng.randint(1, 3)), str(nm())]
    if x < 0.72:
        return ["copy", str(rng.randint(1, 3)), str(rng.randint(1, 3))]
    if x < 0.84:
        return ["query", src()]
    if x < 0.90:
        return ["size", src()]
    return ["index", src(), str(rng.randint(0, 4))]


def gen_stmt(rng, nobj, nnames):
    names = NAMES[:nnames]
    nm = lambda: (rng.choice(names) if rng.random() < 0.9 else 1)
    src = lambda: ("$%d" % nm() if rng.random() < 0.7 else "v%d" % rng.randint(1, 3))
    x = rng.random()
    if x < 0.62:
        return gen_simple_act(rng, nobj, nnames, False)
    if x < 0.80:
        acts = [["hello"], ["mark", "self"]]
        for _ in range(rng.choice([0, 1, 1, 2, 3])):
            acts.append(gen_simple_act(rng, nobj, nnames, True))
        toks = ["fan", src()]
        for i, a in enumerate(acts):
            if i:
                toks.append(";")
            toks += a
        return toks
    if x < 0.88:
        return ["fanname", src(), str(nm())]
    if x < 0.91:
        return ["fandelete", src()]
    if x < 0.94:
        return ["fieldset", src(), str(rng.randint(1, 99))]
    if x < 0.97:
        return ["fieldtarget", src(), str(rng.randint(1, 99))]
    return ["fieldname", src(), str(nm())]


def gen_script_case(rng, n, cfg, nnames=4):
    """abstract statements only (token lists); rendering happens in `render_case`"""
    stmts = []
    nobj = 0
    # start with a few named objects so that groups exist early
    for _ in range(rng.choice([0, 2, 3, 4])):
        stmts.append(["spawn", str(rng.choice(NAMES[:nnames]))]); nobj += 1
    for _ in range(n):
        t = gen_stmt(rng, nobj, nnames)
        if t[0] == "spawn":
            nobj = min(MAXOBJ, nobj + 1)
        stmts.append(t)
    return stmts


def gen_setter_case(rng, nnames=3):
    """directed family: setter-backed field assignments (`.target`, `.targetname`) on `$name` groups of 2..5
    members (and on captured groups), then every member's field and both groups are observed (the dump after
    every statement carries the whole table, every live object's target and cached targetname; `size` /
    `query` read `$h.size` and the elements through the script)"""
    names = NAMES[:nnames]
    g = rng.choice(names)
    h = rng.choice([n for n in names if n != g])
    stmts = []
    k = rng.randint(2, 5)
    pre = [g] * k + [h] * rng.choice([0, 0, 1, 2])
    rng.shuffle(pre)
    for n in pre:
        stmts.append(["spawn", str(n)])
    if rng.random() < 0.3:
        stmts.append(["capture", "1", str(g)])
    for _ in range(rng.randint(1, 4)):
        x = rng.random()
        src = "$%d" % g if rng.random() < 0.8 else "v1"
        if x < 0.45:
            stmts.append(["fieldtarget", src, str(rng.randint(1, 99))])
        elif x < 0.55:
            stmts.append(["fieldset", src, str(rng.randint(1, 99))])
        elif x < 0.65:
            stmts.append(["setname", "o%d" % rng.randint(1, len(pre)), str(rng.choice(names))])
        elif x < 0.72:
            stmts.append(["delete", "o%d" % rng.randint(1, len(pre))])
        else:
            stmts.append(["fieldname", src, str(h if rng.random() < 0.8 else rng.choice(names))])
            stmts += [["size", "$%d" % h], ["query", "$%d" % h], ["query", "$%d" % g]]
            if rng.random() < 0.5:
                g, h = h, g
    stmts += [["query", "$%d" % g], ["size", "$%d" % h], ["query", "$%d" % h]]
    return stmts


def render_case(rng, cfg, stmts):
    rd = Renderer(rng)
    return [header(cfg)] + [sline(rd, t) for t in stmts]


# ---------------------------------------------------------------------------------------------

class Prop:
    def classify(self, lines, impl, crash, model):
        if crash:
            return "violation", "implementation crashed / sanitizer report: " + crash, crash
        i = common.first_diff(impl, model)
        why = "line %d `%s`: implementation says `%s`, proved model says `%s`" % (
            i, (lines[i] if i < len(lines) else "?").split("## ")[-1][:200], impl[i] if i < len(impl) else "<missing>",
            model[i] if i < len(model) else "<missing>")
        l = lines[i] if i < len(lines) else "?"
        op = l.split(" ")[0]
        if op == "s" and "##" in l:
            op = "script:" + l.split("## ", 1)[1].split(" ")[0]
        if op == "getnext":
            # C15 does not say what GetNextTarget returns (it returns its argument today, findings
            # O1): a change there breaks the correspondence, not the property
            return "harmless", why + " [GetNextTarget is outside C15's statement]", "diff:" + op
        return "violation", why, "diff:" + op


def corpus_cases():
    res = []
    for p in sorted(glob.glob(os.path.join(VERIF, "corpus", "C15", "*.json"))):
        res.append(("corpus:" + os.path.basename(p), json.load(open(p))))
    return res


def build(ctx):
    return common.build_full(ctx, "h_target", ["target.cpp"])


# ---------------------------------------------------------------------------------------------
# which code is it?  (the model has a flag for each of the two suggested repairs, so that the check
# follows the tree: see notes/C15-findings.md)

FIELD_PROBE = [["spawn", "2"], ["spawn", "2"], ["fieldset", "$2", "7"]]
VALUE_PROBE = [["spawn", "2"], ["spawn", "2"], ["capture", "1", "2"], ["spawn", "2"], ["query", "v1"]]
D16_WITNESS = [["spawn", "2"], ["spawn", "2"], ["capture", "1", "2"], ["delete", "o1"], ["delete", "o2"],
               ["size", "v1"]]


def probe_cfg(ctx, exe):
    """returns (cfg, last answer of the field probe, problems).  An answer that fits neither modelled
    variant selects the tree-as-found variant; the probes are also run as ordinary cases, so the
    difference is then reported with a replay by the correspondence."""
    rng = ctx.rng("probe")
    cfg0 = {"snapshot": 0, "fieldfan": 0}
    problems = []
    fieldfan = snapshot = 0
    out, crash, info = common.run_lines(exe, [], render_case(rng, cfg0, FIELD_PROBE), timeout=30)
    last = out[-1] if out else ""
    if crash or len(out) != 4:
        problems.append("field probe: %s" % (crash or "short answer"))
    elif "C[1:0:7,2:0:7]" in last:
        fieldfan = 1
    elif "C[1:0:0,2:0:0]" not in last:
        problems.append("field probe: unexpected answer " + last)
    out2, crash, info = common.run_lines(exe, [], render_case(rng, cfg0, VALUE_PROBE), timeout=30)
    last2 = out2[-1] if out2 else ""
    if crash or len(out2) != 6:
        problems.append("value probe: %s" % (crash or "short answer"))
    elif "out=[q const array 2|e 1|e 2]" in last2:
        snapshot = 1
    elif "out=[q array 3|e 1|e 2|e 3]" not in last2:
        problems.append("value probe: unexpected answer " + last2)
    return {"snapshot": snapshot, "fieldfan": fieldfan}, last, problems


class ScriptRunner:
    """script-level cases: the model is run first; a case is cut after the first `ub` answer (a read
    through a pointer to a freed table entry).  The part before goes through the ordinary diff; the
    `ub` line itself is run on the implementation alone, anything it does there is accepted and a
    sanitizer report on it is an instance of finding D16."""

    def __init__(self, ctx, d, exe, cfg):
        self.ctx, self.d, self.exe, self.cfg = ctx, d, exe, cfg
        self.ub_cases = 0
        self.ub_crashed = []      # (stmts, crash signature, info)
        self.ub_silent = 0
        self.ub_limit = 60 if ctx.tier == "quick" else 400
        self.ub_run = 0
        self.stream_hist = {}     # cases per output-stream configuration
        self.stmt_hist = {}       # statement kinds (top level) and `h:`-prefixed kinds inside handlers
        self.out_hist = {}        # kinds of printed tokens in the model's answers (errors, array kinds, ...)

    def account(self, stmts, model_lines):
        for t in stmts:
            self.stmt_hist[t[0]] = self.stmt_hist.get(t[0], 0) + 1
            if t[0] == "fan":
                src = "fan-src:" + ("name" if t[1][0] == "$" else "value")
                self.stmt_hist[src] = self.stmt_hist.get(src, 0) + 1
                first = True
                for tok in t[2:]:
                    if first:
                        self.stmt_hist["h:" + tok] = self.stmt_hist.get("h:" + tok, 0) + 1
                    first = tok == ";"
        for m in model_lines:
            if m.startswith("ok out=["):
                for tok in m[8:m.index("]")].split("|"):
                    if tok:
                        k = tok.split(" ")[0] + (":" + tok.split(" ")[1] if tok.startswith("q ") else "")
                        self.out_hist[k] = self.out_hist.get(k, 0) + 1
            elif m == "ub":
                self.out_hist["ub"] = self.out_hist.get("ub", 0) + 1

    def run(self, named):
        """named: list of (name, stmts).  returns number of failing cases"""
        if not named:
            return 0
        rng = self.ctx.rng("render")
        rendered = []
        for item in named:
            name, st = item[0], item[1]
            streams = item[2] if len(item) > 2 and item[2] is not None else pick_streams(rng)
            key = "dbg=%d,warn=%d,dev=%d" % (streams.get("dbg", 0), streams.get("warn", 1), streams.get("dev", 0))
            self.stream_hist[key] = self.stream_hist.get(key, 0) + 1
            rendered.append((name, st, render_case(rng, dict(self.cfg, **streams), st)))
        model = common.run_model(AREA, [l for _, _, ls in rendered for l in ls])
        pos, batch, ubs = 0, [], []
        for name, st, ls in rendered:
            m = model[pos:pos + len(ls)]
            pos += len(ls)
            self.account(st, m)
            if "ub" in m:
                i = m.index("ub")
                self.ub_cases += 1
                if self.cfg["snapshot"]:
                    raise common.CheckError("model answered ub with snapshot values: " + " / ".join(" ".join(t) for t in st[:i]))
                batch.append((name, ls[:i]))
                ubs.append((st[:i], ls[:i + 1]))       # st has no header line: stmt i-1 is the ub one
            else:
                batch.append((name, ls))
        bad = self.d.run_batch(batch)
        for st, ls in ubs:
            if self.ub_run >= self.ub_limit:
                break
            self.ub_run += 1
            out, crash, info = common.run_lines(self.exe, [], ls, timeout=30)
            if crash:
                self.ub_crashed.append((st, crash, info))
            else:
                self.ub_silent += 1
        return bad


def ub_fails(ctx, exe, cfg, stmts):
    """the model says ub exactly at the last statement and the implementation reports there"""
    ls = render_case(ctx.rng("shrink"), cfg, stmts)
    m = common.run_model(AREA, ls)
    if "ub" not in m or m.index("ub") != len(ls) - 1:
        return None
    out, crash, info = common.run_lines(exe, [], ls, timeout=30)
    if crash and len(out) == len(ls) - 1:
        return crash, info, ls, out
    return None


def report_d16(ctx, exe, cfg, runner):
    """one replay for the captured-value finding, shrunk"""
    cands = sorted(runner.ub_crashed, key=lambda c: len(c[0]))
    first = ub_fails(ctx, exe, cfg, D16_WITNESS)
    stmts = D16_WITNESS if first else (cands[0][0] if cands else None)
    if stmts is None:
        return
    if not first:
        body = common.ddmin(stmts[:-1], lambda b: ub_fails(ctx, exe, cfg, b + stmts[-1:]) is not None, 80)
        stmts = body + stmts[-1:]
    res = ub_fails(ctx, exe, cfg, stmts)
    if not res:
        return
    crash, info, ls, out = res
    replay = common.save_replay(ctx, {
        "property": ctx.prop_id, "kind": "ub-witness", "area": AREA, "lines": ls,
        "statements": [" ".join(t) for t in stmts], "impl_out": out, "crash": crash, "crash_info": info[-3000:],
        "why": "a variable that captured `$name` (several bearers) keeps a raw pointer to the list inside the table entry; "
               "the entry is freed when the group empties (TargetList::RemoveListener -> set::remove); the next read of the "
               "variable goes through the freed entry (theorem C15_captured_value_unsafe_raw: the model reaches `ub` on this history)",
        "how_to_replay": "python3 tools/check.py C15 --replay <this file>"})
    ctx.violations.append({"signature": crash, "replay": replay, "found_input": True,
                           "why": "captured $name value read after its list was freed"})


def report_field(ctx, cfg, lines, answer):
    replay = common.save_replay(ctx, {
        "property": ctx.prop_id, "kind": "field-probe", "area": AREA, "lines": lines, "impl_last": answer,
        "statements": [" ".join(t) for t in FIELD_PROBE],
        "why": "`$n1.fld = 7` with two objects named n1: the property requires the assignment to reach every object of the group "
               "exactly once; OP_LOAD_FIELD_VAR calls listenerValue() on the array and throws \"Cannot cast 'array' to 'listener'\", "
               "no object is reached (theorem C15_field_assignment_rejects_group)",
        "how_to_replay": "python3 tools/check.py C15 --replay <this file>"})
    ctx.violations.append({"signature": "field-assignment:group-cast-error", "replay": replay, "found_input": True,
                           "why": "field assignment on a group reaches no object"})


# ---------------------------------------------------------------------------------------------
# bounded-exhaustive script histories

def exhaustive_script(depth, nobj=2):
    """every sequence of `depth` statements from a small alphabet over names n1,n2, `nobj` pre-spawned
    objects and one value slot, followed by a fixed observation suffix"""
    alpha = []
    for n in (2, 3):
        alpha += [["spawn", str(n)], ["capture", "1", str(n)], ["fandelete", "$%d" % n],
                  ["fanname", "$%d" % n, str(5 - n)], ["fieldset", "$%d" % n, "9"],
                  ["fieldtarget", "$%d" % n, "8"], ["fieldname", "$%d" % n, str(5 - n)],
                  ["fan", "$%d" % n, "hello", ";", "mark", "self", ";", "delete", "o1"],
                  ["fan", "$%d" % n, "hello", ";", "setname", "o2", str(5 - n), ";", "mark", "self"]]
        for k in range(1, nobj + 1):
            alpha.append(["setname", "o%d" % k, str(n)])
    for k in range(1, nobj + 1):
        alpha.append(["delete", "o%d" % k])
    alpha += [["fan", "v1", "hello", ";", "mark", "self"], ["fandelete", "v1"], ["fanname", "v1", "2"]]
    suffix = [["query", "$2"], ["query", "$3"], ["query", "v1"], ["index", "v1", "2"], ["fieldset", "v1", "5"]]
    prefix = [["spawn", "2"] for _ in range(nobj)]
    out = []

    def rec(cur, d):
        if d == 0:
            out.append(prefix + cur + suffix)
            return
        for a in alpha:
            rec(cur + [a], d - 1)
    rec([], depth)
    return out, len(alpha)


def check(ctx):
    prop = Prop()
    common.proof_side(ctx, PROPS_MODULE, PROPS_FILE)
    if ctx.tier == "thorough":
        common.leanchecker(ctx, PROPS_MODULE)
    exe = build(ctx)
    cfg, field_answer, problems = probe_cfg(ctx, exe)
    ctx.stats["code_variant"] = cfg
    ctx.notes.append("code variant detected by probes: captured $name value is a %s, field assignment on a group %s" % (
        "snapshot (const array)" if cfg["snapshot"] else "raw pointer to the table's list (live view)",
        "fans out" if cfg["fieldfan"] else "is rejected with a cast error"))
    d = Diff(ctx, prop, exe, AREA)
    quick = ctx.tier == "quick"
    bad = 0
    # corpus: host-level line cases and script-level statement cases
    runner = ScriptRunner(ctx, d, exe, cfg)
    host_corpus, script_corpus = [], []
    for name, obj in corpus_cases():
        if "statements" in obj:
            script_corpus.append((name, [t.split(" ") for t in obj["statements"]], obj.get("streams", {})))
        else:
            host_corpus.append((name, [header(cfg)] + [l for l in obj["lines"] if not l.startswith("universe")]))
    bad += runner.run([("probe:field", FIELD_PROBE, {}), ("probe:value", VALUE_PROBE, {})])
    bad += d.run_batch(host_corpus)
    bad += runner.run(script_corpus)
    # host level
    rng = ctx.rng("host")
    ncases, length = (300, 120) if quick else (8000, 400)
    batch = []
    for i in range(ncases):
        batch.append(("host:%d" % i, gen_host(rng, rng.choice([8, 30, length]), dict(cfg, **pick_streams(rng)), rng.choice([1, 2, 4]))))
        if len(batch) == 200:
            bad += d.run_batch(batch); batch = []
    bad += d.run_batch(batch)
    exh = exhaustive_host(4 if quick else 6, cfg)
    ctx.stats["exhaustive_host_histories"] = len(exh)
    for i in range(0, len(exh), 1000):
        bad += d.run_batch([("exh-host:%d" % (i + j), c) for j, c in enumerate(exh[i:i + 1000])])
    host_cases = d.cases
    # script level
    rng = ctx.rng("script")
    ncases, length = (400, 60) if quick else (12000, 250)
    batch = []
    for i in range(ncases):
        batch.append(("script:%d" % i, gen_script_case(rng, rng.choice([6, 20, length]), cfg, rng.choice([1, 2, 2, 4]))))
        if len(batch) == 100:
            bad += runner.run(batch); batch = []
    bad += runner.run(batch)
    # setter-backed field assignments on groups
    rng = ctx.rng("setter")
    nset = 150 if quick else 3000
    batch = []
    for i in range(nset):
        batch.append(("setter:%d" % i, gen_setter_case(rng, rng.choice([2, 3, 4]))))
        if len(batch) == 100:
            bad += runner.run(batch); batch = []
    bad += runner.run(batch)
    ctx.stats["setter_group_cases"] = nset
    exs, nalpha = exhaustive_script(2 if quick else 3)
    ctx.stats["exhaustive_script_histories"] = len(exs)
    ctx.stats["exhaustive_script_alphabet"] = nalpha
    for i in range(0, len(exs), 500):
        bad += runner.run([("exh-script:%d" % (i + j), c, [{}, {"dbg": 1}, {"dbg": 1, "warn": 0}, {"dev": 1}][(i + j) % 4])
                           for j, c in enumerate(exs[i:i + 500])])
    ctx.stats["script_cases"] = d.cases - host_cases
    ctx.stats["ub_cases_model"] = runner.ub_cases
    ctx.stats["ub_cases_run_on_impl"] = runner.ub_run
    ctx.stats["ub_cases_sanitizer_report"] = len(runner.ub_crashed)
    ctx.stats["ub_cases_silent"] = runner.ub_silent
    ctx.stats["script_cases_per_stream_configuration"] = runner.stream_hist
    ctx.stats["script_statement_histogram"] = runner.stmt_hist
    ctx.stats["script_output_token_histogram"] = runner.out_hist
    ctx.oblige("correspondence harness/target.cpp == Target model (variant %s) on %d histories" % (
        "snapshot=%d,fieldfan=%d" % (cfg["snapshot"], cfg["fieldfan"]), d.cases), bad == 0,
        "%d differing cases" % bad, reported=True)
    ctx.oblige("the variant probes answer as one of the modelled variants", not problems or bad > 0,
               "; ".join(problems))
    # the two clauses the unrepaired code violates (the model reproduces both faithfully, so the
    # correspondence cannot show them: they are reported from the probes / the ub cases)
    if not cfg["snapshot"]:
        report_d16(ctx, exe, cfg, runner)
    if not cfg["fieldfan"] and not problems:
        report_field(ctx, cfg, render_case(ctx.rng("probe"), cfg, FIELD_PROBE), field_answer)
    ctx.samples = [gen_host(ctx.rng("sample"), 10, cfg),
                   [" ".join(t) for t in gen_script_case(ctx.rng("sample2"), 10, cfg)]]
    cov = {
        "evaluations": d.cases, "distinct_nontrivial": len(d.distinct),
        "rule": "non-trivial = at least one accepted operation with an observation, distinct by SHA-1 of the case's lines; host level: op sequences on the real TargetList/SimpleEntity over 8 objects, 4 names + \"\" + the empty resolvable, whole table compared after every op; "
                "script level: one script per statement in one context (spawn / targetname / remove / $name / .size / [i] / command and thread fan-out with handlers that rename, delete and spawn / field assignment (plain variable and the setter-backed fields target and targetname, on single objects and groups) / captured values), "
                "printed lines + whole table + live objects + counters compared after every statement; plus every host history of the stated depth over 3 objects / 3 names and every script history of the stated depth over a %d-statement alphabet" % nalpha,
        "op_lines": d.lines, "op_histogram": d.hist, "model_answer_kinds": d.outkinds,
        "exhaustive": False,
    }
    return common.finish(ctx, "proof", cov, TRUSTED, ASSUME,
                         "cd lean && lake build && lake env lean <Audit.lean with #print axioms>; tools/check.py C15")


def replay(ctx, obj):
    common.lake_build()
    exe = build(ctx)
    kind = obj.get("kind")
    if kind == "ub-witness":
        out, crash, info = common.run_lines(exe, [], obj["lines"], timeout=30)
        model = common.run_model(AREA, obj["lines"])
        for i, st in enumerate(["universe"] + obj["statements"]):
            print("> %s\n  impl : %s\n  model: %s" % (st, out[i] if i < len(out) else "<no answer>", model[i] if i < len(model) else "<missing>"))
        print("CRASH" if crash else "no sanitizer report", crash or ""); print(info[-2500:] if crash else "")
        print("replay:", "still fails" if crash else "no failure")
        return 1 if crash else 0
    if kind == "field-probe":
        out, crash, info = common.run_lines(exe, [], obj["lines"], timeout=30)
        for i, st in enumerate(["universe"] + obj["statements"]):
            print("> %s\n  impl : %s" % (st, out[i] if i < len(out) else "<no answer>"))
        ok = (not crash) and out and "C[1:0:7,2:0:7]" in out[-1]
        print("required: fld = 7 on both objects (C[1:0:7,2:0:7])")
        print("replay:", "no failure" if ok else "still fails")
        return 0 if ok else 1
    d = Diff(ctx, Prop(), exe, AREA)
    impl, crash, info, model = d.both(obj["lines"])
    for i, l in enumerate(obj["lines"]):
        print("> %s\n  impl : %s\n  model: %s" % (l.split("##")[-1][:300], impl[i] if i < len(impl) else "<missing>", model[i] if i < len(model) else "<missing>"))
    if crash:
        print("CRASH", crash); print(info)
    bad = crash is not None or common.first_diff(impl, model) is not None
    print("replay:", "still differs" if bad else "no difference")
    return 1 if bad else 0
