"""C16 — commands reach the most-derived handler for the receiver's class (DESIGN.md 7.9).

Ties:
 (T) harness/dispatch.cpp dumps the REAL registry of the freshly built library (every EventDef of
     the global list, every ClassDef with its parent and its Responses[]).  The dump is the preamble
     of every run: the Lean driver registers the same events / classes in its model, then both
     sides answer `row` / `drow` (the whole response table of a class, for every filter mode) and
     `name` (name -> numbers) for EVERY built-in class and command name: exhaustive per build.
 (D) random host hierarchies registered at run time on top of the built-ins (depth <= 5, overrides,
     null handlers, same name with different kinds, case variants, duplicates of built-in names,
     namespaces) + rebuilds, observed through the tables AND through real invocations
     (ProcessScriptEvent / ProcessEventReturn / ProcessEvent on an instance).
Besides the line diff, an independent Python reference (`Monitor`) recomputes the PROPERTY
(nearest declaring ancestor, case-insensitive names, one slot per (name, kind), filter) on the
implementation's own trace; `classify` uses it to tell a violated property from a harmless
implementation detail (name-table indices, table sizes, the flavour of a rejection).
"""
import glob
import itertools
import json
import os
import re

from vlib import common
from vlib.common import Diff, VERIF, LEAN

AREA = "dispatch"
PROPS_MODULE = "MorfuseModel.Props.C16"
PROPS_FILE = os.path.join(LEAN, "MorfuseModel", "Props", "C16.lean")
KINDS = ["N", "R", "G", "S"]
NUM_NS = 3

TRUSTED = [
    "Lean 4.33.0 kernel (lake build; leanchecker in the thorough tier)",
    "axioms allowed: propext, Classical.choice, Quot.sound (audited by #print axioms on every run)",
    "hand-written model lean/MorfuseModel/Dispatch/Model.lean of Event.cpp / ClassDef.cpp / ClassSystem.cpp / EventSystem.cpp / NamespaceManager.cpp / Listener.cpp, tied by the differential run (harness/dispatch.cpp vs lean driver) on the real built-in registry and on generated host hierarchies",
    "harness/dispatch.cpp: registry dump (walks EventDef::head and ClassDef::classlist), identification of a ResponseDef* by the Responses[] array that contains it, host handlers that record which declaration ran",
    "eventDefName (con::arrayset) is modelled as the list of its keys in index order; equal keys hash equally because EventNameHash lower-cases and EventNameCompare is str::icmp (read, and exercised by case variants)",
    "the Python reference monitor in tools/props/c16.py (used only to classify differences and to flag property violations that the model reproduces faithfully)",
    "g++ 12 / ASan / UBSan for out-of-bounds table writes and arena overflow during InitEvents",
]
ASSUME = [
    "command names are ASCII ([A-Za-z0-9_]+ for generated ones); event numbers stay below 2^32",
    "un-registration (~EventDef, ~ClassDef) is outside the property: between cases the harness destroys the host objects and puts EventDef::defCount back to the built-in value (the destructor also decrements it for duplicates that never incremented it)",
    "responses inherited from a built-in class are not invoked (their handlers act on engine state): for them the harness reports the decision taken from the real NamespaceManager and the real GetResponse",
    "ClassDefExt (unused by the engine) is exercised and modelled as the public API behaves today (InitClassDef applies only the most recently constructed extension, after all tables are built — so subclasses do not inherit it — and consumes the list: notes/C16-design.md); the property's quantifier does not cover what an extension SHOULD do, only that it touches no other class's table",
    "a duplicate EventDef takes the namespace of the first registrant (that is what GetEventDef returns); the reference monitor follows the same reading",
    "class hierarchies are acyclic (C++ types): InitEvents over a cyclic parent chain is answered bad-op by the model",
]


# ---------------------------------------------------------------------------------------------
# reference monitor: the property recomputed on a trace (inputs + the answers of one side)

class Monitor:
    """Feeds on (input line, output line) pairs of ONE side and returns property violations as
    (signature, message).  Works with the numbers that side itself handed out, so a harmless
    renumbering is not a violation."""

    def __init__(self):
        self.base = None
        self.hard_reset()

    def hard_reset(self):
        self.evs = []          # (upper name, kind, ns, num)
        self.clss = []         # (parent, decls[(ev id, has)])
        self.key2num = {}
        self.num2key = {}
        self.num_ns = {}       # num -> ns of the first registrant
        self.names = set()
        self.first = []        # upper names of first registrants, in creation order
        self.mode, self.flist = 0, []
        self.nbuiltin_cls = 0
        self.exts = []         # ClassDefExt::list, head first: (pseudo class id, class, decls)
        self.next = 0
        self.patched = {}      # (class, num) -> (pseudo class id, index): written by InitClassDef in the last build

    def snapshot(self):
        return (list(self.evs), list(self.clss), dict(self.key2num), dict(self.num2key), dict(self.num_ns), set(self.names), list(self.first))

    def restore(self, snap):
        self.evs, self.clss = list(snap[0]), list(snap[1])
        self.key2num, self.num2key, self.num_ns, self.names = dict(snap[2]), dict(snap[3]), dict(snap[4]), set(snap[5])
        self.first = list(snap[6])
        self.mode, self.flist = 0, []
        self.exts, self.next, self.patched = [], 0, {}

    def last_name(self):
        """the name that receives the highest index of the name table: LoadEvents walks the event
        list from the most recent registrant to the oldest and appends each new name"""
        order = []
        for n in reversed(self.first):
            if n not in order:
                order.append(n)
        return order[-1] if order else None

    # -- spec
    def allowed(self, ns):
        if self.mode == 1:
            return ns == 0 or ns in self.flist
        if self.mode == 2:
            return ns == 0 or ns not in self.flist
        return True

    def nearest(self, c, num):
        """nearest declaring ancestor; a slot of the class ITSELF written by its extension (ClassDefExt, as
        InitClassDef applies it today: after all tables are built, so no subclass inherits it, and only the
        most recently constructed extension of the list) answers the extension's response"""
        if (c, num) in self.patched:
            return self.patched[(c, num)]
        seen = 0
        while c and seen <= len(self.clss):
            parent, decls = self.clss[c - 1]
            for i in range(len(decls) - 1, -1, -1):
                ev, has = decls[i]
                if 1 <= ev <= len(self.evs) and self.evs[ev - 1][3] == num:
                    return (c, i) if has else None
            c = parent
            seen += 1
        return None

    def feed(self, line, out):
        t = line.split()
        o = out.split()
        bad = []
        if not t or out == "bad-op" or not o:
            return bad
        op = t[0]
        if op in ("bevent", "event") and o[0] == "ev" and len(o) >= 4:
            key = (t[1].upper(), t[2])
            num = int(o[2])
            ns = int(t[3])
            if num < 1:
                bad.append(("numbering:zero", "event `%s` got number %d" % (line, num)))
            if key in self.key2num:
                if self.key2num[key] != num:
                    bad.append(("numbering:case-variant-split", "`%s`: same (name, kind) as an earlier event but number %d instead of %d" % (line, num, self.key2num[key])))
            else:
                if num in self.num2key:
                    bad.append(("numbering:slot-shared", "`%s`: number %d already belongs to %s" % (line, num, self.num2key[num])))
                self.key2num[key] = num
                self.num2key.setdefault(num, key)
                self.num_ns.setdefault(num, ns)
                self.first.append(key[0])
            self.names.add(key[0])
            self.evs.append((key[0], key[1], ns, num))
        elif op in ("bclass", "class") and o[0] == "cls":
            off = 2 if op == "bclass" else 1
            parent = int(t[off])
            decls = []
            for d in t[off + 2:]:
                a, b = d.split(":")
                decls.append((int(a), b == "1"))
            self.clss.append((parent, decls))
        elif op == "ext" and o[0] == "ext":
            self.next += 1
            decls = []
            for d in t[2:]:
                a, b = d.split(":")
                decls.append((int(a), b == "1"))
            self.exts.insert(0, (1000000 + self.next, int(t[1]), decls))
        elif op == "init" and o[0] == "init":
            # BuildEventResponses rebuilds every table, then InitClassDef: `for (ext = list; list; list = list->next)`
            # applies the head extension (only) and consumes the list
            self.patched = {}
            if self.exts:
                x, c, decls = self.exts[0]
                for i, (ev, has) in enumerate(decls):
                    if has and 1 <= ev <= len(self.evs):
                        self.patched[(c, self.evs[ev - 1][3])] = (x, i)
                self.exts = []
        elif op == "endbuiltins":
            self.nbuiltin_cls = len(self.clss)
            self.base = self.snapshot()
        elif op == "reset":
            if self.base is not None:
                self.restore(self.base)
        elif op == "filter":
            self.mode, self.flist = int(t[1]), [int(x) for x in t[2:]]
        elif op in ("row", "drow") and o[0] == op:
            c = int(t[1])
            slots = {}
            filtered = None
            for tok in o[1:]:
                if tok.startswith("F="):
                    filtered = int(tok[2:])
                    continue
                n, v = tok.split("=")
                slots[int(n)] = v
            expf = 0
            for num in sorted(self.num2key):
                if op == "drow" and not self.allowed(self.num_ns[num]):
                    expf += 1
                    exp = None
                else:
                    r = self.nearest(c, num)
                    exp = "%d.%d" % r if r else None
                got = slots.get(num)
                if got != exp:
                    k = self.num2key[num]
                    bad.append(("table:wrong-handler", "`%s`: command %s/%s (number %d) resolves to %s, nearest declaration is %s" % (line, k[0], k[1], num, got, exp)))
                    break
            for n in slots:
                if n not in self.num2key:
                    bad.append(("table:unknown-slot", "`%s`: slot %d is filled but no command has that number" % (line, n)))
                    break
            if op == "drow" and filtered is not None and filtered != expf:
                bad.append(("filter:count", "`%s`: %d commands filtered, expected %d" % (line, filtered, expf)))
        elif op == "name" and o[0] == "nm" and len(o) >= 7:
            up = t[1].upper()
            got = [int(x) for x in o[2:6]]
            exp = [self.key2num.get((up, k), 0) for k in KINDS]
            if got != exp:
                bad.append(("name:wrong-number", "`%s`: numbers %s, declared %s" % (line, got, exp)))
            m = re.match(r"I=(\d+),(\d+),(\d+),(\d+),(\d)", o[6])
            if m:
                igot = [int(m.group(i)) for i in range(1, 5)]
                known = up in self.names
                if igot != exp or (m.group(5) == "1") != known:
                    # which index is refused: the last one of the name table (D17) or another one
                    last = "idx==last" if igot == [0, 0, 0, 0] and m.group(5) == "0" and up == self.last_name() else "other"
                    bad.append(("index-api:%s" % last,
                                "`%s`: the index-based look-up (FindEventInfo / Find*EventNum(eventName_t)) answers %s for a declared command, the name-based one %s" % (line, o[6], exp)))
            if len(o) > 7:
                bad.append(("name:api-mismatch", "`%s`: %s" % (line, " ".join(o[7:]))))
        elif op == "call" and o[0] == "call" and len(o) >= 3:
            c, mode, kind, name = int(t[1]), t[2], t[3], t[4]
            num = self.key2num.get((name.upper(), kind), 0)
            if int(o[1]) != num:
                bad.append(("name:wrong-number", "`%s`: resolved to number %s, declared %d" % (line, o[1], num)))
            exp = None
            if num and self.allowed(self.num_ns[num]):
                exp = self.nearest(c, num)
            got = o[3] if o[2] == "ran" and len(o) > 3 else None
            if o[2] not in ("ran", "notfound", "failed", "silent", "false"):
                bad.append(("call:abnormal", "`%s`: %s" % (line, out)))
            elif got != ("%d.%d" % exp if exp else None):
                what = "filter" if (num and not self.allowed(self.num_ns[num])) else "table"
                bad.append(("call:%s:wrong-handler" % what, "`%s`: outcome `%s`, the property demands %s" % (
                    line, " ".join(o[2:]), "handler %d.%d" % exp if exp else "a rejection")))
        elif op == "delay" and o[0] == "delay" and len(o) >= 3:
            c, up = int(t[1]), t[2].upper()
            # `commanddelay` names no kind: which declared kind it picks (the code: statement, value,
            # setter, getter) is its own business, not C16's; whatever it picks must reach the
            # nearest handler for that kind
            outcomes = []
            for k in ("N", "R", "S", "G"):
                num = self.key2num.get((up, k), 0)
                if num:
                    r = self.nearest(c, num) if self.allowed(self.num_ns[num]) else None
                    outcomes.append("%d.%d" % r if r else None)
            got = o[3] if o[2] == "ran" and len(o) > 3 else None
            if o[2] not in ("ran", "nothing", "dropped"):
                bad.append(("commanddelay:abnormal", "`%s`: %s" % (line, out)))
            elif outcomes and got != outcomes[0]:
                if got is None and up == self.last_name():
                    bad.append(("commanddelay:idx==last", "`%s`: outcome `%s`, the command is declared and the nearest handler is %s" % (
                        line, " ".join(o[1:]), outcomes[0])))
                elif got not in outcomes:
                    bad.append(("commanddelay:wrong-handler", "`%s`: outcome `%s`, no kind of this command resolves to that (candidates %s)" % (
                        line, " ".join(o[1:]), outcomes)))
            elif not outcomes and got is not None:
                bad.append(("commanddelay:wrong-handler", "`%s`: outcome `%s` for an undeclared command" % (line, " ".join(o[1:]))))
        return bad

    def scan(self, lines, outs):
        """[(line index, signature, message)]"""
        found = []
        for i, (l, o) in enumerate(zip(lines, outs)):
            found += [(i, sig, msg) for sig, msg in self.feed(l, o)]
        return found


class Prop:
    def __init__(self, preamble):
        self.preamble = preamble
        self.pre_impl = None       # the implementation's answers to the preamble (set by Diff16)

    def fresh_monitor(self):
        m = Monitor()
        outs = self.pre_impl
        if outs is None or len(outs) != len(self.preamble):
            k = 0
            outs = []
            for l in self.preamble:
                if l.startswith("bevent"):
                    k += 1
                    outs.append("ev %d %d 1" % (k, k))
                else:
                    outs.append("cls 0" if l.startswith("bclass") else "ok")
        self.pre_found = [(-1, sig, msg) for _, sig, msg in m.scan(self.preamble, outs)]
        return m

    def monitor(self, lines, outs):
        m = self.fresh_monitor()
        return self.pre_found + m.scan(lines, outs)

    def classify(self, lines, impl, crash, model):
        if crash:
            return "violation", "implementation crashed / sanitizer report: " + crash, crash
        i = common.first_diff(impl, model)
        where = "line %d `%s`: implementation `%s`, proved model `%s`" % (
            i, lines[i] if i is not None and i < len(lines) else "?",
            impl[i] if i is not None and i < len(impl) else "<missing>",
            model[i] if i is not None and i < len(model) else "<missing>") if i is not None else "no line differs"
        # only what the monitor says about lines on which the two sides DIFFER explains this
        # difference (a hit on a line where they agree is a defect the model shares: it is reported
        # on its own by monitor_pass, and must not lend its signature to an unrelated difference)
        found = [(j, sig, msg) for j, sig, msg in self.monitor(lines, impl)
                 if j < 0 or j >= len(model) or j >= len(impl) or impl[j] != model[j]]
        if found:
            found.sort(key=lambda h: (h[0] != i, h[0]))
            _, sig, msg = found[0]
            return "violation", msg + " | " + where, sig
        # the property holds on everything this trace shows: an implementation detail moved
        a = (impl[i] if i is not None and i < len(impl) else "").split(" ")[0]
        return "model-diff", "traces differ but the reference monitor finds the property intact: " + where, "diff:detail:" + a


class Diff16(Diff):
    """every run is prefixed by the registry dump (the (T) tie); the answers to it are compared too"""

    def __init__(self, ctx, prop, exe, preamble):
        super().__init__(ctx, prop, exe, AREA)
        self.pre = preamble
        self.last = None

    def both(self, lines):
        alll = self.pre + lines
        impl, crash, info = common.run_lines(self.exe, self.hargs, alll, timeout=self.base_timeout + 20 + len(alll) // 500)
        model = common.run_model(self.area, alll)
        n = len(self.pre)
        self.prop.pre_impl = impl[:n] if len(impl) >= n else None
        ci, cm = impl[n:], model[n:]
        j = common.first_diff(impl[:n], model[:n])
        if j is not None and crash is None and ci and cm:
            # the registry the model built from the dump is not the registry the library holds:
            # show it on the first line of the case
            ci = ["PREAMBLE `%s` -> %s" % (alll[j], impl[j] if j < len(impl) else "<missing>")] + ci[1:]
            cm = ["PREAMBLE `%s` -> %s" % (alll[j], model[j] if j < len(model) else "<missing>")] + cm[1:]
        self.last = (lines, ci, crash, cm)
        return ci, crash, info, cm


def read_dump(ctx, exe):
    out, crash, info = common.run_lines(exe, ["dump"], [], timeout=60)
    if crash or not out or out[-1] != "endbuiltins":
        raise common.CheckError("registry dump failed: %s\n%s" % (crash, info))
    return out


class Registry:
    def __init__(self, pre):
        self.events = []     # (name, kind, ns)
        self.classes = []    # (name, parent, decl tokens)
        for l in pre:
            t = l.split()
            if t[0] == "bevent":
                self.events.append((t[1], t[2], int(t[3])))
            elif t[0] == "bclass":
                self.classes.append((t[1], int(t[2]), t[4:]))
        self.nev, self.ncls = len(self.events), len(self.classes)

    def cls(self, name):
        for i, c in enumerate(self.classes):
            if c[0] == name:
                return i + 1
        return 0


def variants(name, rng=None):
    vs = [name, name.upper(), name.lower(), name.swapcase()]
    if rng is not None:
        vs.append("".join(ch.upper() if rng.random() < 0.5 else ch.lower() for ch in name))
    out = []
    for v in vs:
        if v not in out:
            out.append(v)
    return out


FILTERS = [(0, []), (1, []), (1, [1]), (1, [2, 3]), (2, []), (2, [1]), (2, [1, 2, 3]), (0, [1, 2])]


def builtin_case(reg):
    """(T): every (class, command) pair of the built-in registry, for every filter mode, plus every
    command name in several spellings"""
    lines = ["reset", "init"]
    for c in range(1, reg.ncls + 1):
        lines.append("row %d" % c)
    for mode, l in FILTERS:
        lines.append("filter %d %s" % (mode, " ".join(map(str, l))))
        for c in range(1, reg.ncls + 1):
            lines.append("drow %d" % c)
    seen = set()
    for name, _, _ in reg.events:
        if not re.fullmatch(r"[A-Za-z0-9_]{1,64}", name):
            continue
        for v in variants(name):
            if v not in seen:
                seen.add(v)
                lines.append("name " + v)
    for v in ["nosuchcommand", "x", "REMOVE_", "classnam"]:
        lines.append("name " + v)
    return [l.strip() for l in lines]


POOL = ["zq", "Foo", "bar_2", "w", "Handler9", "remove", "classname", "angles", "delete", "owner", "thread", "self"]


def gen_case(rng, reg, size=None):
    """one host configuration on top of the built-ins + its exhaustive interrogation"""
    lines = ["reset"]
    listener = reg.cls("Listener") or 1
    roots = [listener] * 6 + [reg.cls("SimpleEntity") or listener, reg.cls("Class") or listener, reg.cls("ScriptThread") or listener, 0]
    pool = list(POOL)
    if reg.events:
        pool.append(reg.events[0][0])          # the first registered command (last name index)
        pool.append(rng.choice(reg.events)[0])
    pool = [p for p in pool if re.fullmatch(r"[A-Za-z0-9_]{1,64}", p)]
    base = rng.sample(pool, rng.randint(1, min(5, len(pool))))
    nev_total, ncls_total = reg.nev, reg.ncls
    host_ev, host_cls, depth = [], [], {}
    used_names = []
    rounds = 1 if rng.random() < 0.75 else 2
    nhandlers = 0
    storemix = rng.random() < 0.7
    extmix = rng.random() < 0.6
    for rnd in range(rounds):
        nev = rng.randint(1, 10) if size is None else size
        for _ in range(nev):
            nm = rng.choice(variants(rng.choice(base), rng))
            kind = "X" if rng.random() < 0.03 else rng.choice(KINDS)
            ns = 0 if rng.random() < 0.55 else rng.randint(1, NUM_NS)
            if rng.random() < 0.03:                      # illegal stream
                lines.append(rng.choice(["event %s Q 0" % nm, "event %s N 7" % nm, "event bad-name N 0", "event %s" % nm]))
                continue
            # where the object lives: own heap object, or a growable container that reallocates (the object
            # is move-constructed every time), or move-assigned onto a moved-from shell
            store = rng.choice(["", "", " h", " v", " v", " c", " c", " a"]) if storemix else ""
            lines.append("event %s %s %d%s" % (nm, kind, ns, store))
            nev_total += 1
            host_ev.append(nev_total)
            used_names.append(nm)
        ncls = rng.randint(1, 7) if size is None else max(1, size // 2)
        for _ in range(ncls):
            if host_cls and rng.random() < 0.7:
                cands = [c for c in host_cls if depth[c] < 5]
                parent = rng.choice(cands) if cands else rng.choice(roots)
            else:
                parent = rng.choice(roots)
            decls = []
            for _ in range(rng.choice([0, 0, 1, 1, 2, 2, 3, 5])):
                ev = rng.choice(host_ev) if host_ev and rng.random() < 0.85 else rng.randint(1, reg.nev)
                has = 0 if rng.random() < 0.15 else 1
                decls.append("%d:%d" % (ev, has))
                nhandlers += has
            if rng.random() < 0.03:
                lines.append(rng.choice(["class %d 0 %d:1" % (ncls_total + 5, 1), "class %d 0 %d:1" % (parent, nev_total + 3),
                                         "class %d 9" % parent, "class %d 0 0:1" % parent, "class x 0"]))
                continue
            ns = 0 if rng.random() < 0.7 else rng.randint(1, NUM_NS)
            lines.append(("class %d %d %s" % (parent, ns, " ".join(decls))).strip())
            ncls_total += 1
            host_cls.append(ncls_total)
            depth[ncls_total] = depth.get(parent, 0) + 1
        if extmix and host_cls:
            # class extensions (ClassDefExt): mostly one per build, sometimes two / on the same class
            for _ in range(rng.choice([1, 1, 1, 2])):
                c = rng.choice(host_cls)
                xd = []
                for _ in range(rng.choice([1, 1, 2, 3])):
                    ev = rng.choice(host_ev) if host_ev and rng.random() < 0.9 else rng.randint(1, reg.nev)
                    xd.append("%d:%d" % (ev, 0 if rng.random() < 0.1 else 1))
                if rng.random() < 0.03:
                    lines.append(rng.choice(["ext %d 1:1" % listener, "ext 0 1:1", "ext %d %d:1" % (c, nev_total + 4), "ext %d 0:1" % c, "ext"]))
                else:
                    lines.append("ext %d %s" % (c, " ".join(xd)))
        if host_cls and rng.random() < 0.05:
            lines.append("row %d" % rng.choice(host_cls))      # before init: illegal
        lines.append("init")
        names = []
        for b in base:
            for v in variants(b, rng)[:3]:
                if v not in names:
                    names.append(v)
        names.append("nosuch_cmd")
        for c in host_cls:
            lines.append("row %d" % c)
        for v in names:
            lines.append("name " + v)
        filters = [FILTERS[0]] + rng.sample(FILTERS[1:], 2)
        if rng.random() < 0.3:
            filters.append((rng.randint(1, 2), rng.sample([1, 2, 3], rng.randint(0, 3))))
        for mode, l in filters:
            lines.append(("filter %d %s" % (mode, " ".join(map(str, l)))).strip())
            for c in host_cls:
                lines.append("drow %d" % c)
            for c in host_cls:
                for b in base:
                    for k in KINDS:
                        e = "script" if rng.random() < 0.6 else rng.choice(["ret", "proc"])
                        lines.append("call %d %s %s %s" % (c, e, k, rng.choice(variants(b, rng))))
                lines.append("call %d %s N nosuch_cmd" % (c, rng.choice(["script", "ret", "proc"])))
                for b in base:
                    lines.append("delay %d %s" % (c, rng.choice(variants(b, rng))))
        if host_cls and rng.random() < 0.05:
            lines.append(rng.choice(["call %d script N zq" % listener, "call 0 script N zq", "call %d jump N zq" % host_cls[0],
                                     "call %d script X zq" % host_cls[0], "filter 3", "filter 1 0", "filter 1 4", "drow 0", "row 99999",
                                     "name bad-name", "frobnicate", ""]))
    return lines


def gen_ext_case(rng, reg):
    """directed family: a parent that declares handlers, children / grandchildren with EMPTY response lists (and
    some with their own), a ClassDefExt on one of the empty ones that overrides a command of the parent and adds
    a new one; every table and every (class, command) call is observed: the extension may show in the extended
    class only — not in its parent, its siblings or its subclasses.  Events live in growable containers."""
    lines = ["reset"]
    listener = reg.cls("Listener") or 1
    nev, ncls = reg.nev, reg.ncls
    names = rng.sample(["xa", "xb", "xc", "xd", "remove", "owner"], rng.randint(3, 5))
    evs = []
    for nm in names:
        ns = rng.choice([0, 0, 1, 2, 3])
        lines.append("event %s %s %d%s" % (nm, rng.choice(["N", "N", "R"]), ns, rng.choice(["", " v", " c", " a"])))
        nev += 1
        evs.append(nev)
    root = rng.choice([listener, listener, reg.cls("SimpleEntity") or listener, 0])
    pd = ["%d:1" % e for e in rng.sample(evs, rng.randint(1, len(evs) - 1))]
    lines.append("class %d 0 %s" % (root, " ".join(pd)))
    ncls += 1
    parent = ncls
    kids = []
    for _ in range(rng.randint(2, 4)):
        under = parent if not kids or rng.random() < 0.6 else rng.choice(kids)
        own = [] if rng.random() < 0.7 else ["%d:%d" % (rng.choice(evs), rng.choice([1, 1, 0]))]
        lines.append(("class %d %d %s" % (under, rng.choice([0, 0, 1]), " ".join(own))).strip())
        ncls += 1
        kids.append(ncls)
    target = rng.choice(kids)
    xd = ["%d:1" % e for e in rng.sample(evs, rng.randint(1, min(3, len(evs))))]
    lines.append("ext %d %s" % (target, " ".join(xd)))
    allc = [parent] + kids
    for rnd in range(rng.choice([1, 1, 2])):
        lines.append("init")
        for c in allc:
            lines.append("row %d" % c)
        for flt in ["filter 0"] + rng.sample(["filter 1", "filter 1 1", "filter 2 1", "filter 2 2 3", "filter 1 2 3"], 2):
            lines.append(flt)
            for c in allc:
                lines.append("drow %d" % c)
                for nm in names:
                    for k in ("N", "R"):
                        lines.append("call %d %s %s %s" % (c, rng.choice(["script", "script", "ret", "proc"]), k, rng.choice(variants(nm, rng))))
        if rnd == 0 and rng.random() < 0.5:
            # a second round: one more event (the containers grow again) and possibly a new extension
            lines.append("event %s N %d%s" % (rng.choice(names).upper() + "2", rng.choice([0, 1]), rng.choice([" v", " c"])))
            nev += 1
            if rng.random() < 0.6:
                lines.append("ext %d %d:1" % (rng.choice(kids), nev))
    return lines


def exhaustive(reg, maxlen):
    """every history of `maxlen` registrations over a small alphabet (events f/F/remove in two
    kinds and two namespaces; classes under Listener or under the latest host class, with five
    declaration shapes), each followed by the same interrogation"""
    listener = reg.cls("Listener") or 1
    ev_ops = [("E", n, k, ns) for n in ("zq", "ZQ", "remove") for k in ("N", "G") for ns in (0, 1)]
    cls_ops = [("C", p, shape) for p in ("L", "P") for shape in range(5)]
    ext_ops = [("X", which) for which in (0, 1)]       # ClassDefExt on the latest host class: first / latest event
    alphabet = ev_ops + cls_ops + ext_ops
    cases = []
    for hist in itertools.product(alphabet, repeat=maxlen):
        if not any(h[0] == "C" for h in hist):
            continue
        lines = ["reset"]
        evs, clss = [], []
        nev, ncls = reg.nev, reg.ncls
        for hi, h in enumerate(hist):
            if h[0] == "E":
                # namespaced events alternate between the growable containers (moved when the next one arrives)
                lines.append("event %s %s %d%s" % (h[1], h[2], h[3], ["", " v", " c", " a"][(hi + h[3] * 2) % 4] if h[3] else ""))
                nev += 1
                evs.append(nev)
            elif h[0] == "X":
                if not clss:
                    lines.append("ext %d 1:1" % listener)      # a built-in class: rejected on both sides
                else:
                    lines.append("ext %d %d:1" % (clss[-1], (evs[0] if h[1] == 0 else evs[-1]) if evs else 1))
            else:
                parent = clss[-1] if (h[1] == "P" and clss) else listener
                e1 = evs[0] if evs else 1
                e2 = evs[-1] if evs else 2
                shape = [[], ["%d:1" % e1], ["%d:0" % e1], ["%d:1" % e2], ["%d:1" % e1, "%d:1" % e2, "%d:0" % e1]][h[2]]
                lines.append(("class %d 0 %s" % (parent, " ".join(shape))).strip())
                ncls += 1
                clss.append(ncls)
        lines.append("init")
        lines += ["name zq", "name Zq", "name REMOVE"]
        for flt in ("filter 0", "filter 1", "filter 2 1"):
            lines.append(flt)
            for c in clss:
                lines.append("drow %d" % c)
                lines += ["call %d script N zQ" % c, "call %d ret G ZQ" % c, "call %d proc N Remove" % c, "call %d script G remove" % c,
                          "delay %d zq" % c, "delay %d REMOVE" % c]
        cases.append(lines)
    return cases


def corpus_cases():
    res = []
    for p in sorted(glob.glob(os.path.join(VERIF, "corpus", "C16", "*.json"))):
        res.append(("corpus:" + os.path.basename(p), json.load(open(p))["lines"]))
    return res


def build(ctx):
    return common.build_full(ctx, "h_dispatch", ["dispatch.cpp"])


def monitor_pass(d, prop, named_cases, hits):
    """run the reference monitor over the implementation's trace of cases that showed no
    difference: a defect the model reproduces faithfully is still a violated property"""
    allines = [l for _, c in named_cases for l in c]
    if not allines or d.last is None or d.last[0] != allines:
        return
    _, impl, crash, model = d.last
    if crash is not None or common.first_diff(impl, model) is not None:
        return      # the differential engine deals with it
    m = prop.fresh_monitor()
    for _, sig, msg in prop.pre_found:
        hits.setdefault(sig, (msg, "preamble", ["reset"], "", ""))
    pos = 0
    for name, c in named_cases:
        outs = impl[pos:pos + len(c)]
        pos += len(c)
        for l, o in zip(c, outs):
            for sig, msg in m.feed(l, o):
                if sig not in hits:
                    hits[sig] = (msg, name, witness(c, l), l, o)


def witness(case, failing_line):
    keep = []
    for l in case:
        t = l.split(" ")[0]
        if l == failing_line:
            keep.append(l)
            break
        if t in ("reset", "event", "class", "ext", "init", "filter"):
            keep.append(l)
    return keep


def minimise_witness(d, prop, lines, sig):
    """delta-debug a monitor witness: keep the failing query (last line), drop registrations while
    the monitor still reports the same signature on the implementation's answers"""
    head, body, last = lines[:1], lines[1:-1], lines[-1:]

    def still(b):
        cand = head + b + last
        impl, crash, info, model = d.both(cand)
        if crash is not None:
            return False
        return any(s == sig for _, s, _ in prop.monitor(cand, impl))
    if len(body) > 1:
        body = common.ddmin(body, still, max_tests=60)
    return head + body + last


GEN_FILE = os.path.join(LEAN, "MorfuseModel", "Gen", "DispatchGen.lean")
GEN_TEMPLATE = """/-! GENERATED by tools/props/c16.py from $VERIF_REPO/src/Script/EventSystem.cpp on every run — do not edit.
`EventSystem::FindEventInfo(eventName_t s)` reads `if (s > 0 && s %s eventDefName.size())`. -/
namespace Morfuse.Dispatch.Gen

/-- is the upper comparison in `FindEventInfo(eventName_t)` `<=` (true) or `<` (false)? -/
def findEventInfoInclusive : Bool := %s

end Morfuse.Dispatch.Gen
"""


def translate(ctx):
    """(T) the one comparison the index-based look-up clause hinges on is read from the source; the
    model and the theorems that depend on it (`C16_index_lookup_*`) are re-checked against it"""
    path = os.path.join(common.REPO, "src", "Script", "EventSystem.cpp")
    src = re.sub(r"//[^\n]*", "", open(path, errors="replace").read())
    m = re.search(r"EventSystem::FindEventInfo\s*\(\s*eventName_t\s+(\w+)\s*\)\s*const\s*\{(.*?)\n\}", src, re.S)
    op = None
    if m:
        v = m.group(1)
        c = re.search(r"if\s*\(\s*%s\s*>\s*0\s*&&\s*%s\s*(<=|<)\s*eventDefName\s*\.\s*size\s*\(\s*\)\s*\)\s*\{\s*return\s*&\s*commandList\s*\[\s*%s\s*\]\s*;\s*\}\s*return\s+nullptr\s*;" % (v, v, v), m.group(2))
        if c:
            op = c.group(1)
    ctx.oblige("(T) EventSystem::FindEventInfo(eventName_t) has the shape the model transcribes (`s > 0 && s </<= eventDefName.size()`)",
               op is not None, "the function body changed: lean/MorfuseModel/Dispatch/Model.lean `findEventInfoOk` must be re-transcribed")
    inclusive = op == "<="
    with common.LakeLock():
        common.write_if_changed(GEN_FILE, GEN_TEMPLATE % (op or "<", "true" if inclusive else "false"))
    ctx.stats["findEventInfo_comparison"] = op or "unreadable"
    return inclusive


def check(ctx):
    inclusive = translate(ctx)
    proofs_ok, _ = common.proof_side(ctx, PROPS_MODULE, PROPS_FILE)
    ctx.notes.append("index-based look-up clause: " + (
        "source compares with `<=`: clause proved in full (C16_index_lookup_complete, C16_commanddelay_fixed apply)" if inclusive else
        "source compares with `<`: clause FALSE for the last name index (C16_index_lookup_refuses_last is the model witness; the run replays its analogue on the real registry -> D17); proved part: C16_index_lookup_partial, C16_commanddelay_partial"))
    if ctx.tier == "thorough":
        common.leanchecker(ctx, PROPS_MODULE)
    exe = build(ctx)
    pre = read_dump(ctx, exe)
    reg = Registry(pre)
    prop = Prop(pre)
    d = Diff16(ctx, prop, exe, pre)
    quick = ctx.tier == "quick"
    hits = {}
    ctx.stats["builtin_events"] = reg.nev
    ctx.stats["builtin_classes"] = reg.ncls

    def run(named):
        b = d.run_batch(named)
        if b == 0:
            monitor_pass(d, prop, named, hits)
        return b

    bad = run(corpus_cases())
    # (T) the real registry, exhaustively
    tcase = builtin_case(reg)
    tbad = run([("builtin-registry", tcase)])
    ctx.oblige("(T) every (class, command) pair of the built-in registry (%d classes x %d commands) resolves to the nearest declaration, for %d filter settings; every command name in 4 spellings" % (
        reg.ncls, reg.nev, len(FILTERS)), tbad == 0, "the dumped registry and the model disagree", reported=True)
    bad += tbad
    # (D) random host hierarchies
    rng = ctx.rng("random")
    ncases = 160 if quick else 3000
    batch = []
    for i in range(ncases):
        batch.append(("random:%d" % i, gen_case(rng, reg)))
        if len(batch) == 20:
            bad += run(batch)
            batch = []
    bad += run(batch)
    # directed: empty response lists + ClassDefExt, events in growable containers
    xrng = ctx.rng("ext")
    nx = 60 if quick else 1200
    batch = []
    for i in range(nx):
        batch.append(("ext:%d" % i, gen_ext_case(xrng, reg)))
        if len(batch) == 20:
            bad += run(batch)
            batch = []
    bad += run(batch)
    ctx.stats["ext_cases"] = nx
    # bounded-exhaustive registrations
    exh = exhaustive(reg, 2 if quick else 3)
    ctx.stats["exhaustive_histories"] = len(exh)
    for i in range(0, len(exh), 150):
        bad += run([("exh:%d" % (i + j), c) for j, c in enumerate(exh[i:i + 150])])
    if not quick:
        big = ctx.rng("big")
        bad += run([("big:%d" % i, gen_case(big, reg, size=40)) for i in range(8)])
    ctx.oblige("correspondence harness/dispatch.cpp == Dispatch model on %d cases" % d.cases, bad == 0,
               "%d differing cases" % bad, reported=True)
    # property violations that model and implementation share (reference monitor)
    for sig, (msg, name, wit, l, o) in sorted(hits.items()):
        small = minimise_witness(d, prop, wit, sig)
        impl, crash, info, model = d.both(small)
        replay = common.save_replay(ctx, {
            "property": ctx.prop_id, "kind": "monitor", "case": name, "area": AREA, "lines": small,
            "impl_out": impl, "model_out": model, "crash": crash, "verdict": "violation", "why": msg, "signature": sig,
            "how_to_replay": "python3 tools/check.py %s --replay <this file>" % ctx.prop_id})
        ctx.violations.append({"signature": sig, "replay": replay, "why": msg, "found_input": True})
    # (not an obligation: each hit is a violation with its own replay, matched against known_findings.json by finish)
    ctx.stats["monitor_hits"] = {s: v[0][:200] for s, v in sorted(hits.items())}
    ctx.samples = [gen_case(ctx.rng("sample"), reg, size=2)]
    cov = {
        "evaluations": d.cases, "distinct_nontrivial": len(d.distinct),
        "rule": "(T) the whole built-in registry (%d events, %d classes) x %d filter settings, exhaustive; (D) %d random host hierarchies (1-7 classes per round, depth <= 5, 1-10 events per round over case variants of 1-5 base names incl. built-in names, null handlers, duplicates, namespaces, 1-2 build rounds, 3%% illegal lines), each interrogated exhaustively (every table row, every (class, name, kind) invoked for 3-4 filter settings); %d directed cases with empty response lists + ClassDefExt extensions and events kept in growable containers (std::vector / con::Container: moved on reallocation; move assignment); every history of the stated length over a 24-operation alphabet; non-trivial = at least one answered query; distinct by SHA-1 of the case lines" % (
            reg.nev, reg.ncls, len(FILTERS), ncases, nx),
        "op_lines": d.lines, "op_histogram": d.hist, "model_answer_kinds": d.outkinds,
        "exhaustive": False,
    }
    return common.finish(ctx, "proof", cov, TRUSTED, ASSUME,
                         "cd lean && lake build && lake env lean <Audit.lean with #print axioms>; tools/check.py C16")


def replay(ctx, obj):
    translate(ctx)
    common.lake_build()
    exe = build(ctx)
    pre = read_dump(ctx, exe)
    prop = Prop(pre)
    d = Diff16(ctx, prop, exe, pre)
    if "lines" not in obj:
        print("replay file names a proof obligation, not an input:", obj.get("obligation"), obj.get("detail", "")[:2000])
        return 1
    impl, crash, info, model = d.both(obj["lines"])
    for i, l in enumerate(obj["lines"]):
        print("> %s\n  impl : %s\n  model: %s" % (l, impl[i] if i < len(impl) else "<missing>", model[i] if i < len(model) else "<missing>"))
    if crash:
        print("CRASH", crash)
        print(info)
    found = prop.monitor(obj["lines"], impl) if not crash else []
    for _, sig, msg in found:
        print("PROPERTY", sig, msg)
    bad = crash is not None or common.first_diff(impl, model) is not None or bool(found)
    print("replay:", "still fails" if bad else "no difference, property holds on this input")
    return 1 if bad else 0
