"""C17 — interned strings: one id per text, ids stable, well-known ids fixed (DESIGN.md 7.7)."""
import binascii
import glob
import itertools
import json
import os
import re
import time

from vlib import common
from vlib.common import Diff, VERIF, LEAN, REPO

AREA = "dict"
PROPS_MODULE = "MorfuseModel.Props.C17"
PROPS_FILE = os.path.join(LEAN, "MorfuseModel", "Props", "C17.lean")
GEN_PRIMES = os.path.join(LEAN, "MorfuseModel", "Gen", "Primes.lean")
GEN_PREDEF = os.path.join(LEAN, "MorfuseModel", "Gen", "Predefined.lean")
MAX_MORE = 4000000

TRUSTED = [
    "Lean 4.33.0 kernel (lake build; leanchecker in the thorough tier)",
    "axioms allowed: propext, Classical.choice, Quot.sound (audited by #print axioms on every run)",
    "hand-written model lean/MorfuseModel/Dict/Model.lean of include/morfuse/Container/arrayset.h + src/Common/StringDictionary.cpp + ScriptMaster::InitConstStrings/ClearAll, tied by the differential correspondence run (harness/dict.cpp vs lean driver, incl. bucket-chain dumps)",
    "translator in tools/props/c17.py: set_primes and the PredefinedString registry are printed by the harness binary built from the working tree (cross-checked against the source text) and written to lean/MorfuseModel/Gen/{Primes,Predefined}.lean",
    "g++ 12 / ASan / UBSan semantics for memory safety of the real table (freed tables, reverse-table bounds)",
    "Std.HashMap.getD_insert / getElem?_insert (core library lemmas) behind Mem.get_set / OMem.get?_set",
]
ASSUME = [
    "texts are C strings: a text containing a NUL byte is not expressible through StringDictionary's API (Hash<str> and str::operator== stop at the first NUL); such tokens are answered bad-op on both sides",
    "lookup by id is only performed for ids the dictionary has handed out (1..size); anything else is answered bad-op on both sides (the C++ dereferences whatever the reverse table holds)",
    "fewer than 2^32 entries (const_str is 32 bits) and AllocateMoreString arguments <= %d in the correspondence" % MAX_MORE,
    "theorems speak about histories in which Add never runs off set_primes (table length < 89834777: C17_add_defined / C17_gen_add_defined); beyond that the C++ divides by zero (24 declared slots, 23 initialisers)",
    "arrayset::remove / shrink are never called by StringDictionary and are not modelled",
    "predefined ids are the registration order of the running binary (static-initialisation order of the translation units, i.e. link order); the theorem is about one process",
    "freed memory is not modelled; the harness runs under ASan/UBSan instead",
]


# --------------------------------------------------------------------------------------------
# texts

def hx(b):
    return binascii.hexlify(b).decode() if b else "-"


def unhx(t):
    return b"" if t == "-" else binascii.unhexlify(t)


def colliding(k):
    """2^k texts with the same HashCharArray value (\"Aa\" and \"BB\" hash alike)"""
    return [("".join(p)).encode() for p in itertools.product(["Aa", "BB"], repeat=k)]


def universe(rng, n):
    """a pool of texts of every kind the property names"""
    pool = [b"", b"a", b"A", b"abc", b"ABC", b"Abc", b"aBC", b"abcd", b"abcde", b"ab",
            b"default", b"delete", b"remove", b"Default", b"local", b"self"]
    pool += colliding(3)
    pool += [bytes([rng.randint(1, 255) for _ in range(rng.randint(1, 12))]) for _ in range(6)]   # binary
    pool += [bytes([rng.randint(128, 255)]) * rng.randint(1, 4) for _ in range(3)]                # negative chars
    pool += [b"x" * rng.choice([255, 256, 1000, 4097])]                                            # long
    pool += [b"prefix" * 40 + bytes([65 + i]) for i in range(3)]                                   # long common prefix
    while len(pool) < n:
        pool.append(("k%d" % rng.randint(0, 10 ** 6)).encode())
    rng.shuffle(pool)
    return pool[:max(n, 8)]


# --------------------------------------------------------------------------------------------
# the property as a monitor on an observation trace (phi)

class Monitor:
    """decides C17 on a trace of (input line, output line) pairs of ONE side.
    Only what the property states is checked: ids per text, id -> text, absent lookups, predefined ids.
    Table length / threshold / chain order are implementation detail and ignored."""

    def __init__(self, predef):
        self.predef = predef          # [(index, hex)] from the registry, or None when unknown
        self.bad = None
        self.reset_state(False)

    def reset_state(self, master):
        self.master = master
        self.id_of = {}
        self.text_of = {}
        self.count = 0
        if master and self.predef is not None:
            for idx, h in self.predef:
                # if two registered strings share a text the first registration wins the text->id map;
                # the `predef` observation then exposes the clash
                if h not in self.id_of:
                    self.id_of[h] = idx
                    self.text_of[idx] = h
            self.count = len(self.id_of)

    def fail(self, i, kind, msg):
        if self.bad is None:
            self.bad = (i, kind, msg)

    def feed(self, i, line, out):
        t = line.split()
        o = out.split(" ")
        if not t:
            return
        op = t[0]
        if out == "bad-op":
            if op == "str" and len(t) == 2 and t[1].isdigit() and int(t[1]) in self.text_of:
                self.fail(i, "str-handed-out-id-rejected", "id %s was handed out but lookup by id is refused" % t[1])
            return
        if o[0] != "ok":
            self.fail(i, "unexpected-answer", out[:80])
            return
        if op in ("dict", "master"):
            self.reset_state(op == "master")
            return
        if op in ("add", "adds", "addp") and len(t) == 2 and len(o) >= 3:
            h, ident, cnt = t[1], int(o[1]), int(o[2])
            if h in self.id_of:
                if ident != self.id_of[h]:
                    self.fail(i, "same-text-different-id", "text %s had id %d, now interned as %d" % (h[:40], self.id_of[h], ident))
                if cnt != self.count:
                    self.fail(i, "re-add-changed-size", "re-interning changed the size %d -> %d" % (self.count, cnt))
            else:
                if ident == 0:
                    self.fail(i, "add-returned-none", "Add returned id 0")
                elif ident in self.text_of:
                    self.fail(i, "different-text-same-id", "id %d already denotes %s, now also %s" % (ident, self.text_of[ident][:40], h[:40]))
                else:
                    self.id_of[h] = ident
                    self.text_of[ident] = h
                self.count = cnt
        elif op == "get" and len(t) == 2 and len(o) >= 3:
            h, ident, cnt = t[1], int(o[1]), int(o[2])
            want = self.id_of.get(h, 0)
            if ident != want:
                kind = "absent-lookup-found" if want == 0 else ("lookup-lost" if ident == 0 else "lookup-wrong-id")
                self.fail(i, kind, "Get(%s) = %d, expected %d" % (h[:40], ident, want))
            if cnt != self.count:
                self.fail(i, "lookup-changed-size", "lookup changed the size %d -> %d" % (self.count, cnt))
        elif op == "str" and len(t) == 2 and len(o) >= 2:
            ident = int(t[1])
            if ident in self.text_of and o[1] != self.text_of[ident]:
                self.fail(i, "id-denotes-other-text", "id %d denoted %s, now %s" % (ident, self.text_of[ident][:40], o[1][:40]))
        elif op == "more" and len(o) >= 2:
            if int(o[1]) != self.count:
                self.fail(i, "presize-changed-size", "AllocateMoreString changed the size %d -> %s" % (self.count, o[1]))
        elif op == "reset" and len(o) >= 2:
            self.reset_state(self.master)
            if int(o[1]) != self.count and (not self.master or self.predef is not None):
                self.fail(i, "reset-size", "size after reset %s, expected %d" % (o[1], self.count))
        elif op == "predef":
            for part in o[1:]:
                f = part.split(":")
                if len(f) != 4:
                    continue
                idx, h, g, tx = int(f[0]), f[1], int(f[2]), f[3]
                if self.master:
                    if g != idx or tx != h:
                        self.fail(i, "predefined-id", "predefined string #%d %s: Get(text)=%d Get(id)=%s" % (idx, h[:40], g, tx[:40]))
                else:
                    if g != self.id_of.get(h, 0):
                        self.fail(i, "lookup-wrong-id", "Get(%s) = %d, expected %d" % (h[:40], g, self.id_of.get(h, 0)))
        elif op == "all":
            got = [x for x in o[1:] if x != ""]
            if len(got) != self.count:
                self.fail(i, "size", "%d ids enumerate, %d expected" % (len(got), self.count))
            for k, tx in enumerate(got):
                if (k + 1) in self.text_of and self.text_of[k + 1] != tx:
                    self.fail(i, "id-denotes-other-text", "id %d denoted %s, now %s" % (k + 1, self.text_of[k + 1][:40], tx[:40]))
                    break
            if len(set(got)) != len(got):
                self.fail(i, "different-id-same-text", "two ids denote the same text")


def phi(lines, outs, predef):
    m = Monitor(predef)
    for i, (l, o) in enumerate(zip(lines, outs)):
        m.feed(i, l, o)
        if m.bad:
            break
    return m.bad


class Prop:
    def __init__(self, predef):
        self.predef = predef

    def continuations(self, lines, rng):
        """suffixes that turn a difference of table shape into a failing clause of C17 (if there is one):
        look every interned text up again by text and by id, intern it again, grow the table across the
        next thresholds with fresh texts (re-checking the old ones after every growth), pre-size by small
        and large amounts"""
        texts = []
        for l in lines:
            t = l.split()
            if len(t) == 2 and t[0] in ("add", "adds", "addp") and t[1] not in texts:
                texts.append(t[1])
        def recheck(ts):
            return ["get " + x for x in ts] + ["add " + x for x in ts] + ["all"]
        fresh = ["66%04x" % i for i in range(400)]
        yield recheck(texts)
        for k in (1, 2, 3, 5, 8, 13, 21, 40, 80, 160):
            yield ["add " + x for x in fresh[:k]] + recheck(texts + fresh[:k])
        for k in (6, 20, 65, 150):
            for m in (1, 3, 10, 40):
                yield ["add " + x for x in fresh[:k]] + ["more %d" % m] + recheck(texts + fresh[:k]) + \
                      ["add " + x for x in fresh[k:k + 5]] + recheck(texts + fresh[:k + 5])
        for _ in range(40):
            k = rng.randint(1, 200)
            seq = []
            for x in fresh[:k]:
                seq.append("add " + x)
                if rng.random() < 0.1:
                    seq.append("more %d" % rng.choice([1, 2, 5, 30]))
                if rng.random() < 0.2:
                    seq.append("get " + rng.choice(texts + fresh[:k]))
            yield seq + recheck(texts + fresh[:k])

    def classify(self, lines, impl, crash, model):
        if crash:
            return "violation", "implementation crashed / sanitizer report / hang: " + crash, crash
        if impl and impl[-1].startswith("PHI-VIOLATION"):
            impl = impl[:-1]
        bad = phi(lines, impl, self.predef)
        if bad:
            i, kind, msg = bad
            return "violation", "line %d `%s`: %s" % (i, lines[i][:80], msg), "phi:" + kind
        i = common.first_diff(impl, model)
        if i is None:
            return "none", "no difference", "none"
        why = "line %d `%s`: implementation says `%s`, model says `%s`; the property monitor accepts the implementation's trace (difference in table length / threshold / chain order / bad-op handling only)" % (
            i, lines[i][:80] if i < len(lines) else "?", (impl[i] if i < len(impl) else "<missing>")[:120],
            (model[i] if i < len(model) else "<missing>")[:120])
        return "harmless-or-unknown", why, "diff:" + (lines[i].split(" ", 1)[0] if i < len(lines) else "eof")


class DictDiff(Diff):
    """shrinks towards the property violation (phi fails / crash on the real code) when the full
    case shows one, otherwise towards the plain model/implementation difference"""

    def __init__(self, *a, **k):
        Diff.__init__(self, *a, **k)
        self.want_phi = False

    def both(self, lines):
        """the property monitor runs on every implementation trace, not only on differing ones: when
        a theorem or table obligation no longer checks, model and code may agree with each other and
        both break the property.  A monitor failure is made visible to the generic engine as one
        extra implementation line."""
        impl, crash, info, model = Diff.both(self, lines)
        if crash is None:
            t = time.time()
            bad = phi(lines, impl, self.prop.predef)
            self.phi_s = getattr(self, "phi_s", 0.0) + time.time() - t
            if bad:
                impl = impl + ["PHI-VIOLATION line %d %s" % (bad[0], bad[1])]
        return impl, crash, info, model

    def differs(self, lines):
        if not self.want_phi:
            return Diff.differs(self, lines)
        impl, crash, info = common.run_lines(self.exe, self.hargs, lines, timeout=self.base_timeout + len(lines) // 1000)
        return crash is not None or phi(lines, impl, self.prop.predef) is not None

    def report(self, name, case):
        impl, crash, info = common.run_lines(self.exe, self.hargs, case, timeout=self.base_timeout + len(case) // 1000)
        self.want_phi = crash is not None or phi(case, impl, self.prop.predef) is not None
        try:
            Diff.report(self, name, case)
        finally:
            self.want_phi = False


# --------------------------------------------------------------------------------------------
# translator: Gen/Primes.lean, Gen/Predefined.lean

def source_primes():
    """(declared length, initialisers) of con::set_primes as written in the source"""
    src = open(os.path.join(REPO, "src", "Container", "set.cpp")).read()
    m = re.search(r"set_primes\s*\[\s*(\d*)\s*\]\s*=\s*\{([^}]*)\}", src, re.S)
    if not m:
        return None
    body = re.sub(r"//[^\n]*|/\*.*?\*/", "", m.group(2), flags=re.S)
    vals = [int(x, 0) for x in re.findall(r"[0-9][0-9a-fA-FxX]*", body)]
    decl = int(m.group(1)) if m.group(1) else len(vals)
    return decl, vals


def source_predefined():
    """texts of every `PredefinedString name("...")` definition under src/ (multiset)"""
    res = []
    for root, _, files in os.walk(os.path.join(REPO, "src")):
        for fn in files:
            if not fn.endswith((".cpp", ".h")):
                continue
            txt = open(os.path.join(root, fn), errors="replace").read()
            txt = re.sub(r"//[^\n]*", "", txt)
            for m in re.finditer(r"\bPredefinedString\s+\w+\s*\(\s*\"((?:[^\"\\]|\\.)*)\"\s*\)\s*;", txt):
                res.append(bytes(m.group(1), "utf-8").decode("unicode_escape").encode("latin-1"))
    return res


def gen_tables(ctx, exe):
    out, crash, info = common.run_lines(exe, ["--tables"], [], timeout=60)
    if crash or len(out) < 3:
        raise common.CheckError("table printer failed: %s %s" % (crash, info[-1500:]))
    primes = [int(x) for x in out[0].split()[1:]]
    predef = []
    for part in out[1].split()[1:]:
        idx, h = part.split(":")
        predef.append((int(idx), h))
    numstrings, walked = [int(x) for x in out[2].split()[1:]]
    ctx.stats["set_primes"] = primes
    ctx.stats["predefined"] = ["%d:%s" % (i, unhx(h).decode("latin-1")) for i, h in predef]
    # the registry the binary holds is what the source declares
    sp = source_primes()
    ok = sp is not None and sp[1] + [0] * (sp[0] - len(sp[1])) == primes
    ctx.oblige("translator: set_primes of the built binary == initialiser in src/Container/set.cpp (zero-filled to the declared length)",
               ok, "binary %s source %s" % (primes, sp))
    decl = sorted(source_predefined())
    ok = decl == sorted(unhx(h) for _, h in predef)
    ctx.oblige("translator: PredefinedString registry of the built binary == definitions found in src/ (as multisets)",
               ok, "registry %s sources %s" % (sorted(unhx(h) for _, h in predef), decl))
    ok = numstrings == walked == len(predef) and [i for i, _ in predef] == list(range(1, len(predef) + 1))
    ctx.oblige("translator: PredefinedString::GetIndex() is the position in PredefinedString::GetList() and GetNumStrings() its length",
               ok, "indices %s numStrings %d" % ([i for i, _ in predef], numstrings))
    head = "/-! GENERATED by tools/props/c17.py from the binary built out of $VERIF_REPO - do not edit. -/\nnamespace Morfuse.Gen\n"
    common.write_if_changed(GEN_PRIMES, head +
                            "/-- `con::set_primes` as laid out in the object file (declared length %d) -/\n" % len(primes) +
                            "def setPrimes : List Nat := [%s]\nend Morfuse.Gen\n" % ", ".join(str(p) for p in primes))
    common.write_if_changed(GEN_PREDEF, head +
                            "/-- texts of `PredefinedString::GetList()` in list order, as byte lists:\n    %s -/\n" %
                            ", ".join(repr(unhx(h).decode("latin-1")) for _, h in predef).replace("-/", "- /") +
                            "def predefined : List (List Nat) := [%s]\nend Morfuse.Gen\n" %
                            ", ".join("[" + ",".join(str(b) for b in unhx(h)) + "]" for _, h in predef))
    return primes, predef


# --------------------------------------------------------------------------------------------
# generators

def gen_case(rng, n, master=None, pool_size=40):
    """mostly-legal history with a small illegal stream (3%)"""
    pool = [hx(t) for t in universe(rng, pool_size)]
    master = rng.random() < 0.4 if master is None else master
    lines = ["master" if master else "dict"]
    added = []        # texts probably interned (for lookups), not exact: the monitor is exact
    size_hint = 4 if master else 0
    for _ in range(n):
        r = rng.random()
        if r < 0.03:
            lines.append(rng.choice(["str 0", "str %d" % (size_hint + rng.randint(50, 10 ** 6)), "add zz", "add 0", "get 6100",
                                     "add 610", "more x", "more %d" % (MAX_MORE + 1), "frobnicate", "add", "str -1",
                                     "get 61 62", "adds 0061", "reset now"]))
        elif r < 0.45:
            t = rng.choice(pool)
            r = rng.random()
            lines.append(("add " if r < 0.5 else "adds " if r < 0.8 else "addp ") + t)
            added.append(t)
            size_hint += 1
        elif r < 0.60:
            t = rng.choice(added) if added and rng.random() < 0.6 else rng.choice(pool)
            lines.append("get " + t)
        elif r < 0.75:
            lines.append("str %d" % rng.randint(1, max(1, min(size_hint, len(pool)))))
        elif r < 0.82:
            lines.append("more %d" % rng.choice([0, 1, 2, 3, 5, 8, 17, 40, rng.randint(0, 400)]))
        elif r < 0.86:
            lines.append("reset")
            added = []
            size_hint = 4 if master else 0
        elif r < 0.90:
            lines.append("predef")
        elif r < 0.95:
            lines.append("dump")
        elif r < 0.98:
            lines.append("all")
        else:
            master = rng.random() < 0.5
            lines.append("master" if master else "dict")     # another dictionary
            added = []
            size_hint = 4 if master else 0
    lines += ["predef", "all", "dump"]
    return lines


def gen_growth(rng, n, master, probe=0.05, presize=True):
    """n fresh texts interned one after the other (crossing every table growth step below n) with
    lookups by text / by id of earlier entries in between, optional pre-sizing, and a final
    enumeration of every id"""
    lines = ["master" if master else "dict"]
    stem = "%x" % rng.randint(0, 0xffff)
    texts = []
    for i in range(n):
        t = hx(("%s_%d" % (stem, i)).encode()) if rng.random() < 0.9 else hx(bytes([rng.randint(1, 255) for _ in range(rng.randint(1, 9))]) + ("%d" % i).encode())
        texts.append(t)
        lines.append(("add " if i % 3 else "adds " if i % 2 else "addp ") + t)
        if rng.random() < probe:
            k = rng.randint(0, i)
            c = rng.random()
            if c < 0.4:
                lines.append("get " + texts[k])
            elif c < 0.7:
                lines.append("str %d" % (k + 1 + (4 if master else 0)))
            elif c < 0.8:
                lines.append("add " + texts[k])
            elif c < 0.9:
                lines.append("get " + hx(("absent_%d" % i).encode()))
            elif presize and c < 0.93:
                lines.append("more %d" % rng.choice([1, 7, 100, i // 2 + 1]))
            else:
                lines.append("predef")
    lines += ["predef", "all"]
    if n <= 2000:
        lines.append("dump")
    return lines


EXH_TEXTS = [hx(b"Aa"), hx(b"BB"), hx(b"c")]       # the first two have the same hash


def exhaustive(maxlen):
    """every history of length maxlen over a small alphabet (two hash-colliding texts and a third,
    pre-sizing, reset), for a stand-alone dictionary and for a script master"""
    alphabet = ["add " + EXH_TEXTS[0], "add " + EXH_TEXTS[1], "adds " + EXH_TEXTS[2], "get " + EXH_TEXTS[1],
                "more 1", "more 3", "reset", "str 1", "str 2"]
    out = []
    for head in ("dict", "master"):
        for combo in itertools.product(alphabet, repeat=maxlen):
            out.append([head] + list(combo) + ["all", "dump"])
    return out


def corpus_cases():
    res = []
    for p in sorted(glob.glob(os.path.join(VERIF, "corpus", "C17", "*.json"))):
        res.append(("corpus:" + os.path.basename(p), json.load(open(p))["lines"]))
    return res


def build(ctx):
    return common.build_full(ctx, "h_dict", ["dict.cpp"])


def check(ctx):
    exe = build(ctx)
    primes, predef = gen_tables(ctx, exe)
    proofs_ok, out = common.proof_side(ctx, PROPS_MODULE, PROPS_FILE)
    if not ctx.stats.get("lake_build_ok"):
        # a regenerated table may have broken a `decide` obligation in Props/C17.lean; the driver does
        # not depend on Props, so the search for a concrete failing input can still run
        ok, out2 = common.lake_build(["driver"])
        if not ok:
            raise common.CheckError("lean driver does not build:\n" + out2[-3000:])
        ctx.notes.append("lake build failed; driver rebuilt alone to search for a failing input")
    elif ctx.tier == "thorough":
        common.leanchecker(ctx, PROPS_MODULE)
    prop = Prop(predef)
    d = DictDiff(ctx, prop, exe, AREA)
    quick = ctx.tier == "quick"
    bad = d.run_batch(corpus_cases())
    # fixed smoke cases: predefined ids in two script masters and after resets
    bad += d.run_batch([("fixed:masters", ["master", "predef", "reset", "predef", "add 6162", "reset", "predef", "master", "predef",
                                           "more 50", "predef", "add 6162", "str 5", "reset", "predef", "all", "dump"]),
                        ("fixed:collide", ["dict"] + ["add " + hx(t) for t in colliding(4)] + ["get " + hx(t) for t in colliding(4)] + ["all", "dump"])])
    rng = ctx.rng("random")
    ncases, length = (400, 220) if quick else (6000, 900)
    batch = []
    for i in range(ncases):
        batch.append(("random:%d" % i, gen_case(rng, rng.choice([10, 40, length]))))
        if len(batch) == 100:
            bad += d.run_batch(batch)
            batch = []
    bad += d.run_batch(batch)
    exh = exhaustive(4 if quick else 5)
    ctx.stats["exhaustive_histories"] = len(exh)
    for i in range(0, len(exh), 3000):
        bad += d.run_batch([("exh:%d" % (i + j), c) for j, c in enumerate(exh[i:i + 3000])])
    # growth across the prime table
    rg = ctx.rng("growth")
    sizes = [200, 1500, 6000, 12000, 25000] if quick else [200, 1500, 6000, 23000, 45000, 100000, 100000]
    growth = []
    for k, n in enumerate(sizes):
        growth.append(("growth:%d:%d" % (k, n), gen_growth(rg, n, master=(k % 2 == 1), presize=(k % 3 != 2))))
    crossed = sorted(p for p in primes if p and p < max(sizes) + 4)
    ctx.stats["growth_sizes"] = sizes
    ctx.stats["table_lengths_crossed"] = crossed
    for g in growth:
        bad += d.run_batch([g])
    if not quick:
        # pre-size then fill: no rehash on the way; and fill then pre-size far beyond
        n = 30000
        bad += d.run_batch([("presize:fill", ["dict", "more %d" % n] + gen_growth(rg, n, False, presize=False)[1:]),
                            ("presize:after", gen_growth(rg, 9000, True)[:-2] + ["more 300000", "predef", "all"] +
                             ["add " + hx(("late_%d" % i).encode()) for i in range(3000)] + ["predef", "all"])])
    if not ctx.stats.get("lake_build_ok"):
        # the search guided by the failed build found concrete failing inputs: they stand for it
        for v in ctx.violations:
            if v.get("found_input"):
                v["obligation"] = "lake build"
                break
    ctx.oblige("correspondence harness/dict.cpp == Dict model on %d histories" % d.cases, bad == 0,
               "%d differing cases" % bad, reported=True)
    ctx.stats["monitor_s"] = round(getattr(d, "phi_s", 0.0), 1)
    ctx.samples = [gen_case(ctx.rng("sample"), 10)[:14]]
    cov = {
        "evaluations": d.cases, "distinct_nontrivial": len(d.distinct),
        "rule": "histories of add/adds/addp (character array, dynamic string, (pointer,length) view into a longer buffer)/get/str/more/reset/predef/all/dump over pools of texts (empty, case variants, common prefixes, long, binary incl. bytes >= 128, 8-16 texts with identical hash) for stand-alone dictionaries and script masters, 3% illegal lines; every history of the stated length over 9 operations on 3 texts (two colliding); growth histories interning up to the stated number of fresh texts with interleaved lookups; non-trivial = at least one accepted operation with an observation; distinct by SHA-1 of the op lines",
        "op_lines": d.lines, "op_histogram": d.hist, "model_answer_kinds": d.outkinds,
        "max_entries": max(sizes), "table_lengths_crossed": crossed,
        "exhaustive": False,
    }
    return common.finish(ctx, "proof", cov, TRUSTED, ASSUME,
                         "cd lean && lake build && lake env lean <Audit.lean with #print axioms>; tools/check.py C17")


def replay(ctx, obj):
    exe = build(ctx)
    primes, predef = gen_tables(ctx, exe)
    ok, out = common.lake_build(["driver"])
    if not ok:
        raise common.CheckError("lean driver does not build:\n" + out[-3000:])
    if obj.get("kind") == "proof-obligation":
        ok, out = common.lake_build()
        print("obligation `%s`: lake build %s" % (obj.get("obligation"), "ok" if ok else "FAILS"))
        if not ok:
            print(out[-2000:])
        return 0 if ok else 1
    prop = Prop(predef)
    d = DictDiff(ctx, prop, exe, AREA)
    impl, crash, info, model = d.both(obj["lines"])
    n = len(obj["lines"])
    for i, l in enumerate(obj["lines"]):
        if n > 60 and 25 < i < n - 25 and (i >= len(impl) or i >= len(model) or impl[i] == model[i]):
            continue
        print("> %s\n  impl : %s\n  model: %s" % (l[:200], (impl[i] if i < len(impl) else "<missing>")[:300],
                                                    (model[i] if i < len(model) else "<missing>")[:300]))
    if crash:
        print("CRASH", crash)
        print(info)
    verdict, why, sig = prop.classify(obj["lines"], impl, crash, model)
    print("classification:", verdict, "-", why)
    bad = crash is not None or common.first_diff(impl, model) is not None
    print("replay:", "still differs" if bad else "no difference")
    return 1 if bad else 0
