"""C18 — core containers and strings behave like their abstract models (DESIGN.md 7.7).

Three areas, one Lean model + driver sub-command + C++ harness each:
  container  con::Container<T>          lean/MorfuseModel/Container/*  harness/container.cpp
  hashset    con::set / con::map        lean/MorfuseModel/HashSet/*    harness/hashset.cpp
  str        mfuse::str (copy-on-write) lean/MorfuseModel/Str/*        harness/strh.cpp
"""
import binascii
import glob
import itertools
import json
import os
import re

from vlib import common
from vlib.common import Diff, VERIF, LEAN, REPO, HARNESS

PROPS_MODULE = "MorfuseModel.Props.C18"
PROPS_FILE = os.path.join(LEAN, "MorfuseModel", "Props", "C18.lean")

TRUSTED = [
    "Lean 4.33.0 kernel (lake build; leanchecker in the thorough tier)",
    "axioms allowed: propext, Classical.choice, Quot.sound (audited by #print axioms on every run)",
    "hand-written models lean/MorfuseModel/{Container,HashSet,Str}/Model.lean of include/morfuse/Container/{Container,set}.h and src/Common/str.cpp, tied by the differential correspondence runs (harness/{container,hashset,strh}.cpp vs the lean driver)",
    "the harness element type (counts constructions/destructions, registry of live addresses) and the harness-side ub guards, which repeat the guards proved in Props/C18.lean",
    "g++ 12 / ASan / UBSan semantics for memory safety of the real containers (freed buffers, bounds)",
]
ASSUME = [
    "operations whose C++ meaning is undefined (the model faults) are answered `ub` by both sides and not executed: Container::ObjectAt/SetObjectAt/operator[] with index 0 or > NumObjects, AddObjectAt(0,_), AddObject(ObjectAt(i)) when the call grows the array",
    "Container: AddressOfObjectAt, SetNumObjectsUninitialized, Sort, Data()/begin()/end() and archiving are POD-only / raw-storage API outside the lifetime discipline and are not modelled",
    "sizes stay far below 2^63 (no size_t overflow in capacity arithmetic)",
    "the element type's copy/move/compare do not throw and do not re-enter the container",
]


def corpus_cases(area):
    res = []
    for p in sorted(glob.glob(os.path.join(VERIF, "corpus", "C18", area + "-*.json"))):
        res.append(("corpus:" + os.path.basename(p), json.load(open(p))["lines"]))
    return res


def why_line(lines, impl, model, i):
    return "line %d `%s`: implementation says `%s`, proved model says `%s`" % (
        i, lines[i][:80] if i < len(lines) else "?", (impl[i] if i < len(impl) else "<missing>")[:160],
        (model[i] if i < len(model) else "<missing>")[:160])


# --------------------------------------------------------------------------------------------
# Container

class ContainerMonitor:
    """C18 for the dynamic array as a predicate on ONE side's trace: an abstract Python list per
    container, the obvious list operation per line; compared: return values, contents, that every
    element inside NumObjects is a live object, constructions - destructions = live objects =
    sum of NumObjects, NumObjects <= MaxObjects, no lifetime fault.  Capacity policy is not compared."""

    def __init__(self):
        self.bad = None
        self.l = [[], []]

    def fail(self, i, kind, msg):
        if self.bad is None:
            self.bad = (i, kind, msg)

    def feed(self, i, line, out):
        t = line.split()
        if not t or out in ("bad-op", "ub"):
            return
        o = out.split(" | ")
        if not out.startswith("ok ") or len(o) != 4:
            self.fail(i, "unexpected-answer", out[:80])
            return
        ret = o[0].split(" ")[1] if len(o[0].split(" ")) > 1 else "?"
        op = t[0]
        try:
            a = [int(x) for x in t[1:]]
        except ValueError:
            return
        if op == "reset":
            self.l = [[], []]
        else:
            c = a[0]
            L = self.l[c]
            want = "-"
            if op == "add":
                L.append(a[1]); want = str(len(L))
            elif op == "adddef":
                L.append(0); want = str(len(L) - 1)
            elif op == "new":
                L.append(a[1])
            elif op == "addu":
                if a[1] in L:
                    want = str(L.index(a[1]) + 1)
                else:
                    L.append(a[1]); want = str(len(L))
            elif op == "addat":
                while len(L) < a[1]:
                    L.append(0)
                L[a[1] - 1] = a[2]
            elif op == "ins":
                if 1 <= a[1] <= len(L) + 1:
                    L.insert(a[1] - 1, a[2])
            elif op == "rmat":
                if 1 <= a[1] <= len(L):
                    del L[a[1] - 1]
                else:
                    want = "threw"
            elif op == "rm":
                if a[1] in L:
                    L.remove(a[1])
            elif op == "rmptr":
                if a[1] < len(L):
                    del L[a[1]]
            elif op == "set":
                L[a[1] - 1] = a[2]
            elif op == "get":
                want = "v%d" % L[a[1] - 1]
            elif op == "idx":
                want = str(L.index(a[1]) + 1 if a[1] in L else 0)
            elif op == "has":
                want = "true" if a[1] in L else "false"
            elif op == "resize":
                if a[1] == 0:
                    del L[:]          # documented: Resize(0) frees the list
            elif op == "setnum":
                del L[a[1]:]
                while len(L) < a[1]:
                    L.append(0)
            elif op in ("clear", "free"):
                del L[:]
            elif op in ("copy", "cctor"):
                self.l[c] = list(self.l[a[1]])
            elif op in ("move", "mctor"):
                src = list(self.l[a[1]])
                self.l[a[1]] = []
                self.l[c] = src if op == "mctor" or a[1] != c else []
            elif op == "adddup":
                L.append(L[a[1] - 1]); want = str(len(L))
            if ret != want:
                self.fail(i, "return-value", "%s returned %s, an abstract sequence returns %s" % (op, ret, want))
        total = 0
        for c in (0, 1):
            f = o[1 + c].split(" ")
            num, mx, els = int(f[0]), int(f[1]), f[3:]
            total += num
            if num > mx:
                self.fail(i, "capacity", "NumObjects %d > MaxObjects %d" % (num, mx))
            if "?" in els:
                self.fail(i, "raw-slot-inside", "a slot below NumObjects holds no object: %s" % " ".join(els))
            elif [int(x) for x in els] != self.l[c] or num != len(self.l[c]):
                self.fail(i, "contents", "container %d holds [%s], an abstract sequence holds %s" % (c, " ".join(els), self.l[c]))
        led = dict(kv.split("=") for kv in o[3].split(" "))
        if "fault" in led:
            self.fail(i, "lifetime-" + led["fault"].split(",")[0], "lifetime discipline broken: " + led["fault"])
        if int(led["live"]) != total:
            self.fail(i, "ledger-live", "%s live element objects but the containers hold %d" % (led["live"], total))
        if int(led["c"]) - int(led["d"]) != int(led["live"]):
            self.fail(i, "ledger-balance", "constructions %s - destructions %s != live %s" % (led["c"], led["d"], led["live"]))


def phi(monitor_cls, lines, outs):
    m = monitor_cls()
    for i, (l, o) in enumerate(zip(lines, outs)):
        try:
            m.feed(i, l, o)
        except (IndexError, ValueError, KeyError) as e:      # an answer the abstract model cannot follow
            m.fail(i, "monitor-lost", "%s: %s" % (type(e).__name__, e))
        if m.bad:
            break
    return m.bad


class Prop:
    def __init__(self, monitor_cls):
        self.monitor_cls = monitor_cls

    def classify(self, lines, impl, crash, model):
        if crash:
            return "violation", "implementation crashed / sanitizer report / hang: " + crash, crash
        if impl and impl[-1].startswith("PHI-VIOLATION"):
            impl = impl[:-1]
        bad = phi(self.monitor_cls, lines, impl)
        if bad:
            i, kind, msg = bad
            return "violation", "line %d `%s`: %s" % (i, lines[i][:80], msg), "phi:%s:%s" % (kind, lines[i].split(" ", 1)[0])
        i = common.first_diff(impl, model)
        if i is None:
            return "none", "no difference", "none"
        return ("harmless-or-unknown", why_line(lines, impl, model, i) +
                "; the property monitor accepts the implementation's trace (capacity / bucket layout / bad-op handling only)",
                "diff:" + (lines[i].split(" ", 1)[0] if i < len(lines) else "eof"))


class PhiDiff(Diff):
    """the property monitor runs on every implementation trace (so that a model and a code that
    agree with each other but both break the property are still caught); shrinking goes towards the
    monitor failure / crash when the full case shows one"""

    def __init__(self, *a, **k):
        Diff.__init__(self, *a, **k)
        self.want_phi = False

    def both(self, lines):
        impl, crash, info, model = Diff.both(self, lines)
        if crash is None:
            bad = phi(self.prop.monitor_cls, lines, impl)
            if bad:
                impl = impl + ["PHI-VIOLATION line %d %s" % (bad[0], bad[1])]
        return impl, crash, info, model

    def report(self, name, case):
        return Diff.report(self, name, case)


C_VALUES = [1, 2, 3, 4]


def gen_container(rng, n, have_insert):
    lines = ["reset"]
    num = [0, 0]          # approximate NumObjects (the monitor is exact)
    for _ in range(n):
        r = rng.random()
        c = rng.randint(0, 1)
        v = rng.choice(C_VALUES)
        near = lambda: max(0, num[c] + rng.choice([-2, -1, 0, 0, 1, 2])) if rng.random() < 0.7 else rng.randint(0, 14)
        if r < 0.03:
            lines.append(rng.choice(["add 2 1", "add 0", "frob 0", "rmat 0 x", "copy 0 2", "cctor 1 1", "mctor 0 0", "set 0 1", "get", "resize 0 -1"]))
        elif r < 0.25:
            lines.append("add %d %d" % (c, v)); num[c] += 1
        elif r < 0.29:
            lines.append("adddef %d" % c); num[c] += 1
        elif r < 0.33:
            lines.append("new %d %d" % (c, v)); num[c] += 1
        elif r < 0.37:
            lines.append("addu %d %d" % (c, v))
        elif r < 0.41:
            i = near(); lines.append("addat %d %d %d" % (c, i, v)); num[c] = max(num[c], i)
        elif r < 0.47 and have_insert:
            lines.append("ins %d %d %d" % (c, near(), v)); num[c] += 1
        elif r < 0.57:
            lines.append("rmat %d %d" % (c, near())); num[c] = max(0, num[c] - 1)
        elif r < 0.61:
            lines.append("rm %d %d" % (c, v)); num[c] = max(0, num[c] - 1)
        elif r < 0.64:
            lines.append("rmptr %d %d" % (c, near()))
        elif r < 0.68:
            lines.append("set %d %d %d" % (c, near(), v))
        elif r < 0.72:
            lines.append("get %d %d" % (c, near()))
        elif r < 0.75:
            lines.append("%s %d %d" % (rng.choice(["idx", "has"]), c, v))
        elif r < 0.79:
            lines.append("resize %d %d" % (c, rng.choice([0, 1, near(), near(), 2 * num[c] + 1])))
        elif r < 0.83:
            k = near(); lines.append("setnum %d %d" % (c, k)); num[c] = k
        elif r < 0.86:
            lines.append("shrink %d" % c)
        elif r < 0.88:
            lines.append("%s %d" % (rng.choice(["clear", "free"]), c)); num[c] = 0
        elif r < 0.92:
            d = rng.randint(0, 1); lines.append("copy %d %d" % (c, d)); num[c] = num[d]
        elif r < 0.95:
            d = rng.randint(0, 1); lines.append("move %d %d" % (c, d)); num[c] = num[d]; num[d] = 0 if c != d else 0
        elif r < 0.97:
            lines.append("%s %d %d" % (rng.choice(["cctor", "mctor"]), c, 1 - c)); num[c] = num[1 - c]
        else:
            lines.append("adddup %d %d" % (c, near())); num[c] += 1
    return lines


def exh_container(maxlen, have_insert, core=False):
    """every history of the given length over a small alphabet (correspondence input, not proof)"""
    if core:
        alphabet = ["add 0 1", "add 0 2", "rmat 0 1", "setnum 0 1", "copy 1 0", "move 0 1", "shrink 0"]
        alphabet += ["ins 0 1 3"] if have_insert else ["addat 0 3 2"]
    else:
        alphabet = ["add 0 1", "add 0 2", "rmat 0 1", "rmat 0 2", "setnum 0 1", "addat 0 3 2", "shrink 0",
                    "copy 1 0", "move 0 1", "resize 0 0", "addu 0 1"]
        if have_insert:
            alphabet += ["ins 0 1 3", "ins 0 2 4"]
    return [["reset"] + list(c) for c in itertools.product(alphabet, repeat=maxlen)]


def build_container(ctx):
    srcs = ["src/Common/MEM/Memory.cpp", "src/Common/MEM/DefaultAlloc.cpp"]
    try:
        exe = common.build_light(ctx, "h_container", ["container.cpp"], srcs, extra=["-DC18_HAVE_INSERT"])
        return exe, True
    except common.CheckError as e:
        if "InsertObjectAt" not in str(e):
            raise
    return common.build_light(ctx, "h_container", ["container.cpp"], srcs), False


# --------------------------------------------------------------------------------------------
# HashSet

HS_LINE = re.compile(r"^ok (.*?) \| (\d+ \d+ \d+ \d+ de=\d) \|(.*) \| (c=.*)$")


class HashSetMonitor:
    """C18 for con::set / con::map as a predicate on ONE side's trace: a Python dict; compared:
    return values, the contents read from the bucket array, size() = number of keys, every full
    enumeration (map_enum sweep, set_enum stepwise) visits each entry exactly once, entries
    constructed - destroyed = entries alive = size().  Table length, threshold, bucket and
    enumeration *order* are not compared."""

    def __init__(self):
        self.bad = None
        self.ds = [{}, {}]     # two maps; `sel i` chooses the one the other lines act on
        self.sel = 0
        self.seen = None
        self.bound = None      # the map the stepwise enumerator is bound to (None: default-constructed)

    @property
    def d(self):
        return self.ds[self.sel]

    def fail(self, i, kind, msg):
        if self.bad is None:
            self.bad = (i, kind, msg)

    def feed(self, i, line, out):
        t = line.split()
        if not t or out == "bad-op":
            return
        mo = HS_LINE.match(out)
        if not mo:
            self.fail(i, "unexpected-answer", out[:80])
            return
        o = [None, mo.group(2), mo.group(3), mo.group(4)]
        ret = mo.group(1)
        op = t[0]
        d = self.d
        want = None
        if "!" in ret:
            self.fail(i, "enumerator-api", "`%s` answered `%s`" % (line, ret))
            return
        if op == "reset":
            self.ds = [{}, {}]; self.sel = 0
            d = self.d
            self.seen = None
        elif op == "sel":
            self.sel = int(t[1]); d = self.d; want = "-"
        elif op == "put":
            d[int(t[1])] = int(t[2]); want = "-"; self.seen = None
        elif op == "touch":
            want = "v%d" % d.setdefault(int(t[1]), 0); self.seen = None
        elif op == "addi":
            want = "v%d" % d.setdefault(int(t[1]), int(t[2])); self.seen = None
        elif op == "get":
            k = int(t[1]); want = "v%d" % d[k] if k in d else "none"
        elif op == "rm":
            k = int(t[1]); want = "true" if k in d else "false"; d.pop(k, None); self.seen = None
        elif op == "size":
            want = str(len(d))
        elif op in ("resize", "shrink"):
            want = "-"; self.seen = None
        elif op == "quiet":
            want = "-"
        elif op == "clear":
            d.clear(); want = "-"; self.seen = None
        elif op == "enum":
            got = sorted(ret.split())
            exp = sorted("%d:%d" % kv for kv in d.items())
            if got != exp:
                kind = "enum-twice" if len(set(got)) != len(got) else ("enum-missed" if len(got) < len(exp) else "enum-wrong")
                self.fail(i, kind, "a full enumeration visited [%s], the map holds [%s]" % (" ".join(got), " ".join(exp)))
        elif op == "estart":
            self.seen = []; self.bound = self.sel
        elif op == "enew":
            self.seen = []; self.bound = None
        elif op == "erebind" and self.seen is not None:
            # `en = set`: whatever the enumerator was doing, a sweep now visits the NEW set's entries once each
            self.seen = []; self.bound = int(t[1])
        elif op == "enext" and self.seen is not None:
            bd = self.ds[self.bound] if self.bound is not None else {}
            if ret == "end" and self.seen == "done":
                pass
            elif ret == "end":
                exp = sorted("%d:%d" % kv for kv in bd.items())
                if sorted(self.seen) != exp:
                    self.fail(i, "enum-missed" if len(self.seen) < len(exp) else "enum-wrong",
                              "stepwise enumeration visited [%s], the set holds [%s]" % (" ".join(self.seen), " ".join(exp)))
                self.seen = "done"  # m_Index stays 0: every further NextElement answers the end
            elif self.seen == "done":
                self.fail(i, "enum-after-end", "NextElement returned %s after the end of the enumeration" % ret)
            else:
                if ret in self.seen:
                    self.fail(i, "enum-twice", "stepwise enumeration visited %s twice" % ret)
                elif ret not in ["%d:%d" % kv for kv in bd.items()]:
                    self.fail(i, "enum-foreign", "stepwise enumeration returned %s, which the set it is bound to does not hold" % ret)
                self.seen.append(ret)
        if want is not None and ret != want:
            self.fail(i, "return-value", "%s returned `%s`, an abstract map returns `%s`" % (op, ret, want))
        f = o[1].split(" ")
        cnt = int(f[0])
        got = o[2].split()
        exp = ["%d:%d" % kv for kv in sorted(d.items())] if got != ["-"] else ["-"]
        if got != exp:
            lost = [e for e in exp if e not in got]
            kind = "contents-lost" if lost else "contents"
            self.fail(i, kind, "the table holds [%s], an abstract map holds [%s]" % (" ".join(got), " ".join(exp)))
        if cnt != len(d):
            self.fail(i, "size", "size() = %d, an abstract map has %d keys" % (cnt, len(d)))
        led = dict(kv.split("=") for kv in o[3].split(" "))
        if "keys-live" in led:
            self.fail(i, "ledger-keys", "key objects alive %s != value objects alive %s" % (led["keys-live"], led["live"]))
        if int(led["live"]) != len(d):
            self.fail(i, "ledger-live", "%s entries alive but the map holds %d" % (led["live"], len(d)))
        if int(led["c"]) - int(led["d"]) != int(led["live"]):
            self.fail(i, "ledger-balance", "entries constructed %s - destroyed %s != alive %s" % (led["c"], led["d"], led["live"]))


COLLIDE = [1, 8, 18, 120]            # 1 = 8 (mod 7), 1 = 18 (mod 17), 1 = 120 (mod 7 and mod 17)


def hash_universe(rng):
    style = rng.random()
    n = rng.choice([4, 4, 6, 9, 12, 24])
    if style < 0.35:
        hs = COLLIDE + [rng.choice([2, 3, 9, 16, 35, 36, 239, 1 + 7 * 17 * 37, rng.randint(0, 300)]) for _ in range(n - 4)]
    elif style < 0.5:
        hs = [rng.choice([0, 5, 2 ** 64 - 1])] * n                              # everything collides
    elif style < 0.75:
        hs = [rng.randint(0, 40) for _ in range(n)]
    elif style < 0.9:
        hs = [rng.choice([rng.randint(0, 2 ** 64 - 1), 2 ** 63, 2 ** 63 - 1, 2 ** 64 - 1 - rng.randint(0, 20)]) for _ in range(n)]   # negative intptr_t
    else:
        hs = list(range(n))
    return hs


def gen_hashset(rng, n):
    hs = hash_universe(rng)
    nk = len(hs)
    lines = ["reset " + " ".join(str(h) for h in hs)]
    en = False
    for _ in range(n):
        r = rng.random()
        k = rng.randrange(nk)
        v = rng.randint(1, 9)
        if r < 0.03:
            lines.append(rng.choice(["put %d 1" % nk, "put 0", "get x", "frob", "rm", "resize -1", "resize 100001", "enext 1", "reset", "touch 99999999999999999999999"]))
        elif r < 0.30:
            lines.append("put %d %d" % (k, v)); en = False
        elif r < 0.36:
            lines.append("touch %d" % k); en = False
        elif r < 0.42:
            lines.append("addi %d %d" % (k, v)); en = False
        elif r < 0.52:
            lines.append("get %d" % k)
        elif r < 0.72:
            lines.append("rm %d" % k); en = False
        elif r < 0.74:
            lines.append("size")
        elif r < 0.79:
            lines.append("resize %d" % rng.choice([0, 1, 2, 3, 5, 7, 8, 17, 20, rng.randint(0, 40)])); en = False
        elif r < 0.85:
            lines.append("shrink"); en = False
        elif r < 0.87:
            lines.append("clear"); en = False
        elif r < 0.92:
            lines.append("enum")
        elif r < 0.935:
            lines.append("estart"); en = True
        elif r < 0.945:
            lines.append(rng.choice(["erebind 0", "erebind 1", "erebind 0", "enew", "sel 0", "sel 1"]))   # erebind: bad-op when no enumerator is live
        else:
            lines.append("enext")            # bad-op on both sides when no enumerator is live
    lines.append("enum")
    lines.append("estart")
    lines += ["enext"] * (nk + 2)
    return lines


def gen_rebind(rng):
    """directed family: an EXISTING enumerator object re-bound with `en = set` (set_enum::operator=(set&) and, in
    lockstep, map_enum::operator=(map&)) — to the same set or to the other one; after 0, 1, .., all `NextElement`
    calls (in the middle of a collision chain, at a chain end, at the end of the table), fresh, or default-
    constructed; every sweep after a rebind is run to its end (+2 calls)"""
    hs = hash_universe(rng) if rng.random() < 0.5 else [rng.choice([5, 1, 8, 120])] * rng.choice([3, 4, 6])
    if rng.random() < 0.4:
        hs = COLLIDE + [1 + 7 * 17 * k for k in range(1, rng.randint(2, 5))]       # one long chain at every table length
    nk = len(hs)
    lines = ["reset " + " ".join(str(h) for h in hs)]
    size = [0, 0]
    for which in (0, 1):
        lines.append("sel %d" % which)
        keys = rng.sample(range(nk), rng.randint(0 if which else 2, nk))
        for k in keys:
            lines.append("put %d %d" % (k, rng.randint(1, 9)))
        size[which] = len(keys)
        if rng.random() < 0.2:
            lines.append(rng.choice(["shrink", "resize %d" % rng.choice([0, 2, 7, 17, 20])]))
    selected = rng.randint(0, 1)
    lines.append("sel %d" % selected)
    cur = None          # the map the enumerator is bound to; -1: default-constructed; None: no enumerator yet
    for _ in range(rng.randint(2, 6)):
        if cur is None or rng.random() < 0.15:
            if rng.random() < 0.25:
                lines.append("enew"); cur = -1
                if rng.random() < 0.5:
                    lines.append("enext")
            else:
                if rng.random() < 0.5:
                    selected = rng.randint(0, 1)
                    lines.append("sel %d" % selected)
                lines.append("estart"); cur = selected
        else:
            cur = rng.randint(0, 1)
            lines.append("erebind %d" % cur)
        n = size[cur] if cur >= 0 else 0
        # abandon the sweep after 0 .. n calls (mid-chain when keys collide), or run it past the end
        steps = rng.choice([0, 1, 1, 2, 2, 3, max(0, n - 1), n, n + 1, n + 2])
        lines += ["enext"] * min(steps, n + 2)
        if rng.random() < 0.15:
            x = rng.choice(["get %d" % rng.randrange(nk), "size", "enum", "sel"])
            if x == "sel":
                selected = rng.randint(0, 1)
                x = "sel %d" % selected
            lines.append(x)
    # the last binding is swept to its end
    target = rng.randint(0, 1)
    lines.append("erebind %d" % target)
    lines += ["enext"] * (size[target] + 2)
    if rng.random() < 0.05:
        lines += ["put 0 1", "erebind 0", "erebind 2", "erebind", "sel 2", "enew 1"]      # no live enumerator / malformed: bad-op
    return lines


def exh_rebind():
    """deterministic: 4 keys in one chain in map 0 (2 of them also in map 1): for every number of calls 0..5 before
    the rebind, for both targets, started fresh / default-constructed"""
    head = "reset " + " ".join(str(h) for h in COLLIDE)
    fill = ["put 0 1", "put 1 2", "put 2 3", "put 3 4", "sel 1", "put 1 7", "put 3 8", "sel 0"]
    out = []
    for start in ("estart", "enew"):
        for k in range(0, 6):
            for target in (0, 1):
                for k2 in (0, 1, 2):
                    out.append([head] + fill + [start] + ["enext"] * k + ["erebind %d" % target] + ["enext"] * k2 +
                               ["erebind %d" % (1 - target)] + ["enext"] * 6 + ["erebind %d" % target] + ["enext"] * 6)
    return out


def exh_hashset(maxlen, core=False):
    """every history of the given length over 4 colliding keys (correspondence input, not proof)"""
    alphabet = ["put 0 1", "put 1 2", "put 2 3", "put 3 4", "rm 0", "rm 1", "rm 2", "shrink", "resize 2", "clear"]
    if core:
        alphabet = ["put 0 1", "put 1 2", "put 2 3", "put 3 4", "rm 0", "rm 1", "shrink", "resize 2"]
    head = "reset " + " ".join(str(h) for h in COLLIDE)
    return [[head] + list(c) + ["enum"] for c in itertools.product(alphabet, repeat=maxlen)]


def gen_growth_set(rng, n, style):
    if style == "identity":
        hs = list(range(n))
    elif style == "collide":
        hs = [rng.choice([1, 8, 18, 120, 1 + 7 * 17 * 37 * rng.randint(0, 5)]) + 7 * 17 * rng.randint(0, 3) for _ in range(n)]
    else:
        hs = [rng.randint(0, 2 ** 64 - 1) for _ in range(n)]
    lines = ["reset " + " ".join(str(h) for h in hs)]
    if n > 500:
        lines.append("quiet 1")
    order = list(range(n))
    rng.shuffle(order)
    for j, k in enumerate(order):
        lines.append("put %d %d" % (k, k % 97 + 1))
        r = rng.random()
        if r < 0.05:
            lines.append("get %d" % order[rng.randint(0, j)])
        elif r < 0.08:
            lines.append("rm %d" % order[rng.randint(0, j)])
        elif r < 0.085:
            lines.append("shrink")
        elif r < 0.09 and n <= 4000:
            lines.append("enum")
    lines.append("enum")
    rng.shuffle(order)
    for j, k in enumerate(order):
        lines.append("rm %d" % k)
        if j in (n // 2, n - 3):
            lines += ["shrink", "enum"]
    lines += ["shrink", "enum", "put 0 1", "enum"]
    return lines


def build_hashset(ctx):
    return common.build_light(ctx, "h_hashset", ["hashset.cpp"],
                              ["src/Common/MEM/Memory.cpp", "src/Common/MEM/DefaultAlloc.cpp", "src/Common/MEM/BlockAlloc.cpp",
                               "src/Container/set.cpp"], extra=["-ffunction-sections", "-Wl,--gc-sections"])


def check_hashset(ctx, quick):
    exe = build_hashset(ctx)
    d = PhiDiff(ctx, Prop(HashSetMonitor), exe, "hashset")
    bad = d.run_batch(corpus_cases("hashset"))
    rng = ctx.rng("hashset")
    ncases, length = (300, 150) if quick else (4000, 600)

    def rnd():
        for i in range(ncases):
            yield ("hashset:random:%d" % i, gen_hashset(rng, rng.choice([8, 30, length])))
    bad += run_area(ctx, d, "hashset", rnd(), 100)
    # re-binding an existing enumerator (`en = set`): deterministic family + random
    reb = exh_rebind()
    nreb = 150 if quick else 3000
    ctx.stats["hashset_rebind_cases"] = len(reb) + nreb
    bad += run_area(ctx, d, "hashset", (("hashset:rebind:exh:%d" % i, c) for i, c in enumerate(reb)), 500)
    rrng = ctx.rng("hashset-rebind")
    bad += run_area(ctx, d, "hashset", (("hashset:rebind:%d" % i, gen_rebind(rrng)) for i in range(nreb)), 100)
    exh = exh_hashset(3 if quick else 5) + exh_hashset(4 if quick else 6, core=True)
    ctx.stats["hashset_exhaustive_histories"] = len(exh)
    bad += run_area(ctx, d, "hashset", (("hashset:exh:%d" % i, c) for i, c in enumerate(exh)), 5000)
    sizes = [(60, "collide"), (400, "identity"), (1500, "random")] if quick else \
        [(60, "collide"), (400, "identity"), (3000, "random"), (3000, "collide"), (12000, "identity")]
    ctx.stats["hashset_growth"] = ["%d:%s" % x for x in sizes]
    for j, (n, style) in enumerate(sizes):
        bad += d.run_batch([("hashset:growth:%d:%s" % (n, style), gen_growth_set(rng, n, style))])
    ctx.oblige("correspondence harness/hashset.cpp == HashSet model on %d histories" % d.cases, bad == 0,
               "%d differing cases" % bad, reported=True)
    return d


# --------------------------------------------------------------------------------------------
# Str

def hx(b):
    return binascii.hexlify(b).decode() if b else "-"


def unhx(t):
    return b"" if t == "-" else binascii.unhexlify(t)


def sc(c):
    return c if c < 128 else c - 256


def up(c):
    return c - 32 if 97 <= c <= 122 else c


def sgn(a, b):
    return "-1" if a < b else ("1" if a > b else "0")


class StrMonitor:
    """C18 for str as a predicate on ONE side's trace: one independent Python bytes object per
    handle (so any modification seen through another handle is a content mismatch); compared:
    contents, length(), return values of the comparisons, and the sharing bookkeeping: strings in
    one block show the same text, refcount + 1 = number of handles on the block, live blocks =
    number of distinct blocks in use.  The alloced field (capacity policy) is not compared."""
    SPACE = b" \t\n\r\x0b\x0c"
    MUTATING = {"ctor", "ctorn", "ctorc", "ctorsub", "cctor", "copy", "move", "assign", "assignn", "app", "apps", "appc",
                "plus", "setc", "cap", "minus", "lower", "upper", "strip", "reserve", "clear"}

    def __init__(self):
        self.bad = None
        self.S = [b""] * 4

    def fail(self, i, kind, msg):
        if self.bad is None:
            self.bad = (i, kind, msg)

    def feed(self, i, line, out):
        t = line.split()
        if not t or out in ("bad-op", "ub"):
            return
        o = out.split(" | ")
        if not out.startswith("ok ") or len(o) != 6:
            self.fail(i, "unexpected-answer", out[:80])
            return
        ret = o[0][3:]
        op = t[0]
        S = self.S
        want = "-"
        if op == "reset":
            self.S = S = [b""] * 4
        elif op == "ctor":
            S[int(t[1])] = unhx(t[2])
        elif op == "ctorn":
            S[int(t[1])] = unhx(t[2])[:int(t[3])]
        elif op == "ctorc":
            S[int(t[1])] = bytes([int(t[2])])
        elif op == "ctorsub":
            src = S[int(t[2])]
            a, b = min(int(t[3]), len(src)), min(int(t[4]), len(src))
            S[int(t[1])] = src[a:b] if b > a else b""
        elif op in ("cctor", "copy"):
            S[int(t[1])] = S[int(t[2])]
        elif op == "move":
            v = S[int(t[2])]
            S[int(t[2])] = b""
            S[int(t[1])] = v if t[1] != t[2] else b""
        elif op == "assign":
            S[int(t[1])] = unhx(t[2])
        elif op == "assignn":
            S[int(t[1])] = unhx(t[2])[:int(t[3])]
        elif op == "app":
            S[int(t[1])] = S[int(t[1])] + S[int(t[2])]
        elif op == "apps":
            S[int(t[1])] = S[int(t[1])] + unhx(t[2])
        elif op == "appc":
            S[int(t[1])] = S[int(t[1])] + bytes([int(t[2])])
        elif op == "plus":
            S[int(t[1])] = S[int(t[2])] + S[int(t[3])]
        elif op == "setc":
            h, k = int(t[1]), int(t[2])
            if k < len(S[h]):
                S[h] = S[h][:k] + bytes([int(t[3])]) + S[h][k + 1:]
        elif op == "cap":
            S[int(t[1])] = S[int(t[1])][:int(t[2])]
        elif op == "minus":
            h, k = int(t[1]), int(t[2])
            S[h] = S[h][:max(0, len(S[h]) - k)]
        elif op == "lower":
            S[int(t[1])] = S[int(t[1])].lower()
        elif op == "upper":
            S[int(t[1])] = S[int(t[1])].upper()
        elif op == "strip":
            S[int(t[1])] = S[int(t[1])].strip(self.SPACE)
        elif op == "clear":
            S[int(t[1])] = b""
        elif op == "reserve":
            pass
        elif op == "getc":
            h, k = int(t[1]), int(t[2])
            want = str(S[h][k]) if k < len(S[h]) else "0"
        elif op == "eq":
            want = "true" if S[int(t[1])] == S[int(t[2])] else "false"
        elif op == "eqs":
            want = "true" if S[int(t[1])] == unhx(t[2]) else "false"
        elif op in ("icmp", "icmps"):
            a = S[int(t[1])]
            b = S[int(t[2])] if op == "icmp" else unhx(t[2])
            want = sgn([sc(up(c)) for c in a] + [0], [sc(up(c)) for c in b] + [0])
        elif op in ("cmpn", "icmpn"):
            f = (lambda c: sc(up(c))) if op == "icmpn" else sc
            n = int(t[3])
            want = sgn(([f(c) for c in S[int(t[1])]] + [0])[:n], ([f(c) for c in S[int(t[2])]] + [0])[:n])
        if ret != want:
            self.fail(i, "return-value", "%s returned `%s`, abstract strings give `%s`" % (op, ret, want))
        groups = {}
        for h in range(4):
            f = o[1 + h].split(" ")
            if len(f) != 5:
                self.fail(i, "observation", "string %d: %s" % (h, o[1 + h][:80]))
                return
            txt, ln, grp, rc = f[0], int(f[1]), f[2], f[3]
            try:
                got = unhx(txt)
            except (binascii.Error, ValueError):
                self.fail(i, "observation", "string %d: %s" % (h, o[1 + h][:80]))
                return
            if got != S[h]:
                # a string the operation does not write to must read what it read before
                written = set()
                if op in self.MUTATING:
                    written.add(int(t[1]))
                    if op == "move":
                        written.add(int(t[2]))
                kind = "contents" if h in written or op == "reset" else "isolation"
                self.fail(i, kind, "string %d reads %r, an abstract string holds %r%s" % (
                    h, got, S[h], "" if kind == "contents" else " (the operation was on string %s)" % t[1]))
            if ln != len(got):
                self.fail(i, "length", "string %d: length() = %d but c_str() has %d characters" % (h, ln, len(got)))
            if grp != "n":
                groups.setdefault(grp, []).append((h, int(rc)))
        for grp, hs in groups.items():
            for h, rc in hs:
                if rc + 1 != len(hs):
                    self.fail(i, "refcount", "block %s: refcount %d but %d strings use it" % (grp, rc, len(hs)))
        blocks = int(o[5].split("=")[1])
        if blocks != len(groups):
            self.fail(i, "blocks", "%d live blocks, %d in use" % (blocks, len(groups)))


TEXTS = [b"", b"a", b"Ab", b"ab", b"hello", b"HELLO", b"hellp", b"  hi  ", b"\tx y\n", b" ", b"zz top ",
         b"\xe9t\xe9", b"\xff", b"a/b.c", b"0123456789abcdefghijklmnopqrstuvwxyzABCDEFGH"]


def gen_str(rng, n):
    lines = ["reset"]
    H = lambda: rng.randint(0, 3)
    T = lambda: hx(rng.choice(TEXTS))
    C = lambda: rng.choice([65, 97, 122, 32, 9, 120, 81, 200, 255, 1])
    N = lambda: rng.choice([0, 0, 1, 1, 2, 3, 4, 5, 6, 7, 10, 40, 50, rng.randint(0, 60)])
    for _ in range(n):
        r = rng.random()
        if r < 0.03:
            lines.append(rng.choice(["ctor 4 61", "ctor 0 0", "ctor 0 6100", "appc 0 0", "appc 0 256", "setc 0 1 0", "frob", "copy 0",
                                     "ctorn 0 6162 3", "assignn 1 61 2", "cap 0 x", "ctor 0 6"]))
        elif r < 0.11:
            lines.append("ctor %d %s" % (H(), T()))
        elif r < 0.13:
            t = rng.choice(TEXTS); lines.append("ctorn %d %s %d" % (H(), hx(t), rng.randint(0, len(t))))
        elif r < 0.15:
            lines.append("ctorc %d %d" % (H(), C()))
        elif r < 0.19:
            lines.append("ctorsub %d %d %d %d" % (H(), H(), N(), N()))
        elif r < 0.25:
            lines.append("cctor %d %d" % (H(), H()))
        elif r < 0.35:
            lines.append("copy %d %d" % (H(), H()))
        elif r < 0.38:
            lines.append("move %d %d" % (H(), H()))
        elif r < 0.42:
            lines.append("assign %d %s" % (H(), T()))
        elif r < 0.45:
            t = rng.choice(TEXTS); lines.append("assignn %d %s %d" % (H(), hx(t), rng.randint(0, len(t))))
        elif r < 0.51:
            lines.append("app %d %d" % (H(), H()))
        elif r < 0.55:
            lines.append("apps %d %s" % (H(), T()))
        elif r < 0.60:
            lines.append("appc %d %d" % (H(), C()))
        elif r < 0.63:
            lines.append("plus %d %d %d" % (H(), H(), H()))
        elif r < 0.68:
            lines.append("setc %d %d %d" % (H(), N(), C()))
        elif r < 0.73:
            lines.append("cap %d %d" % (H(), N()))
        elif r < 0.78:
            lines.append("minus %d %d" % (H(), N()))
        elif r < 0.82:
            lines.append("%s %d" % (rng.choice(["lower", "upper"]), H()))
        elif r < 0.86:
            lines.append("strip %d" % H())
        elif r < 0.89:
            lines.append("reserve %d %d" % (H(), N()))
        elif r < 0.91:
            lines.append("clear %d" % H())
        elif r < 0.93:
            lines.append("getc %d %d" % (H(), N()))
        elif r < 0.95:
            lines.append("eq %d %d" % (H(), H()))
        elif r < 0.96:
            lines.append("eqs %d %s" % (H(), T()))
        elif r < 0.97:
            lines.append("icmp %d %d" % (H(), H()))
        elif r < 0.98:
            lines.append("cmpn %d %d %d" % (H(), H(), N()))
        elif r < 0.99:
            lines.append("icmpn %d %d %d" % (H(), H(), N()))
        else:
            lines.append("icmps %d %s" % (H(), T()))
    return lines


def exh_str(maxlen, core=False):
    """every history of the given length over a small alphabet on two strings (correspondence input)"""
    alphabet = ["ctor 0 2061", "copy 1 0", "appc 1 120", "cap 1 1", "minus 0 1", "app 0 1", "app 1 1", "setc 1 0 81",
                "strip 0", "reserve 1 9", "upper 0", "assignn 1 7a 1"]
    if core:
        alphabet = ["ctor 0 2061", "copy 1 0", "appc 1 120", "cap 1 1", "minus 0 1", "app 0 1", "setc 1 0 81", "strip 0"]
    return [["reset"] + list(c) for c in itertools.product(alphabet, repeat=maxlen)]


def build_str(ctx):
    return common.build_light(ctx, "h_str", ["strh.cpp"], ["src/Common/str.cpp", "src/Common/MEM/Memory.cpp"],
                              extra=["-ffunction-sections", "-Wl,--gc-sections"])


def check_str(ctx, quick):
    exe = build_str(ctx)
    d = PhiDiff(ctx, Prop(StrMonitor), exe, "str")
    bad = d.run_batch(corpus_cases("str"))
    rng = ctx.rng("str")
    ncases, length = (300, 150) if quick else (4000, 600)

    def rnd():
        for i in range(ncases):
            yield ("str:random:%d" % i, gen_str(rng, rng.choice([8, 30, length])))
    bad += run_area(ctx, d, "str", rnd(), 100)
    exh = exh_str(3 if quick else 5) + exh_str(4 if quick else 6, core=True)
    ctx.stats["str_exhaustive_histories"] = len(exh)
    bad += run_area(ctx, d, "str", (("str:exh:%d" % i, c) for i, c in enumerate(exh)), 5000)
    if not quick:
        bad += d.run_batch([("str:long:%d" % i, gen_str(rng, 10000)) for i in range(6)])
    ctx.oblige("correspondence harness/strh.cpp == Str model on %d histories" % d.cases, bad == 0,
               "%d differing cases" % bad, reported=True)
    return d


def run_area(ctx, d, area, cases_iter, batch_size):
    bad = 0
    batch = []
    for nc in cases_iter:
        batch.append(nc)
        if len(batch) == batch_size:
            bad += d.run_batch(batch)
            batch = []
    bad += d.run_batch(batch)
    return bad


def check_container(ctx, quick):
    exe, have_insert = build_container(ctx)
    ctx.stats["container_InsertObjectAt_instantiates"] = have_insert
    if not have_insert:
        ctx.notes.append("Container::InsertObjectAt does not instantiate on this tree (void* -> Type* without a cast): its lines are not generated; see notes/C18-findings.md")
    d = PhiDiff(ctx, Prop(ContainerMonitor), exe, "container")
    bad = d.run_batch(corpus_cases("container"))
    rng = ctx.rng("container")
    ncases, length = (300, 150) if quick else (4000, 600)

    def rnd():
        for i in range(ncases):
            yield ("container:random:%d" % i, gen_container(rng, rng.choice([8, 30, length]), have_insert))
    bad += run_area(ctx, d, "container", rnd(), 100)
    exh = exh_container(3 if quick else 5, have_insert) + exh_container(4 if quick else 6, have_insert, core=True)
    ctx.stats["container_exhaustive_histories"] = len(exh)
    bad += run_area(ctx, d, "container", (("container:exh:%d" % i, c) for i, c in enumerate(exh)), 5000)
    if not quick:
        bad += d.run_batch([("container:long:%d" % i, gen_container(rng, 10000, have_insert)) for i in range(6)])
    ctx.oblige("correspondence harness/container.cpp == Container model on %d histories" % d.cases, bad == 0,
               "%d differing cases" % bad, reported=True)
    return d


def check(ctx):
    quick = ctx.tier == "quick"
    proofs_ok, _ = common.proof_side(ctx, PROPS_MODULE, PROPS_FILE)
    if not ctx.stats.get("lake_build_ok"):
        ok, out2 = common.lake_build(["driver"])
        if not ok:
            raise common.CheckError("lean driver does not build:\n" + out2[-3000:])
        ctx.notes.append("lake build failed; driver rebuilt alone to search for a failing input")
    elif not quick:
        common.leanchecker(ctx, PROPS_MODULE)
    ds = {"container": check_container(ctx, quick), "hashset": check_hashset(ctx, quick), "str": check_str(ctx, quick)}
    ctx.samples = [gen_container(ctx.rng("sample"), 10, True), gen_hashset(ctx.rng("sample"), 8)[:12], gen_str(ctx.rng("sample"), 10)]
    cov = {
        "evaluations": sum(d.cases for d in ds.values()),
        "distinct_nontrivial": sum(len(d.distinct) for d in ds.values()),
        "rule": "operation histories over two containers of a lifetime-counting element type with values 1..4 (3% illegal lines, ~5% undefined-behaviour lines answered `ub` by both sides); every history of length 3 (quick) / 5 (thorough) over a 10-13 operation alphabet and of length 4 / 6 over an 8 operation core alphabet per area (4 values / 4 colliding keys / 2 strings); non-trivial = at least one accepted operation with an observation; distinct by SHA-1 of the op lines",
        "per_area": {a: {"cases": d.cases, "op_lines": d.lines, "op_histogram": d.hist, "model_answer_kinds": d.outkinds}
                     for a, d in ds.items()},
        "exhaustive": False,
    }
    return common.finish(ctx, "proof", cov, TRUSTED, ASSUME,
                         "cd lean && lake build && lake env lean <Audit.lean with #print axioms>; tools/check.py C18")


def replay(ctx, obj):
    ok, out = common.lake_build(["driver"])
    if not ok:
        raise common.CheckError("lean driver does not build:\n" + out[-3000:])
    if obj.get("kind") == "proof-obligation":
        ok, out = common.lake_build()
        print("obligation `%s`: lake build %s" % (obj.get("obligation"), "ok" if ok else "FAILS"))
        if not ok:
            print(out[-2000:])
        return 0 if ok else 1
    area = obj.get("area", "container")
    if area == "container":
        exe, _ = build_container(ctx)
        prop = Prop(ContainerMonitor)
    elif area == "hashset":
        exe = build_hashset(ctx)
        prop = Prop(HashSetMonitor)
    elif area == "str":
        exe = build_str(ctx)
        prop = Prop(StrMonitor)
    else:
        raise common.CheckError("unknown area " + area)
    d = PhiDiff(ctx, prop, exe, area)
    impl, crash, info, model = d.both(obj["lines"])
    n = len(obj["lines"])
    for i, l in enumerate(obj["lines"]):
        if n > 60 and 25 < i < n - 25 and (i >= len(impl) or i >= len(model) or impl[i] == model[i]):
            continue
        print("> %s\n  impl : %s\n  model: %s" % (l[:200], (impl[i] if i < len(impl) else "<missing>")[:300],
                                                    (model[i] if i < len(model) else "<missing>")[:300]))
    if crash:
        print("CRASH", crash)
        print(info)
    verdict, why, sig = prop.classify(obj["lines"], impl, crash, model)
    print("classification:", verdict, "-", why)
    bad = crash is not None or common.first_diff(impl, model) is not None
    print("replay:", "still differs" if bad else "no difference")
    return 1 if bad else 0
