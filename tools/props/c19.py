"""C19 — the pool allocator never hands out live memory and counts exactly (DESIGN.md 7.2)."""
import glob
import json
import os
import re

from vlib import common
from vlib.common import Diff, VERIF, LEAN

AREA = "blockalloc"
PROPS_MODULE = "MorfuseModel.Props.C19"
PROPS_FILE = os.path.join(LEAN, "MorfuseModel", "Props", "C19.lean")
SIZES = [2, 3, 256]
# element types of the harness's pools: e16 = 16-aligned owner of other elements (the default), s1/s2/s3 = 1-, 2-,
# 3-byte types of alignment 1, h2 = 2 bytes of alignment 2 (info_t ends in padding for all four small ones)
KINDS = ["e16", "s1", "s2", "s3", "h2"]
SMALL = ["s1", "s2", "s3", "h2"]

TRUSTED = [
    "Lean 4.33.0 kernel (lake build; leanchecker in the thorough tier)",
    "axioms allowed: propext, Classical.choice, Quot.sound (audited by #print axioms on every run)",
    "hand-written model lean/MorfuseModel/BlockAlloc/Model.lean of include/morfuse/Common/MEM/BlockAlloc.h (Alloc, TakeFree, Free, FreeAll, Count, block_s constructor) and LinkedList<T*> AddFirst/Remove/SetRoot of Linklist.h, tied by the differential correspondence run (harness/blockalloc.cpp vs lean driver): exact (block ordinal, slot index), Count, BlockCount, destructor completion order",
    "C++ object layout: info_t stride / alignas / header->index -> block base arithmetic is measured by the harness on real addresses (alignment, containment in the block, non-overlap with live payloads), not proved",
    "g++ 12 / ASan / UBSan semantics for memory errors inside the allocator",
    "Std.HashMap.getD_insert (core library lemma) behind Mem.get_set / Mem2.get_set",
]
ASSUME = [
    "operations are legal uses of the pool: Free only of a pointer obtained from Alloc and not yet freed (illegal lines are answered bad-op on both sides and never reach the allocator)",
    "element destructors free only other live elements of the same pool, each at most once, and never allocate (DtorOk in the model; the harness element type owns a forest of other elements)",
    "MEM::Alloc never fails (malloc returning null is outside the model)",
    "single-threaded use (BlockAllocSafe and its locking belong to C20)",
    "block sizes 2, 3 and 256 and the element types e16 (16-aligned, 48+ bytes), s1/s2/s3 (1, 2, 3 bytes, alignment 1) and h2 (2 bytes, alignment 2) are the instantiations exercised against the real code; the theorems hold for every blocksize >= 2 and do not mention the element type",
]


# ------------------------------------------------------------------------------------------------
# trace monitor: the property as a predicate on the implementation's own answers

FLAG = re.compile(r"(![\w-]+)")
# facts about real addresses that are clauses of the property
PHI_FLAGS = {
    "!overlap": "the returned memory overlaps a payload the host still uses",
    "!misaligned": "the returned pointer is not aligned for the element type",
    "!outside-block": "the returned payload is not inside the block it claims",
    "!unknown-block": "the returned pointer does not belong to any block the pool holds",
    "!bad-index": "header index does not designate the returned payload",
    "!corrupt": "a live element's contents were overwritten",
}


class Monitor:
    """phi: replays the host-side meaning of each line on the implementation's answers.
    Returns (None) when the trace satisfies the property, else (signature, explanation)."""

    def __init__(self):
        self.bs = 0
        self.live = {}        # id -> (b, i)
        self.kids = {}        # id -> [ids]
        self.parent = {}
        self.next_id = 1
        self.blocks = 0
        self.allocs = 0
        self.frees = 0
        self.owns = True

    def desc(self, p):
        out = []
        for c in self.kids.get(p, []):
            out += self.desc(c) + [c]
        return out

    def is_anc(self, a, x):
        while x is not None:
            if x == a:
                return True
            x = self.parent.get(x)
        return False

    def forget(self, ids):
        for x in ids:
            q = self.parent.pop(x, None)
            if q is not None and q in self.kids:
                self.kids[q] = [k for k in self.kids[q] if k != x]
            self.kids.pop(x, None)
            if x in self.live:
                del self.live[x]
                self.frees += 1

    def legal(self, line):
        t = line.split()
        if not t:
            return False
        if t[0] == "pool":
            return len(t) in (2, 3) and t[1] in ("2", "3", "256") and (len(t) == 2 or t[2] in KINDS)
        if self.bs == 0:
            return False
        try:
            n = [int(x) for x in t[1:]]
        except ValueError:
            return False
        if t[0] in ("alloc", "count", "freeall"):
            return not n
        if t[0] == "del":
            return len(n) == 1 and n[0] in self.live
        if t[0] == "own":
            return (self.owns and len(n) == 2 and n[0] in self.live and n[1] in self.live and n[0] != n[1]
                    and n[1] not in self.parent and not self.is_anc(n[1], n[0]))
        return False

    def feed(self, line, ans):
        """returns None or (signature, why).  Signatures: `phi:*` the property itself is violated on
        this trace; `diff:*` / `harness:*` something else is off (not a clause of the property)."""
        legal = self.legal(line)
        if not legal:
            return None if ans == "bad-op" else ("harness:accepted-illegal", "illegal line `%s` answered `%s`" % (line, ans))
        if ans == "bad-op":
            return ("harness:rejected-legal", "legal line `%s` rejected" % line)
        flags = FLAG.findall(ans)
        r = self.feed_op(line, ans, "!blockcount" in flags)
        if r:
            return r
        for f in flags:
            if f in PHI_FLAGS:
                return ("phi:flag:" + f, "`%s` answered `%s` (%s)" % (line, ans, PHI_FLAGS[f]))
        if flags:
            # BlockCount() disagreeing with the number of blocks really held is a wrong statistic,
            # not a clause of C19
            return ("diff:flag:" + flags[0], "`%s` answered `%s`" % (line, ans))
        return None

    def feed_op(self, line, ans, blockcount_unreliable):
        t = line.split()
        kv = dict(x.split("=", 1) for x in ans.split()[1:] if "=" in x)
        if t[0] == "pool":
            self.__init__()
            self.bs = int(t[1])
            self.owns = len(t) == 2 or t[2] == "e16"
            return None
        if t[0] == "alloc":
            try:
                b, i, blocks, eid = int(kv["b"]), int(kv["i"]), int(kv["blocks"]), int(kv["id"])
            except (KeyError, ValueError):
                return ("phi:alloc-unreadable", "alloc answered `%s`" % ans) if "b=?" in ans else ("harness:alloc-unreadable", ans)
            if eid != self.next_id:
                return ("harness:id", "element ordinal %d, expected %d" % (eid, self.next_id))
            if (b, i) in self.live.values():
                return ("phi:alloc-live-slot", "Alloc returned slot (%d,%d) which is still in use" % (b, i))
            if i >= self.bs:
                return ("phi:alloc-index-range", "slot index %d >= blocksize %d" % (i, self.bs))
            per = {}
            for (bb, _) in self.live.values():
                per[bb] = per.get(bb, 0) + 1
            if blocks > self.blocks and not blockcount_unreliable:
                # a new block was acquired: only legitimate when every existing block is full
                if len(self.live) < self.bs * self.blocks:
                    return ("phi:reuse", "BlockCount grew %d -> %d with %d live slots in %d blocks of %d" % (
                        self.blocks, blocks, len(self.live), self.blocks, self.bs))
            if per.get(b, 0) >= self.bs:
                return ("phi:alloc-overfull", "block %d already holds %d live slots" % (b, per[b]))
            self.live[eid] = (b, i)
            self.next_id += 1
            self.blocks = blocks
            self.allocs += 1
            return None
        if t[0] == "own":
            p, c = int(t[1]), int(t[2])
            self.parent[c] = p
            self.kids.setdefault(p, []).append(c)
            return None
        if t[0] == "count":
            try:
                c = int(kv["count"])
            except (KeyError, ValueError):
                return ("harness:count-unreadable", ans)
            if c != len(self.live) or c != self.allocs - self.frees:
                return ("phi:count", "Count() = %d with %d allocations - %d frees = %d live" % (
                    c, self.allocs, self.frees, len(self.live)))
            return None
        if t[0] == "del":
            p = int(t[1])
            want = self.desc(p) + [p]
            got = [int(x) for x in kv.get("d", "").split(",") if x]
            if got != want:
                return ("harness:del-order", "del %d destroyed %s, expected %s" % (p, got, want))
            self.forget(want)
            self.blocks = int(kv.get("blocks", self.blocks))
            return None
        if t[0] == "freeall":
            got = [int(x) for x in kv.get("d", "").split(",") if x]
            want = sorted(self.live)
            if sorted(got) != want:
                missed = sorted(set(want) - set(got))
                twice = sorted(x for x in set(got) if got.count(x) > 1)
                extra = sorted(set(got) - set(want))
                kind = "missed" if missed else ("twice" if twice else "extra")
                return ("phi:freeall-" + kind, "FreeAll destroyed %s; live were %s (missed %s, twice %s, not live %s)" % (
                    got, want, missed, twice, extra))
            try:
                c = int(kv["count"])
            except (KeyError, ValueError):
                return ("harness:count-unreadable", ans)
            if c != 0:
                return ("phi:count", "Count() = %d after FreeAll" % c)
            self.forget(list(self.live))
            self.kids, self.parent = {}, {}
            self.blocks = int(kv.get("blocks", 0))
            return None
        return None


def monitor(lines, outs):
    m = Monitor()
    for k, (l, a) in enumerate(zip(lines, outs)):
        r = m.feed(l, a)
        if r:
            return k, r
    return None


class Prop:
    def continuations(self, lines, rng):
        """random alloc / del / own / count suffixes (ending with freeall half of the time) that turn a
        difference in slot choice or destruction order into a failing clause of C19, if there is one;
        a trailing `freeall` of the shrunk history is first replaced by more operations"""
        live, n = [], 0
        for l in lines:
            t = l.split()
            if t[0] == "alloc":
                n += 1
                live.append(n)
            elif t[0] == "del" and len(t) == 2 and int(t[1]) in live:
                live.remove(int(t[1]))
            elif t[0] == "freeall":
                live = []
        for k in range(400):
            cur, m, seq = list(live), n, []
            for _ in range(rng.randint(2, 10 + k // 10)):
                r = rng.random()
                if r < 0.5 or not cur:
                    seq.append("alloc"); m += 1; cur.append(m)
                elif r < 0.85:
                    x = rng.choice(cur); cur.remove(x); seq.append("del %d" % x)
                elif len(cur) >= 2:
                    a, b = rng.sample(cur, 2); seq.append("own %d %d" % (a, b))
                else:
                    seq.append("count")
            seq.append("count")
            if rng.random() < 0.5:
                seq.append("freeall")
            yield seq

    def classify(self, lines, impl, crash, model):
        if crash:
            what = "FreeAll/Alloc/Free did not return (timeout)" if crash == "timeout" else "implementation crashed / sanitizer report: " + crash
            return "violation", what, crash
        r = monitor(lines, impl)
        if r:
            k, (sig, why) = r
            if sig.startswith("phi:"):
                return "violation", "line %d: %s" % (k, why), sig
            return ("correspondence" if sig.startswith("diff:") else "machinery"), "line %d: %s" % (k, why), sig
        # the implementation's trace satisfies the property; it merely is not the modelled algorithm
        i = common.first_diff(impl, model)
        a = impl[i] if i is not None and i < len(impl) else "<missing>"
        b = model[i] if i is not None and i < len(model) else "<missing>"
        why = ("property monitor holds on the implementation trace, but line %s `%s`: implementation says `%s`, "
               "model says `%s` (the theorems no longer speak about this code)" % (
                   i, lines[i] if i is not None and i < len(lines) else "?", a, b))
        kind = "other"
        if "bad-op" in (a, b):
            kind = "bad-op-mismatch"
        elif a.startswith("ok id=") and b.startswith("ok id="):
            ka = dict(x.split("=", 1) for x in a.split()[1:] if "=" in x)
            kb = dict(x.split("=", 1) for x in b.split()[1:] if "=" in x)
            kind = "slot-choice" if (ka.get("b"), ka.get("i")) != (kb.get("b"), kb.get("i")) else "blockcount"
        elif " d=" in a:
            kind = "destroy-order-or-blockcount"
        return "correspondence", why, "diff:" + kind


# ------------------------------------------------------------------------------------------------
# generators

class Host:
    """what the generator knows: live ids and the ownership forest (not slot placement)"""

    def __init__(self):
        self.live = []
        self.kids = {}
        self.parent = {}
        self.next = 1

    def desc(self, p):
        out = []
        for c in self.kids.get(p, []):
            out += self.desc(c) + [c]
        return out

    def is_anc(self, a, x):
        while x is not None:
            if x == a:
                return True
            x = self.parent.get(x)
        return False

    def alloc(self):
        self.live.append(self.next)
        self.next += 1

    def kill(self, p):
        dead = self.desc(p) + [p]
        q = self.parent.get(p)
        if q is not None:
            self.kids[q] = [k for k in self.kids[q] if k != p]
        s = set(dead)
        self.live = [x for x in self.live if x not in s]
        for x in dead:
            self.kids.pop(x, None)
            self.parent.pop(x, None)
        return dead

    def clear(self):
        self.live, self.kids, self.parent = [], {}, {}


def gen_case(rng, n, bs, count_every=1.0, cascade=True, kind=None):
    """mostly-legal history that walks the population up and down across block boundaries
    (empty <-> partial <-> full, several blocks), with ownership cascades, FreeAll, and a small
    stream of illegal lines (both sides must answer bad-op)."""
    lines = ["pool %d" % bs if kind is None else "pool %d %s" % (bs, kind)]
    if kind in SMALL:
        cascade = False
    h = Host()
    cap = (4 * bs + 2) if bs <= 3 else (3 * bs + 40)
    target = rng.randint(0, cap)
    # population walks: retarget about every cap/2.5 operations, FreeAll about every 3*cap operations
    p_retarget = min(0.05, 2.5 / cap)
    p_freeall = min(0.5, 50.0 / (3 * cap))     # conditional on a 2% slot
    recent = []       # recently allocated ids: freeing them exercises the LIFO-ish paths
    while len(lines) < n + 1:
        r = rng.random()
        if r < 0.03:
            k = rng.randint(0, 5)
            bogus = h.next + rng.randint(0, 3)
            lines.append(["del %d" % bogus, "del 0", "own %d %d" % (bogus, 1), "own 1 1", "free 1", "alloc 1"][k])
            continue
        if r < 0.05:
            # own that would create a cycle / double owner (any own at all on a small element type)
            if kind in SMALL and len(h.live) >= 2:
                a, b = rng.sample(h.live, 2)
                lines.append("own %d %d" % (a, b))
            elif len(h.live) >= 2:
                a, b = rng.sample(h.live, 2)
                lines.append("own %d %d" % (a, b) if (b in h.parent or h.is_anc(b, a)) else "own %d %d" % (a, a))
            continue
        if rng.random() < p_retarget:
            target = rng.choice([0, 1, bs - 1, bs, bs + 1, 2 * bs, 2 * bs + 1, rng.randint(0, cap), cap])
        if r < 0.07 and h.live and rng.random() < p_freeall:
            lines.append("freeall")
            h.clear()
            if count_every:
                lines.append("count")
            target = rng.randint(0, cap)
            continue
        if cascade and r < 0.17 and len(h.live) >= 2:
            a, b = rng.sample(h.live, 2)
            if b not in h.parent and not h.is_anc(b, a):
                lines.append("own %d %d" % (a, b))
                h.parent[b] = a
                h.kids.setdefault(a, []).append(b)
            continue
        grow = len(h.live) < target if rng.random() < 0.85 else rng.random() < 0.5
        if grow or not h.live:
            lines.append("alloc")
            recent.append(h.next)
            h.alloc()
        else:
            mode = rng.random()
            if mode < 0.3 and recent:
                p = recent.pop()
                if p not in h.live:
                    continue
            elif mode < 0.5:
                p = h.live[0]
            else:
                p = rng.choice(h.live)
            lines.append("del %d" % p)
            h.kill(p)
            if len(recent) > 64:
                recent = recent[-32:]
        if rng.random() < count_every:
            lines.append("count")
    return lines


def exhaustive(bs, maxlen, with_own, kind=None):
    """every legal history of exactly `maxlen` operations (alloc / del of any live element /
    freeall / optionally own of any legal pair), each followed by `count`; prefixes are observed
    line by line so only maximal histories are emitted.  Correspondence input, not proof."""
    def rec(prefix, live, parent, nxt, depth):
        if depth == 0:
            yield ["pool %d" % bs if kind is None else "pool %d %s" % (bs, kind)] + prefix
            return
        yield from rec(prefix + ["alloc", "count"], live + (nxt,), parent, nxt + 1, depth - 1)
        for p in live:
            # cascade: p and everything it owns (transitively)
            dead = {p}
            changed = True
            while changed:
                changed = False
                for c, q in parent:
                    if q in dead and c not in dead:
                        dead.add(c); changed = True
            yield from rec(prefix + ["del %d" % p, "count"], tuple(x for x in live if x not in dead),
                           tuple((c, q) for c, q in parent if c not in dead), nxt, depth - 1)
        if live:
            yield from rec(prefix + ["freeall", "count"], (), (), nxt, depth - 1)
        if with_own and depth > 1:
            pm = dict(parent)
            for a in live:
                for b in live:
                    if a == b or b in pm:
                        continue
                    x, cyc = a, False
                    while x is not None:
                        if x == b:
                            cyc = True; break
                        x = pm.get(x)
                    if not cyc:
                        yield from rec(prefix + ["own %d %d" % (a, b)], live, parent + ((b, a),), nxt, depth - 1)
    yield from rec([], (), (), 1, maxlen)


def corpus_cases():
    res = []
    for p in sorted(glob.glob(os.path.join(VERIF, "corpus", "C19", "*.json"))):
        res.append(("corpus:" + os.path.basename(p), json.load(open(p))["lines"]))
    return res


class CovDiff(Diff):
    """adds property-specific coverage counters computed from the model's answers"""

    def __init__(self, *a, **k):
        super().__init__(*a, **k)
        self.covs = {}
        self.by_bs = {}
        self.by_kind = {}

    @staticmethod
    def fresh_cov():
        return {"new_block": 0, "block_released": 0, "alloc_fills_block": 0, "free_from_full_block": 0,
                "free_empties_block": 0, "reuse_cached_block": 0, "cascade_del": 0, "freeall": 0,
                "freeall_with_cascade": 0, "freeall_multi_block": 0, "max_blocks": 0, "max_live": 0}

    def account(self, case, model_out):
        super().account(case, model_out)
        cov = self.fresh_cov()
        bs, blocks, per, slot, owned = 0, 0, {}, {}, 0
        for l, o in zip(case, model_out):
            if o == "bad-op":
                continue
            t = l.split()
            kv = dict(x.split("=", 1) for x in o.split()[1:] if "=" in x)
            if t[0] == "pool":
                bs, blocks, per, slot, owned = int(t[1]), 0, {}, {}, 0
                self.by_bs[bs] = self.by_bs.get(bs, 0) + 1
                k = t[2] if len(t) > 2 else "e16"
                self.by_kind[k] = self.by_kind.get(k, 0) + 1
                cov = self.covs.setdefault("bs%d" % bs, self.fresh_cov())
            elif t[0] == "alloc":
                b, nb = int(kv["b"]), int(kv["blocks"])
                if nb > blocks:
                    cov["new_block"] += 1
                elif per.get(b, 0) == 0:
                    cov["reuse_cached_block"] += 1
                per[b] = per.get(b, 0) + 1
                if per[b] == bs:
                    cov["alloc_fills_block"] += 1
                slot[int(kv["id"])] = b
                blocks = nb
                cov["max_blocks"] = max(cov["max_blocks"], blocks)
                cov["max_live"] = max(cov["max_live"], len(slot))
            elif t[0] == "own":
                owned += 1
            elif t[0] == "del":
                d = [int(x) for x in kv.get("d", "").split(",") if x]
                if len(d) > 1:
                    cov["cascade_del"] += 1
                for x in d:
                    b = slot.pop(x, None)
                    if b is None:
                        continue
                    if per[b] == bs:
                        cov["free_from_full_block"] += 1
                    per[b] -= 1
                    if per[b] == 0:
                        cov["free_empties_block"] += 1
                nb = int(kv["blocks"])
                if nb < blocks:
                    cov["block_released"] += blocks - nb
                blocks = nb
            elif t[0] == "freeall":
                cov["freeall"] += 1
                if owned and len(slot) > 1:
                    cov["freeall_with_cascade"] += 1
                if len([b for b in per if per[b]]) > 1:
                    cov["freeall_multi_block"] += 1
                per, slot, owned, blocks = {}, {}, 0, int(kv.get("blocks", 0))


def build(ctx):
    return common.build_light(ctx, "h_blockalloc", ["blockalloc.cpp"],
                              ["src/Common/MEM/BlockAlloc.cpp", "src/Common/MEM/Memory.cpp"])


def check(ctx):
    prop = Prop()
    proofs_ok, _ = common.proof_side(ctx, PROPS_MODULE, PROPS_FILE)
    if ctx.tier == "thorough":
        common.leanchecker(ctx, PROPS_MODULE)
    exe = build(ctx)
    d = CovDiff(ctx, prop, exe, AREA)
    d.base_timeout = 5          # the harness needs < 1 s for 10^5 lines; a hang is a mutant's FreeAll
    bad = d.run_batch(corpus_cases())
    rng = ctx.rng("random")
    quick = ctx.tier == "quick"

    # 1. bounded-exhaustive histories for the two small block sizes
    exh_len, own_len = (9, 7) if quick else (12, 8)
    nexh = 0
    for bs in (2, 3):
        for (L, own) in ((exh_len, False), (own_len, True)):
            batch = []
            for c in exhaustive(bs, L, own):
                batch.append(("exh:bs%d:len%d:%s:%d" % (bs, L, "own" if own else "plain", nexh), c))
                nexh += 1
                if len(batch) == 4000:
                    bad += d.run_batch(batch); batch = []
            bad += d.run_batch(batch)
    ctx.stats["exhaustive_histories"] = nexh
    ctx.stats["exhaustive_lengths"] = {"plain": exh_len, "with_own": own_len}

    # 1b. the small element types (1, 2, 3 bytes; info_t ends in padding): every legal history of `small_len`
    #     operations for block sizes 2 and 3, deterministic
    small_len = 6 if quick else 8
    nsmall = 0
    for kind in SMALL:
        for bs in (2, 3):
            batch = [("exh:%s:bs%d:len%d:%d" % (kind, bs, small_len, j), c) for j, c in enumerate(exhaustive(bs, small_len, False, kind))]
            nsmall += len(batch)
            for j in range(0, len(batch), 4000):
                bad += d.run_batch(batch[j:j + 4000])
    ctx.stats["exhaustive_small_element_histories"] = nsmall

    # 2. random histories of mixed lengths, all three block sizes, all element types
    ncases = 300 if quick else 3000
    batch = []
    for i in range(ncases):
        bs = SIZES[i % 3]
        kind = KINDS[(i // 3) % len(KINDS)] if (i // 15) % 2 == 0 else None
        length = rng.choice([12, 60, 400] if bs <= 3 else [100, 1500, 6000])
        batch.append(("random:bs%d:%s:%d" % (bs, kind or "e16", i), gen_case(rng, length, bs, kind=kind)))
        if len(batch) == 60:
            bad += d.run_batch(batch); batch = []
    bad += d.run_batch(batch)

    # 3. long single histories (the property's 10^5 bound in the thorough tier)
    longs = ([(2, 30000), (3, 30000), (256, 30000)] if quick else
             [(2, 100000), (3, 100000), (256, 100000)] * 3)
    for k, (bs, n) in enumerate(longs):
        bad += d.run_batch([("long:bs%d:%d" % (bs, k), gen_case(rng, n, bs, count_every=0.25 if bs <= 3 else 0.05))])
    # ... and one per small element type (block size 256: the index needs a full byte)
    for k, kind in enumerate(SMALL):
        bs = [256, 3, 256, 2][k]
        n = 8000 if quick else 50000
        bad += d.run_batch([("long:%s:bs%d" % (kind, bs), gen_case(rng, n, bs, count_every=0.25 if bs <= 3 else 0.05, kind=kind))])

    ctx.oblige("correspondence harness/blockalloc.cpp == BlockAlloc model on %d histories" % d.cases, bad == 0,
               "%d differing cases" % bad, reported=True)
    ctx.samples = [gen_case(ctx.rng("sample"), 14, 2), gen_case(ctx.rng("sample3"), 14, 3)]
    ctx.stats["model_branch_coverage"] = d.covs
    ctx.stats["cases_by_blocksize"] = d.by_bs
    ctx.stats["cases_by_element_type"] = d.by_kind
    cov = {
        "evaluations": d.cases, "distinct_nontrivial": len(d.distinct),
        "rule": "histories of alloc / del (destroy + free, cascading through owned elements) / own / count / freeall over block sizes 2, 3, 256 and element types of 1, 2, 3 bytes and a 16-aligned one: every legal history of %d operations without ownership and of %d operations with ownership for block sizes 2 and 3 (count after every operation), random population walks across block boundaries with 3%% illegal lines, and long single histories; non-trivial = at least one accepted operation with an observation; distinct by SHA-1 of the op lines" % (exh_len, own_len),
        "op_lines": d.lines, "op_histogram": d.hist, "model_answer_kinds": d.outkinds,
        "exhaustive": False,
    }
    return common.finish(ctx, "proof", cov, TRUSTED, ASSUME,
                         "cd lean && lake build && lake env lean <Audit.lean with #print axioms>; tools/check.py C19")


def replay(ctx, obj):
    common.lake_build()
    exe = build(ctx)
    d = Diff(ctx, Prop(), exe, AREA)
    impl, crash, info, model = d.both(obj["lines"])
    for i, l in enumerate(obj["lines"]):
        print("> %s\n  impl : %s\n  model: %s" % (l, impl[i] if i < len(impl) else "<missing>", model[i] if i < len(model) else "<missing>"))
    if crash:
        print("CRASH", crash); print(info)
    bad = crash is not None or common.first_diff(impl, model) is not None
    if bad:
        print("classify:", Prop().classify(obj["lines"], impl, crash, model))
    print("replay:", "still differs" if bad else "no difference")
    return 1 if bad else 0
