"""C20 — engines on different OS threads do not interfere (DESIGN.md 7.11).

proof   : lean/MorfuseModel/Conc/* + Props/C20.lean (lock discipline => no overlapping conflicting
          critical sections, for every N / program / interleaving; shared-mode writers overlap;
          locked pool => per-context results equal the solo results, no slot handed out twice)
(T)     : tools/vlib/concgen.py regenerates Gen/ConcGen.lean from BlockAlloc.h and from the freshly
          built object files; the obligations over it are discharged by `decide`, one file each
search  : harness/conc.cpp under ThreadSanitizer, 2..16 OS threads, own ScriptContext each,
          per-context transcript compared with the solo run of the same workloads
"""
import glob
import json
import os
import re
import subprocess
import time

from vlib import common, concgen
from vlib.common import VERIF, LEAN

PROPS_MODULE = "MorfuseModel.Props.C20"
PROPS_FILE = os.path.join(LEAN, "MorfuseModel", "Props", "C20.lean")
GEN_FILE = os.path.join(LEAN, "MorfuseModel", "Gen", "ConcGen.lean")
TSAN_ENV = {"TSAN_OPTIONS": "halt_on_error=0:exitcode=66:second_deadlock_stack=1:history_size=4:report_signal_unsafe=0"}

TRUSTED = [
    "Lean 4.33.0 kernel (lake build; leanchecker in the thorough tier)",
    "axioms allowed: propext, Classical.choice, Quot.sound (audited by #print axioms on every run)",
    "the C++ memory model and the library: std::shared_mutex / std::shared_lock / std::unique_lock behave as the state machine lean/MorfuseModel/Conc/Model.lean (lock needs no reader and no writer, lock_shared needs no writer); C++11 guarded initialisation of function-local statics and static initialisation before main happen-before every later use; thread_local objects are per OS thread",
    "translator tools/vlib/concgen.py: regex reading of BlockAllocSafe's lock statements and of assignments in BlockAlloc's method bodies; nm/readelf/c++filt symbol inventory (sections b B d D u V, TLS by readelf type)",
    "tools/vlib/conc_globals.json: the reviewed class of each of the ~240 writable statics, with the evidence cited per class (reading of the source; not machine-checked beyond storage class and the TSan search)",
    "ThreadSanitizer (g++ 12): a data race is only seen on schedules the run meets; harness/conc.cpp, its transcript canonicalisation and the workload generator below",
    "the pool layer of the model (Conc/Pool.lean) uses the C19 model of BlockAlloc (tied to the code by C19's correspondence) as the sequential object behind the lock",
]
ASSUME = [
    "each ScriptContext is created, driven and destroyed by one OS thread; contexts exchange no script objects",
    "hosts configure process-wide settings (GlobalOutput streams, IMemoryManager, verif hooks) before starting worker threads",
    "the schedules explored are those the OS produced in this run (2..16 threads, randomised start offsets and workloads); the theorems cover all interleavings of the model, the runs only those met",
]


# ------------------------------------------------------------------------------------------------
# workload generator

FEATURES = {
    # name: (label body lines, needs listener param?)
    "arr": ['local.n = %(n)d',
            'for (local.i = 0; local.i < local.n; local.i++) { local.a[local.i] = local.i * %(k)d; local.h["k" + local.i] = local.i }',
            'local.s = 0', 'for (local.i = 0; local.i < local.n; local.i++) { local.s += local.a[local.i] + local.h["k" + local.i] }',
            'println "arr%(id)d " local.s " " local.a.size'],
    "str": ['local.t = ""', 'for (local.i = 0; local.i < %(n)d; local.i++) { local.t = local.t + "%(w)s" + local.i }',
            'println "str%(id)d " local.t'],
    "vec": ['local.v = angles_toforward ( 0 %(ang)d 0 )', 'local.l = angles_toleft ( %(ang)d 0 0 )', 'local.u = angles_toup ( 0 0 %(ang)d )',
            'local.w = ( 1 2 3 ) + ( %(k)d 5 6 )', 'println "vec%(id)d " local.v " " local.l " " local.u " " local.w'],
    "ent": ['local.e = spawn SimpleEntity targetname "e%(id)d"', 'local.f = spawn SimpleEntity targetname "e%(id)d"',
            'local.e.val = %(k)d', 'println "ent%(id)d " $e%(id)d.size " " local.e.val " " local.e.forwardvector',
            'wait %(w1)s', 'local.e delete', 'println "ent%(id)d b " $e%(id)d.size', 'local.f delete'],
    "sig": ['local.o = spawn Listener', 'thread sigw%(id)d local.o', 'wait %(w1)s', 'local.o notify "go%(id)d"', 'wait %(w2)s',
            'println "sig%(id)d done"', 'local.o delete'],
    "lvl": ['for (local.i = 0; local.i < %(n)d; local.i++) { level.x%(id)d[local.i] = "v" + local.i; game.y%(id)d[local.i] = local.i * %(k)d }',
            'println "lvl%(id)d " level.x%(id)d[%(n)d - 1] " " game.y%(id)d[1]'],
    "sub": ['local.r = waitthread sq%(id)d %(k)d', 'println "sub%(id)d " local.r', 'local.q = thread sq%(id)d 3', 'println "sub%(id)d b"'],
    "tmr": ['for (local.i = 0; local.i < %(m)d; local.i++) { wait %(w1)s; println "tmr%(id)d " local.i }'],
    "err": ['println "err%(id)d a"', '$nobody%(id)d delete', 'local.z = 1 / 0', 'println "err%(id)d b"'],
    "sw": ['switch (%(k)d) {', 'case 1: println "one%(id)d"; break', 'case 3: println "three%(id)d"; break', 'default: println "def%(id)d"', '}'],
}
EXTRA = {
    "sig": ['sigw%(id)d local.l:', 'local.l waittill "go%(id)d"', 'println "sig%(id)d went"', 'end'],
    "sub": ['sq%(id)d local.x:', 'wait 0.05', 'end (local.x * local.x)'],
}
WAITS = ["0", "0.05", "0.1", "0.25"]


def gen_script(rng, nfeat=None):
    """a script whose `main` starts one thread per chosen feature; deterministic output"""
    names = sorted(FEATURES)
    k = nfeat or rng.randint(2, 6)
    chosen = [rng.choice(names) for _ in range(k)]
    lines = ["main:"]
    labels = []
    for i, f in enumerate(chosen):
        p = {"id": i, "n": rng.choice([3, 17, 40, 90]), "k": rng.randint(1, 9), "ang": rng.choice([0, 30, 90, 135]),
             "w": rng.choice(["ab", "x", "hello "]), "w1": rng.choice(WAITS), "w2": rng.choice(WAITS), "m": rng.randint(1, 4)}
        lines.append("thread f%d" % i)
        body = ["f%d:" % i] + [l % p for l in FEATURES[f]] + ["end"]
        if f in EXTRA:
            body += [l % p for l in EXTRA[f]]
        labels.append(body)
    lines.append('println "main done"')
    lines.append("end")
    for b in labels:
        lines += b
    return "\n".join(lines) + "\n", chosen


BAD_SCRIPT = "main:\nlocal.q = nosuchcommand 5\nend\n"


def gen_workload(rng, wid, hint=None):
    """ops of one context: compile, execute, wait/resume, reset, re-create, destroy"""
    ops, feats = [], []
    rounds = rng.randint(1, 3)
    for r in range(rounds):
        src, ch = gen_script(rng)
        if hint == "pool":
            src, ch = gen_script(rng, nfeat=4)
        feats += ch
        ops.append("S:m%d:%s" % (r, src.encode().hex()))
        ops.append("C:m%d:main" % r)
        for _ in range(rng.randint(0, 3)):
            ops.append("T:%d" % rng.choice([0, 50, 125, 300]))
        if rng.random() < 0.8:
            ops.append("X:%d:%d" % (rng.choice([50, 125]), rng.randint(2, 12)))
        if rng.random() < 0.15:
            ops.append("S:bad:%s" % BAD_SCRIPT.encode().hex())
            ops.append("C:bad:main")
        if rng.random() < 0.2:
            ops.append("C:m%d:nolabel" % r)
        x = rng.random()
        if x < 0.35:
            ops.append("R")
        elif x < 0.6:
            ops.append("N")
    if hint == "pool" or rng.random() < 0.3:
        ops.append("P:%d" % rng.randint(1, 4))
    return {"id": wid, "offset_us": rng.choice([0, 0, 0, 20, 100, 500, 2000]), "ops": ops, "features": feats}


def workload_lines(ws):
    return ["w %d %d %s" % (w["id"], w["offset_us"], " ".join(w["ops"])) for w in ws]


# ------------------------------------------------------------------------------------------------
# running the harness and reading ThreadSanitizer

def run_harness(exe, mode, lines, timeout):
    env = dict(os.environ)
    env.update(TSAN_ENV)
    t = time.time()
    try:
        p = subprocess.run([exe, mode], input="\n".join(lines) + "\n", stdout=subprocess.PIPE, stderr=subprocess.PIPE,
                           env=env, timeout=timeout, text=True, errors="replace")
    except subprocess.TimeoutExpired:
        return {"out": {}, "rc": None, "stderr": "timeout after %ds" % timeout, "timeout": True, "wall": time.time() - t}
    out = {}
    for l in p.stdout.split("\n"):
        m = re.match(r"r (\d+) (.*)$", l)
        if m:
            out[int(m.group(1))] = m.group(2)
    return {"out": out, "rc": p.returncode, "stderr": p.stderr, "timeout": False, "wall": time.time() - t}


FRAME = re.compile(r"#\d+ (.+?) (/[^\s:]+|<null>)(?::(\d+))?")


def _repo_frame(stack):
    for m in FRAME.finditer(stack):
        fn, path = m.group(1), m.group(2)
        if path.startswith(common.REPO) or "/repo/" in path:
            fn = re.sub(r"\(.*", "", fn)
            fn = re.sub(r"<.*>", "<>", fn)
            return fn
    return None


def tsan_reports(stderr):
    """[(signature, summary, text)] for each ThreadSanitizer report (and fatal signal)"""
    res = []
    for blk in stderr.split("=================="):
        m = re.search(r"WARNING: ThreadSanitizer: ([^\n(]+)", blk)
        if not m:
            continue
        kind = m.group(1).strip().replace(" ", "-")
        parts = re.split(r"\n\s*\n", blk)
        stacks = [p for p in parts if re.search(r"^\s*(Previous |)(Read|Write|Atomic|read|write)", p.strip()[:40], re.I) or
                  re.match(r"\s*(Read|Write|Previous)", p)]
        tops = [_repo_frame(s) for s in stacks[:2]]
        loc = re.search(r"Location is ([^\n]+)\n((?:\s+#\d+[^\n]*\n)*)", blk)
        where = ""
        if loc:
            g = re.search(r"global '([^']+)'", loc.group(1))
            if g:
                name = re.sub(r"<.*>", "<>", g.group(1))
                # function-local static: one signature per function, not per variable
                name = re.sub(r"\(.*\)( const)?::\w+$", "::<local static>", name)
                where = "global:" + name
            elif "heap block" in loc.group(1):
                alloc = loc.group(2)
                if re.search(r"BlockAlloc<.*>::Alloc", alloc):
                    where = "pool-block"
                else:
                    where = "heap:" + (_repo_frame(alloc) or "?")
            elif "TLS" in loc.group(1):
                where = "tls"
            else:
                where = loc.group(1).split(" of ")[0].strip()[:30]
        if where.startswith("global:mfuse::MEM::BlockAllocSafe_set") or where == "pool-block":
            sig = "tsan:%s:pool" % kind
        elif where.startswith("global:"):
            sig = "tsan:%s:%s" % (kind, where)
        else:
            sig = "tsan:%s:%s:%s" % (kind, where, "|".join(sorted(t or "?" for t in tops)))
        summ = re.search(r"SUMMARY: ThreadSanitizer: ([^\n]+)", blk)
        res.append((sig, summ.group(1)[:300] if summ else "", blk.strip()[:6000]))
    m = re.search(r"ERROR: ThreadSanitizer: (\w+) on unknown address[^\n]*\n(.*?)(?:\n\n|$)", stderr, re.S)
    if m:
        res.append(("crash:%s@%s" % (m.group(1), _repo_frame(m.group(2)) or "?"), "fatal signal", stderr[m.start():m.start() + 4000]))
    return res


class Search:
    def __init__(self, ctx, exe):
        self.ctx, self.exe = ctx, exe
        self.found = {}          # signature -> replay path
        self.runs = 0
        self.threads_hist = {}
        self.feature_hist = {}
        self.op_hist = {}
        self.distinct = set()
        self.contexts = 0
        self.nontrivial = 0
        self.tsan_reports = 0
        self.timeout = 60

    def record(self, sig, why, ws, extra):
        if sig in self.found:
            return
        ctx = self.ctx
        obj = {"property": ctx.prop_id, "kind": "tsan-search", "signature": sig, "why": why,
               "threads": len(ws), "workloads": workload_lines(ws),
               "how_to_replay": "python3 tools/check.py C20 --replay <this file>  (runs the workloads in `par` mode under ThreadSanitizer up to 8 times)"}
        obj.update(extra)
        path = common.save_replay(ctx, obj)
        self.found[sig] = path
        ctx.violations.append({"signature": sig, "replay": path, "why": why, "found_input": True})

    def one(self, ws, repeat=1):
        """solo once, par `repeat` times.  Returns list of signatures seen."""
        lines = workload_lines(ws)
        sigs = []
        solo = run_harness(self.exe, "solo", lines, self.timeout)
        self.runs += 1
        n = len(ws)
        self.threads_hist[n] = self.threads_hist.get(n, 0) + 1
        for w in ws:
            self.contexts += 1
            for f in w.get("features", []):
                self.feature_hist[f] = self.feature_hist.get(f, 0) + 1
            for o in w["ops"]:
                self.op_hist[o[0]] = self.op_hist.get(o[0], 0) + 1
            h = hash(" ".join(w["ops"]))
            if h not in self.distinct:
                self.distinct.add(h)
        if solo["timeout"] or solo["rc"] != 0 or len(solo["out"]) != n:
            reps = tsan_reports(solo["stderr"])
            sig = reps[0][0] if reps else ("solo:timeout" if solo["timeout"] else "solo:exit%s" % solo["rc"])
            self.record("solo:" + sig, "the workloads fail even when run one after the other: %s" % (reps[0][1] if reps else solo["stderr"][-300:]),
                        ws, {"stderr": solo["stderr"][-4000:]})
            return ["solo:" + sig]
        for w in ws:
            if "o=" in solo["out"].get(w["id"], "") and re.search(r"o=[^ ]", solo["out"][w["id"]]):
                self.nontrivial += 1
        for _ in range(repeat):
            par = run_harness(self.exe, "par", lines, self.timeout)
            self.runs += 1
            reps = tsan_reports(par["stderr"])
            self.tsan_reports += len(reps)
            pool_run = any(sig.endswith(":pool") for sig, _, _ in reps)
            for sig, summ, text in reps:
                if pool_run and ":global:" not in sig:
                    # once the pool hands one slot to two threads every access to that entry races:
                    # same cause, one signature
                    sig = "tsan:data-race:pool"
                sigs.append(sig)
                self.record(sig, "ThreadSanitizer, %d contexts on %d OS threads: %s" % (n, n, summ or sig), ws, {"report": text})
            if par["timeout"]:
                sigs.append("hang")
                self.record("hang", "parallel run did not finish in %ds (solo run took %.1fs)" % (self.timeout, solo["wall"]), ws, {})
                continue
            if par["rc"] not in (0, 66) and not any(s.startswith("crash:") for s in sigs):
                sigs.append("crash:exit%s" % par["rc"])
                self.record("crash:exit%s" % par["rc"], "parallel run died with status %s: %s" % (par["rc"], par["stderr"][-400:]), ws,
                            {"stderr": par["stderr"][-4000:]})
            for w in ws:
                a, b = solo["out"].get(w["id"]), par["out"].get(w["id"])
                if b is not None and a != b:
                    i = common.first_diff(a.split(" ; "), b.split(" ; "))
                    sa, sb = a.split(" ; "), b.split(" ; ")
                    sig = "output-differs"
                    sigs.append(sig)
                    self.record(sig, "context %d: op %s answered `%s` alone but `%s` next to %d other contexts" % (
                        w["id"], i, sa[i][:300] if i is not None and i < len(sa) else "<missing>",
                        sb[i][:300] if i is not None and i < len(sb) else "<missing>", n - 1), ws,
                        {"solo": a, "par": b})
        return sigs


# ------------------------------------------------------------------------------------------------
# (T): regenerate the tables, discharge the obligations

OBLIGATIONS = [
    # (name, lean proposition, what it means, search hint)
    ("translator_read_source", "translatorProblems = []", "the translator recognised every BlockAllocSafe method", None),
    ("writers_exclusive", "writersExclusive lockTable = true", "every BlockAllocSafe method that writes pool state holds the mutex exclusively", "pool"),
    ("readers_locked", "readersLocked lockTable = true", "every BlockAllocSafe method the engine reaches holds the mutex", "pool"),
    ("facade_complete", "facadeComplete lockTable = true", "BlockAllocSafe_set reaches Alloc and Free", None),
    ("no_direct_users", "directUsers = []", "no engine code instantiates BlockAllocSafe outside the facade (inherited unlocked methods stay unreachable)", "pool"),
    ("no_other_sync", "otherSync = []", "no other mutex/atomic/call_once in the engine that this translator does not model", None),
    ("no_vanished", "vanished = []", "every symbol of the reviewed classification is still defined by the build", None),
    ("some_guarded", "someGuarded globals = true", "the build defines at least one mutex-guarded pool (non-vacuity of table (i))", None),
]
CHUNKED = [
    ("all_classified", "allClassified", "every writable static of the build has a reviewed class (none new, none contradicted by its storage)", "any"),
    ("tls_consistent", "tlsConsistent", "a static is classified thread_local exactly when the object file places it in TLS", "any"),
    ("none_racy", "noneRacy", "no static is classified unsafe (written after initialisation without synchronisation)", "racy"),
]


def translate(ctx, objs, build_root):
    lt = concgen.lock_table(common.REPO)
    inv = concgen.inventory(objs, build_root)
    data = concgen.load_classification()
    rows, vanished, problems = concgen.classify(inv, data)
    lt["problems"] = lt["problems"] + problems
    text = concgen.render(lt, rows, vanished)
    with common.LakeLock():
        common.write_if_changed(GEN_FILE, text)
    ctx.stats["lock_table"] = [{k: r[k] for k in ("method", "lock", "wraps", "writes", "reachable")} for r in lt["rows"]]
    hist = {}
    for r in rows:
        hist[r["cls"]] = hist.get(r["cls"], 0) + 1
    ctx.stats["globals_by_class"] = hist
    ctx.stats["globals"] = len(rows)
    return lt, rows, vanished


def lean_obligation(ctx, name, body):
    path = os.path.join(ctx.tmp, "Obl_%s.lean" % name)
    with open(path, "w") as f:
        f.write("import MorfuseModel.Gen.ConcGen\nimport MorfuseModel.Conc.Table\nopen Morfuse.Conc Morfuse.Conc.Gen\n" + body + "\n")
    with common.LakeLock():
        p = common.sh(["lake", "env", "lean", path], cwd=LEAN, timeout=600)
    return p.returncode == 0, (p.stdout + p.stderr)[-1500:]


def discharge(ctx, lt, rows, vanished):
    """returns {obligation name: (ok, detail, hint)}"""
    res = {}
    nchunks = (len(rows) + 63) // 64
    detail_for = {
        "writers_exclusive": "; ".join("%s takes %s lock but %s writes pool state" % (r["method"], r["lock"], r["wraps"])
                                       for r in lt["rows"] if r["writes"] and r["lock"] != "exclusive"),
        "readers_locked": "; ".join("%s is reachable and takes no lock" % r["method"] for r in lt["rows"] if r["reachable"] and r["lock"] == "none"),
        "translator_read_source": "; ".join(lt["problems"]),
        "no_direct_users": "; ".join(lt["direct_users"]),
        "no_other_sync": "; ".join(lt["other_sync"][:10]),
        "no_vanished": "; ".join(vanished[:10]),
        "all_classified": "; ".join("%s (%s)" % (r["name"], r["why"]) for r in rows if r["cls"] == "unknown")[:1500],
        "none_racy": "; ".join(r["name"] for r in rows if r["cls"] == "unsafe")[:1500],
    }
    for name, prop, what, hint in OBLIGATIONS:
        ok, out = lean_obligation(ctx, name, "theorem gen_%s : %s := by decide" % (name, prop))
        res[name] = (ok, what + ((" — " + detail_for.get(name, "")) if not ok else ""), hint, out)
    for name, fn, what, hint in CHUNKED:
        body = []
        for c in range(nchunks):
            body.append("theorem c%d : %s globals%d = true := by decide" % (c, fn, c))
        body.append("theorem gen_%s : %s globals = true := by\n  simp only [globals, %s_append, %s, Bool.and_self]" % (
            name, fn, fn, ", ".join("c%d" % c for c in range(nchunks))))
        ok, out = lean_obligation(ctx, name, "\n".join(body))
        res[name] = (ok, what + ((" — " + detail_for.get(name, "")) if not ok else ""), hint, out)
    return res


# ------------------------------------------------------------------------------------------------

def build(ctx):
    exe = common.build_full(ctx, "h_conc", ["conc.cpp"], tsan=True)
    b, objs = common.build_lib(ctx, tsan=True)
    return exe, objs, os.path.join(b, "src", "CMakeFiles", "morfuse.dir")


def corpus_cases():
    res = []
    for p in sorted(glob.glob(os.path.join(VERIF, "corpus", "C20", "*.json"))):
        res.append((os.path.basename(p), json.load(open(p))))
    return res


def parse_workloads(lines):
    ws = []
    for l in lines:
        t = l.split()
        if len(t) >= 3 and t[0] == "w":
            ws.append({"id": int(t[1]), "offset_us": int(t[2]), "ops": t[3:], "features": []})
    return ws


def check(ctx):
    quick = ctx.tier == "quick"
    exe, objs, root = build(ctx)
    lt, rows, vanished = translate(ctx, objs, root)
    proofs_ok, _ = common.proof_side(ctx, PROPS_MODULE, PROPS_FILE)
    if ctx.tier == "thorough":
        common.leanchecker(ctx, PROPS_MODULE)
    obl = discharge(ctx, lt, rows, vanished) if ctx.stats.get("lake_build_ok") else {}
    failed = [n for n, (ok, _, _, _) in obl.items() if not ok]
    hints = set(obl[n][2] for n in failed if obl[n][2])

    s = Search(ctx, exe)
    t_end = time.time() + (60 if quick else 540)
    # corpus first
    for name, obj in corpus_cases():
        s.one(parse_workloads(obj["workloads"]), repeat=2)
    rng = ctx.rng("workloads")
    rounds = 0
    sizes = [2, 2, 3, 4, 8, 16] if quick else [2, 2, 2, 3, 3, 4, 4, 6, 8, 8, 12, 16]
    max_rounds = 250 if quick else 4000
    while rounds < max_rounds and time.time() < t_end:
        n = sizes[rounds % len(sizes)]
        hint = "pool" if ("pool" in hints and rounds % 2 == 0) else None
        ws = [gen_workload(rng, i, hint) for i in range(n)]
        if rounds % 5 == 4:
            # identical workloads on every thread: maximal contention on the same code paths
            ws = [dict(ws[0], id=i, offset_us=0) for i in range(n)]
        s.one(ws, repeat=1 if quick else 2)
        rounds += 1
        if len(s.found) >= 6:
            break
    ctx.stats.update({"search_rounds": rounds, "harness_runs": s.runs, "contexts_run": s.contexts,
                      "threads_histogram": {str(k): v for k, v in sorted(s.threads_hist.items())},
                      "feature_histogram": s.feature_hist, "op_histogram": s.op_hist, "tsan_reports": s.tsan_reports,
                      "signatures_found": sorted(s.found)})
    # obligations: a failed table obligation is represented by the concrete races found, if any
    have_pool = any(":pool" in k for k in s.found)
    racy_syms = [r["name"] for r in rows if r["cls"] == "unsafe"]
    have_racy = any(k.startswith("tsan:data-race:global:") for k in s.found)
    for name, (ok, detail, hint, out) in obl.items():
        rep = (not ok) and ((hint == "pool" and have_pool) or (hint == "racy" and have_racy) or (hint == "any" and bool(s.found)))
        ctx.oblige("(T) " + name, ok, detail + ("" if ok else " | lean: " + out[-300:]), reported=rep)
    ctx.oblige("search: no ThreadSanitizer report, crash, hang or per-context output difference in %d parallel runs (%d contexts)" % (
        s.runs // 2, s.contexts), not s.found, "; ".join(sorted(s.found)), reported=True)
    ctx.samples = [{"threads": 2, "workloads": [l[:400] for l in workload_lines([gen_workload(ctx.rng("sample"), i) for i in range(2)])]}]
    cov = {
        "evaluations": s.contexts, "distinct_nontrivial": min(len(s.distinct), s.nontrivial),
        "rule": "one evaluation = one ScriptContext driven on its own OS thread through a generated workload (1-3 rounds of compile + ExecuteThread + clock/Execute steps + Reset / re-creation, optional direct con::set rounds; scripts start 2-6 feature threads out of %d features: arrays/hash arrays, strings, vector built-ins, entities with $targetname, notify/waittill, level/game variables, waitthread, timers, script errors, switch; 15%% compile errors, 20%% missing labels) next to 1..15 others, under ThreadSanitizer, compared with its solo transcript; every 5th round runs the same workload on all threads; distinct by hash of the op list; non-trivial = the context printed script output" % len(FEATURES),
        "exhaustive": False,
    }
    return common.finish(ctx, "proof", cov, TRUSTED, ASSUME,
                         "cd lean && lake build && lake env lean <Audit.lean with #print axioms> && lake env lean <Obl_*.lean>; tools/check.py C20")


def replay(ctx, obj):
    exe, objs, root = build(ctx)
    if "workloads" not in obj:
        print("replay file names a proof obligation, not an input:", obj.get("obligation"), obj.get("detail", "")[:2000])
        lt, rows, vanished = translate(ctx, objs, root)
        ok, _ = common.lake_build()
        res = discharge(ctx, lt, rows, vanished)
        name = obj.get("obligation", "").replace("(T) ", "")
        if name in res:
            print("obligation", name, "now", "holds" if res[name][0] else "fails: " + res[name][1])
            return 0 if res[name][0] else 1
        return 1
    ws = parse_workloads(obj["workloads"])
    s = Search(ctx, exe)
    want = obj.get("signature")
    seen = []
    for k in range(8):
        seen += s.one(ws)
        if want in seen:
            break
    for sig in sorted(set(seen)):
        print("SEEN", sig)
    print("replay:", ("same failure reproduced: " + want) if want in seen else
          ("other failure(s) seen" if seen else "no failure in 8 parallel runs"))
    return 1 if seen else 0
