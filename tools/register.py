#!/usr/bin/env python3
"""register.py Cxx [--fixed <commit>:<n-th entry of notes/Cxx-known-findings.json> ...] [--note-sub old=>new]
merge notes/Cxx-manifest-entry.json into MANIFEST.json, drop Cxx from not_applicable, and move the
entries of notes/Cxx-known-findings.json into known_findings.json (status fixed + commit when given)."""
import json, sys, os
V = os.path.dirname(os.path.dirname(os.path.abspath(__file__)))
pid = sys.argv[1]
fixed = {}
for a in sys.argv[2:]:
    if a.startswith("--fixed="):
        c, i = a[8:].split(":")
        fixed[int(i)] = c
m = json.load(open(os.path.join(V, "MANIFEST.json")))
e = json.load(open(os.path.join(V, "notes", pid + "-manifest-entry.json")))
m["checks"] = sorted([c for c in m["checks"] if c["property_id"] != pid] + [e], key=lambda c: c["property_id"])
for eng in m["engines"]:
    eng["serves_properties"] = sorted(set(eng["serves_properties"]) | {pid})
m["not_applicable"] = [x for x in m.get("not_applicable", []) if x["property_id"] != pid]
json.dump(m, open(os.path.join(V, "MANIFEST.json"), "w"), indent=1)
kp = os.path.join(V, "notes", pid + "-known-findings.json")
if os.path.exists(kp):
    k = json.load(open(os.path.join(V, "known_findings.json")))
    new = json.load(open(kp))
    if isinstance(new, dict):
        new = new.get("findings", [])
    have = {(f["property"], f["signature"]) for f in k["findings"]}
    for i, f in enumerate(new):
        if i in fixed:
            f["status"] = "fixed"; f["commit"] = fixed[i]
            if not f["what"].startswith("fixed:"):
                f["what"] = "fixed: property=%s %s %s" % (pid, fixed[i], f["what"])
        if (f["property"], f["signature"]) not in have:
            k["findings"].append(f)
    json.dump(k, open(os.path.join(V, "known_findings.json"), "w"), indent=1)
print("registered", pid)
