#!/bin/bash
# seedaudit.sh [pattern]: re-confirm every kept independent seed against /repo's current HEAD on a scratch worktree
# (clean: demo exits 0; patched: builds, 24/24 tests, demo exits non-zero).  Prints one line per seed.
PAT=${1:-"*-ind-*"}
W=/tmp/seedaudit.$$
git -C /repo worktree add -q --detach $W HEAD || exit 2
cd $W && cmake -G Ninja -S . -B _build -DCMAKE_BUILD_TYPE=RelWithDebInfo -DCMAKE_CXX_FLAGS=-Wno-error >/dev/null && cmake --build _build -j12 >/dev/null 2>&1
for d in /verif/seeded/$PAT; do
  [ -f $d/run_demo.sh ] || continue
  n=$(basename $d)
  timeout 600 bash $d/run_demo.sh $W >/dev/null 2>&1; c=$?
  if ! git apply $d/patch.diff 2>/dev/null; then echo "AUDIT $n patch-does-not-apply"; git checkout -q -- .; continue; fi
  if ! cmake --build _build -j12 >/dev/null 2>&1; then echo "AUDIT $n patched-build-fails"; git checkout -q -- .; cmake --build _build -j12 >/dev/null 2>&1; continue; fi
  t=$(timeout 900 ctest --test-dir _build/tests -j8 --timeout 300 2>&1 | grep -o "[0-9]* tests failed out of [0-9]*")
  timeout 900 bash $d/run_demo.sh $W >/dev/null 2>&1; p=$?
  git checkout -q -- .; cmake --build _build -j12 >/dev/null 2>&1
  echo "AUDIT $n clean_demo=$c patched_demo=$p tests='$t'"
done
cd /; git -C /repo worktree remove --force $W
