#!/bin/bash
# seedconfirm.sh <breaker-worktree> <PROP> <k> [<k>...]: re-confirm independent changes delivered under <worktree>/out/<k>
# (clean: demo exits 0; patched: builds, 24/24 tests, demo exits non-zero) and keep the confirmed ones as seeded/<PROP>-ind-<k>.
W=$1; P=$2; shift 2
V=$(cd "$(dirname "$0")/.." && pwd)
cd $W || exit 2
git checkout -q -- . ; cmake --build _build -j12 >/dev/null 2>&1
for k in "$@"; do
  d=$W/out/$k
  [ -f $d/patch.diff ] || { echo "CONFIRM $P-$k no patch"; continue; }
  timeout 900 bash $d/run_demo.sh $W >/dev/null 2>&1; c=$?
  if ! git apply $d/patch.diff 2>/dev/null; then echo "CONFIRM $P-$k patch-does-not-apply"; git checkout -q -- .; continue; fi
  if ! cmake --build _build -j12 >/dev/null 2>&1; then echo "CONFIRM $P-$k patched-build-fails"; git checkout -q -- .; cmake --build _build -j12 >/dev/null 2>&1; continue; fi
  t=$(timeout 1200 ctest --test-dir _build/tests -j8 --timeout 300 2>&1 | grep -o "[0-9]* tests failed out of [0-9]*")
  timeout 900 bash $d/run_demo.sh $W >/dev/null 2>&1; p=$?
  git checkout -q -- .; cmake --build _build -j12 >/dev/null 2>&1
  line="clean_demo=$c patched_demo=$p tests='$t'"
  echo "CONFIRM $P-$k $line"
  if [ "$c" = 0 ] && [ "$p" != 0 ] && [ "$t" = "0 tests failed out of 24" ]; then
    python3 $V/tools/seedkeep.py $W $k $P "$line"
  fi
done
