#!/usr/bin/env python3
"""seedkeep.py <worktree> <k> <PROP> <confirm-line> : copy a confirmed independent seeded change into /verif/seeded/"""
import json, os, shutil, sys
w, k, prop, line = sys.argv[1:5]
src = os.path.join(w, "out", k)
dst = os.path.join(os.path.dirname(os.path.dirname(os.path.abspath(__file__))), "seeded", "%s-ind-%s" % (prop, k))
if os.path.exists(dst):
    shutil.rmtree(dst)
shutil.copytree(src, dst, ignore=shutil.ignore_patterns("*.o", "_build", "a.out"))
m = json.load(open(os.path.join(dst, "meta.json")))
m["property"] = prop
m["origin"] = "independent sub-agent given only the property text and a scratch worktree of /repo"
m["confirmed_by_lead"] = {"ran": "clean tree: cmake --build, run_demo.sh -> 0; git apply patch.diff, cmake --build, ctest 24/24, run_demo.sh -> non-zero; git checkout -- .",
                          "result": line}
json.dump(m, open(os.path.join(dst, "meta.json"), "w"), indent=1)
print(dst)
