#!/usr/bin/env python3
"""Run the registered check(s) of a property against a seeded change, on a scratch copy of /repo.

  tools/seedrun.py <dir-with-patch.diff-and-meta.json | patch.diff> [--prop Cxx[,Cyy]] [--tier quick|thorough|both]
                   [--seeds 1,2] [--also-clean]

The patch is applied to an rsync copy of /repo (never to /repo itself); the check runs with
VERIF_REPO pointing at the copy.  Evidence files and regenerated Gen/*.lean of this checkout are
restored afterwards (git checkout), so run it from a scratch worktree of /verif or accept that.
Prints one line per run:  SEEDRUN <name> prop=<id> tier=<t> seed=<s> rc=<rc> wall=<s> <VIOLATION line or ->"""
import argparse
import json
import os
import shutil
import subprocess
import sys
import tempfile
import time

VERIF = os.path.dirname(os.path.dirname(os.path.abspath(__file__)))


def main():
    ap = argparse.ArgumentParser()
    ap.add_argument("what")
    ap.add_argument("--prop")
    ap.add_argument("--tier", default="quick")
    ap.add_argument("--seeds", default="1")
    ap.add_argument("--repo", default="/repo")
    ap.add_argument("--timeout", type=int, default=3600)
    a = ap.parse_args()
    if os.path.isdir(a.what):
        patch = os.path.join(a.what, "patch.diff")
        name = os.path.basename(os.path.normpath(a.what))
        meta = {}
        try:
            meta = json.load(open(os.path.join(a.what, "meta.json")))
        except Exception:
            pass
        props = a.prop or meta.get("property")
    else:
        patch = a.what
        name = os.path.basename(patch)
        props = a.prop
    if not props:
        sys.exit("need --prop")
    props = [p.strip().upper() for p in props.split(",")]
    tiers = ["quick", "thorough"] if a.tier == "both" else [a.tier]
    tmp = tempfile.mkdtemp(prefix="seedrun.")
    copy = os.path.join(tmp, "repo")
    rc_all = 0
    try:
        subprocess.run(["rsync", "-a", "--exclude", "_build", "--exclude", ".git", a.repo + "/", copy + "/"], check=True)
        p = subprocess.run(["git", "apply", "--unsafe-paths", "--directory=" + copy, os.path.abspath(patch)],
                           cwd="/", capture_output=True, text=True)
        if p.returncode != 0:
            p = subprocess.run(["patch", "-p1", "-d", copy, "-i", os.path.abspath(patch)], capture_output=True, text=True)
            if p.returncode != 0:
                print("SEEDRUN %s patch does not apply: %s" % (name, (p.stdout + p.stderr)[-500:]))
                return 3
        for prop in props:
            for tier in tiers:
                for seed in a.seeds.split(","):
                    env = dict(os.environ, VERIF_REPO=copy, VERIF_SEED=seed)
                    t0 = time.time()
                    try:
                        q = subprocess.run([sys.executable, os.path.join(VERIF, "tools", "check.py"), prop, "--tier", tier],
                                           cwd=VERIF, env=env, capture_output=True, text=True, timeout=a.timeout)
                        rc, out = q.returncode, q.stdout + q.stderr
                    except subprocess.TimeoutExpired:
                        rc, out = 124, ""
                    vio = [l for l in out.splitlines() if l.startswith("VIOLATION")]
                    other = [l for l in out.splitlines() if l.startswith("CHECK-ERROR") or "Traceback" in l]
                    print("SEEDRUN %s prop=%s tier=%s seed=%s rc=%d wall=%.0fs %s" % (
                        name, prop, tier, seed, rc, time.time() - t0, " | ".join(vio + other)[:600] or "-"), flush=True)
                    if rc == 1:
                        # keep the replay next to the seed for the record
                        for l in vio:
                            for tok in l.split():
                                if tok.startswith("replay=") and os.path.isfile(tok[7:]) and os.path.isdir(a.what):
                                    shutil.copy(tok[7:], os.path.join(a.what, "replay.%s.%s.json" % (prop, tier)))
                    rc_all = max(rc_all, 0 if rc == 1 else 1)
    finally:
        shutil.rmtree(tmp, ignore_errors=True)
        subprocess.run(["git", "checkout", "--", "evidence", "lean/MorfuseModel/Gen"], cwd=VERIF, capture_output=True)
    return rc_all


if __name__ == "__main__":
    sys.exit(main())
