"""Shared by tools/props/c10.py and c11.py (area Archive, DESIGN.md 7.6).

* translator: src/Script/Archiver.cpp -> lean/MorfuseModel/Gen/ArchiveTable.lean (tag enum, constants,
  which `Archive*` call writes which tag and width, and the four reader switches of `Archive.Cfg`);
* generator of typed write sequences and object graphs;
* runner: the same lines through harness/archive.cpp (real Archiver, ASan) and `driver archive`.
"""
import os
import re

from vlib import common
from vlib.common import LEAN, REPO, CheckError

AREA = "archive"
GEN = os.path.join(LEAN, "MorfuseModel", "Gen", "ArchiveTable.lean")
ASAN_EXTRA = {}

PRIMS = ["i8", "i16", "i32", "i64", "u8", "u16", "u32", "u64", "chr", "size", "byte", "f32", "f64", "bool", "pos"]
WIDTH = {"i8": 1, "i16": 2, "i32": 4, "i64": 8, "u8": 1, "u16": 2, "u32": 4, "u64": 8, "chr": 1, "size": 8,
         "byte": 1, "f32": 4, "f64": 8, "bool": 1, "pos": 4}
CALL2PRIM = {"Int8": "i8", "Int16": "i16", "Int32": "i32", "Int64": "i64", "UInt8": "u8", "UInt16": "u16",
             "UInt32": "u32", "UInt64": "u64", "Char": "chr", "Size": "size", "Byte": "byte", "Float": "f32",
             "Double": "f64", "Boolean": "bool", "Position": "pos"}
CTYPE_W = {"int8_t": 1, "int16_t": 2, "int32_t": 4, "int64_t": 8, "uint8_t": 1, "uint16_t": 2, "uint32_t": 4,
           "uint64_t": 8, "char": 1, "size_t": 8, "float": 4, "double": 8, "bool": 1}
FLAGS = ["arraySizeChecked", "arrayRefiled", "checkAfterRead", "versionOr", "indexChecked", "lengthChecked", "valueStrFresh", "valueTypeLate", "dictLoadAdds"]


# --------------------------------------------------------------------------------------------
# translator

def strip_cpp_comments(src):
    src = re.sub(r"/\*.*?\*/", " ", src, flags=re.S)
    return re.sub(r"//[^\n]*", "", src)


def func_body(src, signature_re):
    m = re.search(signature_re + r"\s*(?:const\s*)?\{", src)
    if not m:
        return None
    i = m.end()
    depth = 1
    while i < len(src) and depth:
        depth += {"{": 1, "}": -1}.get(src[i], 0)
        i += 1
    return src[m.end():i - 1]


# what the model is given for an item the translator cannot read from the source: the configuration the theorems are
# stated for (every reader check present) and the tables of the last tree it could read.  The item becomes a FAILED
# obligation ("(T) … could be read"), the model stays buildable, and the differential run then shows whether the
# unreadable source still behaves like that configuration (a concrete damaged archive / write sequence if not).
DEFAULTS = {
    "tagNames": ["Null", "Byte", "Char", "Short", "UShort", "Integer", "UInteger", "Long", "ULong", "Float", "Double",
                 "Boolean", "Raw", "Object", "ObjectPointer", "SafePointer", "Position", "Size"],
    "version": 1, "nullPointer": 4294312974,
    "primTable": [("i8", "Char", 1), ("i16", "Short", 2), ("i32", "Integer", 4), ("i64", "Long", 8), ("u8", "Byte", 1),
                  ("u16", "UShort", 2), ("u32", "UInteger", 4), ("u64", "ULong", 8), ("chr", "Char", 1), ("size", "Size", 8),
                  ("byte", "Byte", 1), ("f32", "Float", 4), ("f64", "Double", 8), ("bool", "Boolean", 1), ("pos", "Position", 4)],
    "varTypeNames": ["None", "String", "Integer", "Float", "Char", "ConstString", "Listener", "Ref", "Array", "ConstArray",
                     "Container", "SafeContainer", "Pointer", "Vector"],
    "bracket": [(">", "ReadPastEndObject"), ("<", "NotReadEntireDataObject")],
}


class Unread(Exception):
    """one item of the source could not be recognised (not a failure of the machinery: a failed obligation)"""


def _read(repo, *parts):
    try:
        return strip_cpp_comments(open(os.path.join(repo, *parts)).read())
    except OSError as e:
        raise Unread("cannot read %s: %s" % ("/".join(parts), e))


def extract(repo=None):
    """what the model needs to know from the text of the sources.  Never raises for a source it cannot read:
    `d["unread"]` lists (item, why) and the item gets its DEFAULTS value / `True` for a reader switch."""
    repo = repo or REPO
    unread = []

    def item(name, fn, default):
        try:
            return fn()
        except Unread as e:
            unread.append((name, str(e)))
        except Exception as e:      # a regex group missing etc.: same meaning
            unread.append((name, "%s: %s" % (type(e).__name__, e)))
        return default

    def src():
        return _read(repo, "src", "Script", "Archiver.cpp")

    def tag_names():
        m = re.search(r"enum\s+dataType_e\s*\{(.*?)\}", src(), re.S)
        if not m:
            raise Unread("enum dataType_e not found")
        names = [x.strip() for x in m.group(1).split(",") if x.strip()]
        if any("=" in n for n in names) or names[-1] != "Max":
            raise Unread("dataType_e has explicit values / no Max sentinel: " + repr(names))
        return names[:-1]

    def version():
        m = re.search(r"ARCHIVE_VERSION\s*=\s*(\d+)\s*;", src())
        if not m:
            raise Unread("ARCHIVE_VERSION not found")
        return int(m.group(1))

    def nullp():
        m = re.search(r"ARCHIVE_NULL_POINTER\s*=\s*~\s*(\d+)u\s*;", src())
        if not m:
            raise Unread("ARCHIVE_NULL_POINTER not found")
        return (~int(m.group(1))) & 0xFFFFFFFF

    def prim_table():
        prim = {}
        for m in re.finditer(r"void\s+Archiver::Archive(\w+)\s*\(\s*(\w+)\s*&\s*(\w+)\s*\)\s*\{\s*ArchiveData\s*\(\s*dataType_e::(\w+)\s*,"
                             r"\s*&\s*(\w+)\s*,\s*sizeof\s*\(\s*(\w+)\s*\)\s*\)\s*;\s*\}", src()):
            call, ctype, arg, tag, a2, a3 = m.groups()
            if call in CALL2PRIM and arg == a2 == a3 and ctype in CTYPE_W:
                prim[CALL2PRIM[call]] = (tag, CTYPE_W[ctype])
        missing = [p for p in PRIMS if p not in prim]
        if missing:
            raise Unread("Archive* calls not recognised: " + ", ".join(missing))
        return [(p, prim[p][0], prim[p][1]) for p in PRIMS]

    def check_after_read():
        body = func_body(src(), r"void\s+Archiver::ReadDataInternal\s*\([^)]*\)")
        if body is None or "->read(" not in body.replace(" ", ""):
            raise Unread("ReadDataInternal not recognised")
        after = body.replace(" ", "").split("->read(", 1)[1]
        return bool(("throw" in after and re.search(r"fail\(\)|good\(\)|gcount\(\)", after)) or "CheckRead()" in after)

    def version_or():
        m = re.search(r"mversion\s*!=\s*ARCHIVE_VERSION\s*(\|\||&&)\s*version\s*!=\s*info\.version", src())
        if not m:
            raise Unread("version test in CreateRead not recognised")
        return m.group(1) == "||"

    def index_checked():
        # the five places of the reader that use an index taken from the archive
        guarded = 0
        for sig in [r"void\s+Archiver::ArchiveObjectPointer\s*\(\s*void\s*\*\s*&\s*\w+\s*\)",
                    r"void\s+Archiver::ArchiveObjectPosition\s*\([^)]*\)",
                    r"void\s+Archiver::ArchiveSafePointer\s*\([^)]*\)",
                    r"void\s+Archiver::ArchiveObject\s*\([^)]*\)",
                    r"Class\s*\*\s*Archiver::ReadObject\s*\(\s*\)"]:
            b = func_body(src(), sig)
            if b is None:
                raise Unread("reader function not recognised: " + sig)
            if re.search(r"CheckIndex\s*\(\s*index\s*\)", b):
                guarded += 1
        cb = func_body(src(), r"void\s+Archiver::CheckIndex\s*\([^)]*\)") or ""
        okdef = bool(re.search(r"index\s*==\s*0\s*\|\|\s*index\s*>\s*classpointerList\.NumObjects\(\)", cb)) and "throw" in cb
        return guarded == 5 and okdef

    def length_checked():
        # lengths taken from the archive are compared with what the stream still holds before allocating
        strsrc = _read(repo, "src", "Common", "str.cpp")
        sb = func_body(strsrc, r"void\s+mfuse::Archive\s*\(\s*Archiver\s*&\s*arc\s*,\s*base_str<CharT>\s*&\s*s\s*\)")
        cr = func_body(src(), r"Archiver\s+Archiver::CreateRead\s*\([^)]*\)")
        if sb is None or cr is None:
            raise Unread("Archive(Archiver&, str&) / CreateRead not recognised")
        return bool(re.search(r"length\s*>\s*arc\.GetRemainingSize\(\)", sb)) and \
            bool(re.search(r"numClasses\s*>\s*arc\.GetRemainingSize\(\)\s*/\s*8", cr))

    def archive_internal():
        svsrc = _read(repo, "src", "Script", "ScriptVariable.cpp")
        ab = func_body(svsrc, r"void\s+ScriptVariable::ArchiveInternal\s*\([^)]*\)")
        if ab is None:
            raise Unread("ScriptVariable::ArchiveInternal not recognised")
        return ab

    def value_str_fresh():
        # ScriptVariable::ArchiveInternal, String kind: how the string object of a loaded value is created
        m = re.search(r"m_data\.stringValue\s*=\s*new\s+str\s*(\(([^)]*)\))?\s*;", archive_internal())
        if not m:
            raise Unread("creation of the loaded string value not recognised")
        return (m.group(2) or "").strip() == ""

    def value_type_late():
        # the kind read from the archive goes into a local; `type` is None while the payload is read and set at the end
        ab = archive_internal()
        m = re.search(r"arc\.ArchiveEnum\(\s*(\w+)\s*\)", ab)
        if not m:
            raise Unread("ArchiveEnum of the variable kind not recognised")
        loc = m.group(1)
        return loc != "type" and bool(re.search(
            r"Loading\(\)\s*\)\s*\{?\s*type\s*=\s*variableType_e::None\s*;", ab)) and bool(
            re.search(r"switch\s*\(\s*%s\s*\)" % loc, ab)) and bool(re.search(r"\}\s*type\s*=\s*%s\s*;\s*$" % loc, ab.strip()))

    def var_type_names():
        m = re.search(r"enum\s+class\s+variableType_e\s*\{(.*?)\}", _read(repo, "include", "morfuse", "Script", "ScriptVariable.h"), re.S)
        if not m:
            raise Unread("enum variableType_e not found")
        vnames = [x.strip() for x in m.group(1).split(",") if x.strip()]
        if any("=" in n for n in vnames) or vnames[-1] != "Max":
            raise Unread("variableType_e has explicit values / no Max sentinel")
        return vnames[:-1]

    def bracket(key):
        # the size bracket behind the body of an object record: one copy in ArchiveObject (read branch; ReadObject<T>()
        # goes through it), one in the non-template ReadObject()
        def go():
            sig = {"bracketInto": r"void\s+Archiver::ArchiveObject\s*\([^)]*\)",
                   "bracketPoly": r"Class\s*\*\s*Archiver::ReadObject\s*\(\s*\)"}[key]
            b = func_body(src(), sig)
            if b is None:
                raise Unread("function not recognised")
            if key == "bracketInto":
                m = re.search(r"if\s*\(\s*archivemode\s*==\s*archiveMode_e::Read\s*\)\s*\{", b)
                if not m:
                    raise Unread("read branch of ArchiveObject not recognised")
                i, depth = m.end(), 1
                while i < len(b) and depth:
                    depth += {"{": 1, "}": -1}.get(b[i], 0)
                    i += 1
                b = b[m.end():i - 1]
            if not re.search(r"objstart\s*=\s*readStream->tellg\(\)", b) or not re.search(r"endpos\s*=\s*readStream->tellg\(\)", b):
                raise Unread("objstart/endpos not recognised (the size bracket is not the inline "
                             "`if ((endpos - objstart) OP size) throw …` chain any more)")
            after = b.split("endpos", 1)[1]
            chain = re.findall(r"if\s*\(\s*\(\s*endpos\s*-\s*objstart\s*\)\s*(>|<|!=)\s*size\s*\)\s*\{?\s*throw\s+ArchiveErrors::(\w+)\s*\(", after)
            other = len(re.findall(r"\bthrow\b", after)) - len(chain)
            if other or any(e not in ("ReadPastEndObject", "NotReadEntireDataObject") for _, e in chain):
                raise Unread("size bracket not recognised: %r" % (chain,))
            return chain
        return go

    def dict_load_adds():
        # load side of StringDictionary::ArchiveString: how the text read from the archive becomes a const_str
        ab2 = func_body(_read(repo, "src", "Common", "StringDictionary.cpp"), r"void\s+StringDictionary::ArchiveString\s*\([^)]*\)")
        if ab2 is None:
            raise Unread("StringDictionary::ArchiveString not recognised")
        m = re.search(r"constStringValue\s*=\s*(\w+)\s*\(\s*value(?:\.c_str\(\))?\s*\)\s*;", ab2)
        if not m or m.group(1) not in ("Add", "Get"):
            raise Unread("load side of StringDictionary::ArchiveString not recognised")
        return m.group(1) == "Add"

    def array_refiled():
        # ScriptArrayHolder::Archive, load side: are the entries filed again once the archive is closed (a listener key
        # is an unresolved pointer until then)?
        svsrc = _read(repo, "src", "Script", "ScriptVariable.cpp")
        b = func_body(svsrc, r"void\s+ScriptArrayHolder::Archive\s*\(\s*Archiver\s*&\s*arc\s*\)")
        if b is None or not re.search(r"arrayValue\.Archive\s*\(\s*arc\s*\)", b):
            raise Unread("ScriptArrayHolder::Archive not recognised")
        return bool(re.search(r"arc\.AfterLoad\s*\(", b)) and bool(re.search(r"arrayValue\.resize\s*\(", b))

    def array_size_checked():
        # ScriptConstArrayHolder::Archive, load side: is the archived element count bounded by the stream before the
        # elements are allocated?
        svsrc = _read(repo, "src", "Script", "ScriptVariable.cpp")
        b = func_body(svsrc, r"void\s+ScriptConstArrayHolder::Archive\s*\(\s*Archiver\s*&\s*arc\s*\)")
        if b is None or not re.search(r"arc\.ArchiveUInt32\s*\(\s*sz32\s*\)", b):
            raise Unread("ScriptConstArrayHolder::Archive not recognised")
        return bool(re.search(r"sz32\s*>\s*arc\.GetRemainingSize\(\)", b)) and "throw" in b

    flags = {
        "arraySizeChecked": item("arraySizeChecked", array_size_checked, True),
        "arrayRefiled": item("arrayRefiled", array_refiled, True),
        "checkAfterRead": item("checkAfterRead", check_after_read, True),
        "versionOr": item("versionOr", version_or, True),
        "indexChecked": item("indexChecked", index_checked, True),
        "lengthChecked": item("lengthChecked", length_checked, True),
        "valueStrFresh": item("valueStrFresh", value_str_fresh, True),
        "valueTypeLate": item("valueTypeLate", value_type_late, True),
        "dictLoadAdds": item("dictLoadAdds", dict_load_adds, True),
    }
    brackets = {k: item(k, bracket(k), DEFAULTS["bracket"]) for k in ("bracketInto", "bracketPoly")}
    return {"brackets": brackets, "varTypeNames": item("varTypeNames", var_type_names, DEFAULTS["varTypeNames"]),
            "tagNames": item("tagNames", tag_names, DEFAULTS["tagNames"]), "version": item("version", version, DEFAULTS["version"]),
            "nullPointer": item("nullPointer", nullp, DEFAULTS["nullPointer"]),
            "primTable": item("primTable", prim_table, DEFAULTS["primTable"]), "flags": flags, "unread": unread}


def gen_text(d):
    b = lambda x: "true" if x else "false"
    return (
        "/-! GENERATED by tools/vlib/archgen.py (translator) from $VERIF_REPO/src/Script/Archiver.cpp - do not edit. -/\n"
        "namespace Morfuse.Gen.Archive\n"
        "/-- `enum dataType_e` in declaration order (the tag written before each record is the position in this list) -/\n"
        "def tagNames : List String := [%s]\n"
        "/-- `ARCHIVE_VERSION` -/\ndef archiveVersion : Nat := %d\n"
        "/-- `ARCHIVE_NULL_POINTER` -/\ndef nullPointer : Nat := %d\n"
        "/-- every `Archiver::ArchiveX(T&)`: (model name, tag enumerator it passes to `ArchiveData`, `sizeof(T)`) -/\n"
        "def primTable : List (String × String × Nat) := [%s]\n"
        "/-- `ReadDataInternal` tests the stream state after `read` as well (a short read throws at once) -/\n"
        "def checkAfterRead : Bool := %s\n"
        "/-- the version test in `CreateRead` rejects when *either* field differs -/\n"
        "def versionOr : Bool := %s\n"
        "/-- indices read from the archive are range-checked against the object table before use -/\n"
        "def indexChecked : Bool := %s\n"
        "/-- lengths / counts read from the archive are compared with what the stream still holds before allocating -/\n"
        "def lengthChecked : Bool := %s\n"
        "/-- the string of a loaded String value starts empty (`new str`), not as the text of a number (`new str(4)`) -/\n"
        "def valueStrFresh : Bool := %s\n"
        "/-- a loaded variable receives its kind only after its payload has been read -/\n"
        "def valueTypeLate : Bool := %s\n"
        "/-- `enum class variableType_e` in declaration order -/\n"
        "def varTypeNames : List String := [%s]\n"
        "/-- `StringDictionary::ArchiveString`, load side: the text read becomes `Add(text)` (interned), not `Get(text)` -/\n"
        "def dictLoadAdds : Bool := %s\n"
        "/-- `ScriptConstArrayHolder::Archive` bounds the archived element count by the stream before allocating -/\n"
        "def arraySizeChecked : Bool := %s\n"
        "/-- `ScriptArrayHolder::Archive` files the entries of a loaded hash array again when the archive is closed -/\n"
        "def arrayRefiled : Bool := %s\n"
        "/-- read branch of `ArchiveObject`: the chain `if ((endpos - objstart) OP size) throw E` behind the body -/\n"
        "def bracketInto : List (String × String) := [%s]\n"
        "/-- the same chain in the non-template `Class* ReadObject()` (a separate copy in the source) -/\n"
        "def bracketPoly : List (String × String) := [%s]\n"
        "end Morfuse.Gen.Archive\n" % (
            ", ".join('"%s"' % n for n in d["tagNames"]), d["version"], d["nullPointer"],
            ", ".join('("%s", "%s", %d)' % t for t in d["primTable"]),
            b(d["flags"]["checkAfterRead"]), b(d["flags"]["versionOr"]), b(d["flags"]["indexChecked"]),
            b(d["flags"]["lengthChecked"]), b(d["flags"]["valueStrFresh"]), b(d["flags"]["valueTypeLate"]),
            ", ".join('"%s"' % n for n in d["varTypeNames"]), b(d["flags"]["dictLoadAdds"]), b(d["flags"]["arraySizeChecked"]), b(d["flags"]["arrayRefiled"]),
            ", ".join('("%s", "%s")' % t for t in d["brackets"]["bracketInto"]),
            ", ".join('("%s", "%s")' % t for t in d["brackets"]["bracketPoly"])))


def translate(ctx):
    d = extract()
    changed = common.write_if_changed(GEN, gen_text(d))
    ctx.stats["gen_archive_table_changed"] = changed
    ctx.stats["reader_switches"] = d["flags"]
    # a source the translator cannot read is "harmless rewrite or breaking change?": a failed obligation, never an
    # error of the machinery.  The model is built with the configuration the theorems need for that item and the
    # differential run goes on: if the real code no longer behaves like it, a concrete input follows.
    ctx.oblige("(T) the reader / writer configuration could be read from the source (Archiver.cpp, str.cpp, "
               "ScriptVariable.cpp/.h, StringDictionary.cpp)", not d["unread"],
               "; ".join("%s: %s" % u for u in d["unread"]) +
               " - the model was built with the expected configuration for these items; see the differential run")
    ctx.stats["translator_unread"] = [u[0] for u in d["unread"]]
    return d


def cfg_obligations(ctx, flags, need, notes):
    """the theorems of a Props file are stated for a reader configuration; the reader in the tree must be the
    one they need.  Checked by Lean on the regenerated Gen/ArchiveTable.lean."""
    path = os.path.join(ctx.tmp, "Cfg.lean")
    names = list(need)
    with open(path, "w") as f:
        f.write("import MorfuseModel.Archive.Model\n")
        for n in names:
            f.write("example : Morfuse.Gen.Archive.%s = true := by decide\n" % n)
    with common.LakeLock():
        p = common.sh(["lake", "env", "lean", path], cwd=LEAN, timeout=600)
    out = p.stdout + p.stderr
    allok = True
    for i, n in enumerate(names):
        bad = ("Cfg.lean:%d:" % (i + 2)) in out
        if bad != (not flags[n]):
            ctx.oblige("(T) translator and Lean agree on switch " + n, False, out[-1500:])
        ctx.oblige("reader switch %s: %s" % (n, need[n]), not bad,
                   "the code in $VERIF_REPO does not do this; see " + notes, reported=True)
        allok = allok and not bad
    return allok


# --------------------------------------------------------------------------------------------
# items:  ('p', prim, v) ('r', bytes) ('s', bytes) ('op', l) ('sp', l) ('pos', l) ('obj', l, cls, [items])
#         'objt' / 'objp' instead of 'obj': the record is read back with ReadObject<T>() / the polymorphic ReadObject()
OBJ = ("obj", "objt", "objp")

def hx(b):
    return b.hex() if b else "-"


# values: ('n',) ('i', n) ('f', n) ('c', n) ('s', bytes) ('k0',) ('k', bytes) ('vec', bytes12) ('l', lbl)
#         ('ca', holder, refcount, [(self, value)...]) ('car', holder);   item ('v', self, value)

LINKS = ("l", "ref", "con", "scon", "car", "aref", "pref")


def vtoks(v, selfs=True):
    k = v[0]
    if k in ("n", "k0"):
        return [k]
    if k in ("i", "f", "c") + LINKS:
        return [k, str(v[1])]
    if k == "ptr":
        return ["ptr", str(v[1]), str(len(v[2]))] + [str(x) for x in v[2]]
    if k == "arr":
        # ('arr', holder, refcount, tl, th, tli, perm, [(kself, key, vself, value)...]) entries in insertion order
        perm = v[6] if len(v[6]) == len(v[7]) else [0] * len(v[7])      # not yet known: filled in by `canon`
        out = ["arr"] + [str(x) for x in v[1:6]] + [str(len(v[7]))] + ([str(x) for x in perm] if selfs else [])
        for ks, kv, vs, vv in v[7]:
            out += ([str(ks)] if selfs else []) + vtoks(kv, selfs) + ([str(vs)] if selfs else []) + vtoks(vv, selfs)
        return out
    if k in ("s", "k", "vec"):
        return [k, hx(v[1])]
    if k == "ca":
        out = ["ca", str(v[1]), str(v[2]), str(len(v[3]))]
        for s_, e in v[3]:
            out += ([str(s_)] if selfs else []) + vtoks(e, selfs)
        return out
    raise ValueError(k)


def parse_value(t, i, selfs):
    k = t[i]
    if k in ("n", "k0"):
        return (k,), i + 1
    if k in ("i", "f", "c") + LINKS:
        return (k, int(t[i + 1])), i + 2
    if k == "ptr":
        n = int(t[i + 2])
        return ("ptr", int(t[i + 1]), [int(x) for x in t[i + 3:i + 3 + n]]), i + 3 + n
    if k == "arr":
        n = int(t[i + 6])
        j = i + 7
        perm = []
        if selfs:
            perm = [int(x) for x in t[j:j + n]]
            j += n
        es = []
        for _ in range(n):
            ks = vs = 0
            if selfs:
                ks = int(t[j]); j += 1
            kv, j = parse_value(t, j, selfs)
            if selfs:
                vs = int(t[j]); j += 1
            vv, j = parse_value(t, j, selfs)
            es.append((ks, kv, vs, vv))
        return ("arr",) + tuple(int(x) for x in t[i + 1:i + 6]) + (perm, es), j
    if k in ("s", "k", "vec"):
        return (k, b"" if t[i + 1] == "-" else bytes.fromhex(t[i + 1])), i + 2
    if k == "ca":
        n = int(t[i + 3])
        j = i + 4
        es = []
        for _ in range(n):
            s_ = 0
            if selfs:
                s_ = int(t[j])
                j += 1
            e, j = parse_value(t, j, selfs)
            es.append((s_, e))
        return ("ca", int(t[i + 1]), int(t[i + 2]), es), j
    raise ValueError("bad value token " + k)


def strip_selfs(x):
    """forget the addresses of element variables (read-backs do not print them)"""
    if isinstance(x, list):
        out = []
        for y in x:
            if y[0] == "vl":
                # a read-back shows a variable list as the calls it is: the header numbers, then the named variables in
                # the order the archive holds them, each looked up by name in the loading dictionary
                out += [("p", "u32", y[1]), ("p", "u32", y[2]), ("p", "u32", len(y[5])), ("p", "u16", y[3])]
                out += [("nv", y[5][i][0], y[5][i][1], strip_selfs(y[5][i][2])) for i in y[4] if i < len(y[5])]
            else:
                out.append(strip_selfs(y))
        return out
    if x[0] == "v":
        return ("v", x[1], strip_selfs(x[2]))
    if x[0] == "nv":
        return ("nv", x[1], x[2], strip_selfs(x[3]))
    if x[0] == "ca":
        return ("ca", x[1], x[2], [(0, strip_selfs(e)) for _, e in x[3]])
    if x[0] == "arr":
        # as a read-back shows it: no addresses, no walk order, entries sorted by the text of the key
        es = sorted([(0, strip_selfs(kv), 0, strip_selfs(vv)) for _, kv, _, vv in x[7]], key=lambda e: " ".join(vtoks(e[1], False)))
        return ("arr",) + tuple(x[1:6]) + ([], es)
    if x[0] == "ptr":
        return ("ptr", x[1], list(x[2]))
    if x[0] in OBJ:
        return (x[0], x[1], x[2], strip_selfs(x[3]))
    return x


def toks(items):
    out = []
    for it in items:
        k = it[0]
        if k == "p":
            out += ["p", it[1], str(it[2])]
        elif k in ("r", "s"):
            out += [k, hx(it[1])]
        elif k in ("op", "sp", "pos"):
            out += [k, str(it[1])]
        elif k in OBJ:
            out += [k, str(it[1]), hx(it[2]), str(len(it[3]))] + toks(it[3])
        elif k == "v":
            out += ["v", str(it[1])] + vtoks(it[2])
        elif k == "nv":
            # ('nv', self, name | None, value): a named variable, ScriptVariable::Archive
            out += ["nv", str(it[1]), hx(it[2]) if it[2] is not None else "-"] + vtoks(it[3])
        elif k == "vl":
            # ('vl', tl, th, tli, perm, [(self, name, value)...]): ScriptVariableList::Archive, entries in insertion order
            perm = it[4] if len(it[4]) == len(it[5]) else [0] * len(it[5])
            out += ["vl", str(it[1]), str(it[2]), str(it[3]), str(len(it[5]))] + [str(x) for x in perm]
            for s_, name, val in it[5]:
                out += [str(s_), hx(name)] + vtoks(val)
    return out


def parse_items(t, selfs=True):
    """inverse of toks (selfs=False: the read-back of either side, which omits element addresses)"""
    def one(i):
        k = t[i]
        if k == "v":
            v, j = parse_value(t, i + 2, selfs)
            return ("v", int(t[i + 1]), v), j
        if k == "nv":
            v, j = parse_value(t, i + 3, selfs)
            return ("nv", int(t[i + 1]), None if t[i + 2] == "-" else (b"" if t[i + 2] == "-" else bytes.fromhex(t[i + 2])), v), j
        if k == "vl":
            n = int(t[i + 4])
            perm = [int(x) for x in t[i + 5:i + 5 + n]]
            j = i + 5 + n
            es = []
            for _ in range(n):
                s_, name = int(t[j]), bytes.fromhex(t[j + 1])
                v, j = parse_value(t, j + 2, selfs)
                es.append((s_, name, v))
            return ("vl", int(t[i + 1]), int(t[i + 2]), int(t[i + 3]), perm, es), j
        if k == "p":
            return ("p", t[i + 1], int(t[i + 2])), i + 3
        if k in ("r", "s"):
            return (k, b"" if t[i + 1] == "-" else bytes.fromhex(t[i + 1])), i + 2
        if k in ("op", "sp", "pos"):
            return (k, int(t[i + 1])), i + 2
        if k in OBJ:
            n = int(t[i + 3])
            body, j = [], i + 4
            for _ in range(n):
                x, j = one(j)
                body.append(x)
            return (k, int(t[i + 1]), b"" if t[i + 2] == "-" else bytes.fromhex(t[i + 2]), body), j
        raise ValueError("bad item token " + k)
    out, i = [], 0
    while i < len(t):
        x, i = one(i)
        out.append(x)
    return out


def count_items(items):
    return sum(1 + (count_items(it[3]) if it[0] in OBJ else 0) for it in items)


def vregistered(v, acc):
    """variables register themselves (ArchiveObjectPosition(this)), holders and cells too"""
    if v[0] == "ca":
        acc.add(v[1])
        for s_, e in v[3]:
            acc.add(s_)
            vregistered(e, acc)
    elif v[0] == "arr":
        acc.add(v[1])
        for ks, kv, vs, vv in v[7]:
            acc.update((ks, vs))
            vregistered(kv, acc)
            vregistered(vv, acc)
    elif v[0] == "ptr":
        acc.add(v[1])


def registered(items, acc=None):
    acc = set() if acc is None else acc
    for it in items:
        if it[0] == "v":
            acc.add(it[1])
            vregistered(it[2], acc)
        if it[0] == "nv":
            acc.add(it[1])
            vregistered(it[3], acc)
        if it[0] == "vl":
            for s_, _, val in it[5]:
                acc.add(s_)
                vregistered(val, acc)
        if it[0] == "pos":
            acc.add(it[1])
        elif it[0] in OBJ:
            acc.add(it[1])
            registered(it[3], acc)
    return acc


def vtargets(v, acc):
    if v[0] in LINKS and v[1]:
        acc.add(v[1])
    elif v[0] == "ca":
        for _, e in v[3]:
            vtargets(e, acc)
    elif v[0] == "arr":
        for _, kv, _, vv in v[7]:
            vtargets(kv, acc)
            vtargets(vv, acc)
    elif v[0] == "ptr":
        acc.update(x for x in v[2] if x)


def targets(items, acc=None):
    acc = set() if acc is None else acc
    for it in items:
        if it[0] in ("op", "sp") and it[1]:
            acc.add(it[1])
        elif it[0] in OBJ:
            targets(it[3], acc)
        elif it[0] == "v":
            vtargets(it[2], acc)
        elif it[0] == "nv":
            vtargets(it[3], acc)
        elif it[0] == "vl":
            for _, _, val in it[5]:
                vtargets(val, acc)
    return acc


def well_formed(items):
    """the hypothesis of the round-trip theorem: every pointer target is registered somewhere in the
    sequence (by ArchiveObject or ArchiveObjectPosition)"""
    return targets(items) <= registered(items)


BOUND = {1: [0, 1, 0x7f, 0x80, 0xff], 2: [0, 1, 0x7fff, 0x8000, 0xffff, 0x00ff, 0xff00],
         4: [0, 1, 0x7fffffff, 0x80000000, 0xffffffff, 0xffff0000, 4294312974, 4294843839],
         8: [0, 1, 2 ** 63 - 1, 2 ** 63, 2 ** 64 - 1, 2 ** 32, 2 ** 32 - 1]}
F32 = [0, 0x80000000, 0x3f800000, 0x7f800000, 0xff800000, 0x7fc00000, 0x7fa00001, 0xffc12345, 1, 0x007fffff]
F64 = [0, 2 ** 63, 0x3ff0000000000000, 0x7ff0000000000000, 0xfff0000000000000, 0x7ff8000000000000,
       0x7ff0000000000001, 1]


def gen_prim(rng, prims=None):
    p = rng.choice(prims or PRIMS)
    w = WIDTH[p]
    if p == "bool":
        v = rng.randint(0, 1)
    elif p == "f32":
        v = rng.choice(F32) if rng.random() < 0.6 else rng.getrandbits(32)
    elif p == "f64":
        v = rng.choice(F64) if rng.random() < 0.6 else rng.getrandbits(64)
    else:
        v = rng.choice(BOUND[w]) if rng.random() < 0.55 else rng.getrandbits(8 * w)
    return ("p", p, v)


def gen_bytes(rng, maxlen):
    r = rng.random()
    if r < 0.15:
        n = 0
    elif r < 0.55:
        n = rng.randint(1, 8)
    elif r < 0.9:
        n = rng.randint(9, 64)
    else:
        n = rng.randint(min(65, maxlen), maxlen)
    kind = rng.random()
    if kind < 0.4:
        return bytes(rng.choice(b"abcdefghijklmnopqrstuvwxyzABCDEFGHIJKLMNOPQRSTUVWXYZ0123456789 _") for _ in range(n))
    if kind < 0.5:
        return bytes(n)                      # all NUL
    return bytes(rng.getrandbits(8) for _ in range(n))


CLASSES = [b"Listener", b"VNode", b"VNodf"]
TEXT = b"abcdefghijklmnopqrstuvwxyzABCDEFGHIJKLMNOPQRSTUVWXYZ0123456789_"


class VGen:
    """script values: every variable and holder gets its own address label; a holder may be shared by
    later variables (`car`); reference counts are filled in once the whole sequence is known"""

    def __init__(self, rng, ptr_targets):
        self.rng = rng
        self.next = 100000
        self.holders = []
        self.aholders = []
        self.refs = {}
        self.ptr_targets = ptr_targets
        self.allvars = []          # labels a Ref may name: top-level variables and const-array elements
        self.cells = {}            # pointer cell -> the top-level variables that hold it, in item order

    def scalar(self):
        """a value that allocates no holder (what a hash array holds)"""
        rng = self.rng
        r = rng.random()
        if r < 0.3:
            return ["i", rng.choice(BOUND[8]) if rng.random() < 0.5 else rng.getrandbits(64)]
        if r < 0.45:
            return ["s", gen_bytes(rng, 20)]
        if r < 0.55:
            return ["k", bytes(rng.choice(TEXT) for _ in range(rng.randint(1, 8)))]
        if r < 0.65:
            return ["l", self.ptr_targets()]
        if r < 0.75:
            return ["ref", None]
        if r < 0.8:
            return ["n"]
        if r < 0.88 and self.holders:
            h = rng.choice(self.holders)
            self.refs[h] = self.refs.get(h, 0) + 1
            return ["car", h]
        if r < 0.94 and self.aholders:
            h = rng.choice(self.aholders)
            self.refs[h] = self.refs.get(h, 0) + 1
            return ["aref", h]
        return ["f", rng.getrandbits(32)]

    def array(self):
        rng = self.rng
        h = self.fresh()
        n = rng.choice([0, 1, 1, 2, 3, 5, 8, 13, 30])
        keys, es = set(), []
        if n == 1 and rng.random() < 0.3:
            cand = [["l", self.ptr_targets()]]      # a listener key hashes by address: only alone in its table
        else:
            cand = []
            for _ in range(n):
                r = rng.random()
                if r < 0.5:
                    k = ["i", rng.choice([0, 1, 2, 3, 7, 2 ** 32, 2 ** 63, 2 ** 64 - 1]) if rng.random() < 0.4 else rng.getrandbits(rng.choice([4, 16, 64]))]
                elif r < 0.8:
                    k = ["s", bytes(rng.choice(TEXT) for _ in range(rng.randint(0, 6)))]
                else:
                    k = ["k", bytes(rng.choice(TEXT) for _ in range(rng.randint(1, 6)))]
                cand.append(k)
        for k in cand:
            # a String and a ConstString key of the same text are the same key for the table, and so is an Integer whose
            # decimal text it is (`EqualTo<ScriptVariable>` compares across kinds, `Hash` does not: such a pair is one
            # entry or two depending on the buckets - not an archive matter, not generated)
            if k[0] == "i":
                idents = {str(k[1]).encode(), str(k[1] - 2 ** 64 if k[1] >= 2 ** 63 else k[1]).encode()}
            elif k[0] in ("s", "k"):
                idents = {k[1]}
            else:
                idents = {(k[0], k[1])}
            if idents & keys:
                continue
            keys |= idents
            es.append((self.fresh(), k, self.fresh(), self.scalar()))
        v = ["arr", h, None, 0, 0, 0, [], es]
        self.aholders.append(h)
        return v

    def fresh(self):
        self.next += 1
        return self.next

    def value(self, depth=0):
        rng = self.rng
        r = rng.random()
        if r < 0.08:
            return ["n"]
        if r < 0.22:
            return ["i", rng.choice(BOUND[8]) if rng.random() < 0.5 else rng.getrandbits(64)]
        if r < 0.32:
            return ["f", rng.choice(F32) if rng.random() < 0.6 else rng.getrandbits(32)]
        if r < 0.38:
            return ["c", rng.choice(BOUND[1]) if rng.random() < 0.5 else rng.getrandbits(8)]
        if r < 0.52:
            return ["s", gen_bytes(rng, 40)]
        if r < 0.56:
            return ["k0"]
        if r < 0.64:
            return ["k", bytes(rng.choice(TEXT) for _ in range(rng.randint(1, 12)))]
        if r < 0.68:
            return ["vec", bytes(rng.getrandbits(8) for _ in range(12))]
        if r < 0.74:
            t = self.ptr_targets()
            return ["l", t]
        if r < 0.78:
            return ["ref", None]
        if r < 0.80:
            return [rng.choice(["con", "scon"]), self.ptr_targets()]
        if r < 0.85 and self.holders:
            h = rng.choice(self.holders)
            self.refs[h] = self.refs.get(h, 0) + 1
            return ["car", h]
        if r < 0.88 and self.aholders:
            h = rng.choice(self.aholders)
            self.refs[h] = self.refs.get(h, 0) + 1
            return ["aref", h]
        if r < 0.93:
            return self.array()
        if depth == 0 and r < 0.96:
            # a pointer cell, shared with the other top-level variables of its group (resolved in freeze)
            g = rng.randint(1, 3)
            return ["pcell", g]
        if depth < 3:
            h = self.fresh()
            n = rng.choice([0, 1, 2, 3, 5])
            es = []
            v = ["ca", h, None, es]
            for _ in range(n):
                s_ = self.fresh()
                self.allvars.append(s_)
                es.append((s_, self.value(depth + 1)))
            self.holders.append(h)      # shareable only once completely archived (pre-order: after its elements)
            return v
        return ["i", 7]

    def freeze(self, v):
        if v[0] == "ca":
            return ("ca", v[1], self.refs.get(v[1], 0), [(s_, self.freeze(e)) for s_, e in v[3]])
        if v[0] == "arr":
            return ("arr", v[1], self.refs.get(v[1], 0), 0, 0, 0, [],
                    [(ks, self.freeze(kv), vs, self.freeze(vv)) for ks, kv, vs, vv in v[7]])
        if v[0] == "ref":
            # any archived variable: earlier, later, itself, an element of a const array; rarely null
            return ("ref", self.rng.choice(self.allvars) if self.allvars and self.rng.random() < 0.95 else 0)
        return tuple(v)


def gen_case(rng, nitems, nobj=None, maxstr=300, dangling=0.04, values=0.2, modes=0.6, poly_scripted=True, named=False):
    """a typed write sequence over primitives, strings, raw blocks and an object graph of `nobj`
    listeners whose plain / safe pointers are written before and after (and inside) their targets.
    poly_scripted=False (C11): the polymorphic ReadObject() is used for Listener records only.  The model lets the
    object that ReadObject() creates read the body the host scripted, whatever class the (possibly damaged) record
    names; with the harness's classes that is true when the host expects a table-less Listener (a created VNode/VNodf
    runs the host's script `p u8`, a created Listener reads its flag byte) but not when it expects a scripted body and a
    damaged stream makes ReadObject() create a real Listener"""
    nobj = rng.randint(0, 30) if nobj is None else nobj
    labels = list(range(1, nobj + 1))
    cls = {l: rng.choice(CLASSES) for l in labels}
    extra = [nobj + 1 + i for i in range(rng.randint(0, 3))]      # registered by position only
    ghost = [nobj + 10 + i for i in range(2)]                     # never registered
    pending = labels[:]
    rng.shuffle(pending)
    pend_extra = extra[:]
    budget = [nitems]

    def ptr():
        r = rng.random()
        if r < 0.12 or not (labels or extra):
            tgt = 0
        elif r < 0.12 + dangling:
            tgt = rng.choice(ghost)
        else:
            tgt = rng.choice(labels + extra)
        return ("sp" if rng.random() < 0.5 else "op", tgt)

    vg = VGen(rng, lambda: ptr()[1])

    def named_items():
        """a named variable, or a ScriptVariableList of 0..20 named variables (distinct names, some of them predefined
        strings of every dictionary)"""
        def val():
            v = vg.scalar()
            return v
        if rng.random() < 0.4:
            s_ = vg.fresh()
            vg.allvars.append(s_)
            name = None if rng.random() < 0.15 else bytes(rng.choice(TEXT) for _ in range(rng.randint(1, 10)))
            return ["nv", s_, name, val()]
        names, es = set(), []
        for _ in range(rng.choice([0, 1, 2, 3, 5, 8, 20])):
            name = rng.choice([b"self", b"local", b"level"]) if rng.random() < 0.1 else bytes(rng.choice(TEXT) for _ in range(rng.randint(1, 8)))
            if name in names:
                continue
            names.add(name)
            s_ = vg.fresh()
            vg.allvars.append(s_)
            es.append((s_, name, val()))
        return ["vl", 0, 0, 0, [], es]

    def plain_item(top=False):
        r = rng.random()
        if top and named and r < values and rng.random() < 0.25:
            return named_items()
        if top and r < values:      # the model has script values at the top level of a sequence only
            s_ = vg.fresh()
            vg.allvars.append(s_)
            val = vg.value()
            if val[0] == "pcell":
                vg.cells.setdefault(val[1], []).append(s_)
            return ["v", s_, val]
        if r < 0.45:
            return gen_prim(rng)
        if r < 0.6:
            return ("s", gen_bytes(rng, maxstr))
        if r < 0.68:
            return ("r", gen_bytes(rng, 64))
        return ptr()

    def obj(l, depth):
        kind = rng.choice(OBJ) if rng.random() < modes else "obj"
        if kind == "objp" and not poly_scripted and cls[l] != b"Listener":
            kind = "objt"
        if cls[l] == b"Listener":
            return (kind, l, cls[l], [("p", "u8", 0)])
        body = []
        n = rng.choice([0, 0, 1, 2, 3, 5, 8])
        for _ in range(n):
            if budget[0] <= 0:
                break
            budget[0] -= 1
            r = rng.random()
            if r < 0.2:
                body.append((rng.choice(["op", "sp"]), l))           # self reference
            elif r < 0.35 and pending and depth < 4 and (poly_scripted or cls[pending[-1]] != b"Listener"):
                # nested ArchiveObject (C11: not of a real Listener - the flag byte of Listener::Archive is followed by
                # the model for top-level records only, the record reader below the value reader cannot call it)
                body.append(obj(pending.pop(), depth + 1))
            else:
                body.append(plain_item())
        return (kind, l, cls[l], body)

    items = []
    while budget[0] > 0:
        budget[0] -= 1
        r = rng.random()
        if pending and r < 0.25:
            items.append(obj(pending.pop(), 0))
        elif pend_extra and r < 0.3:
            items.append(("pos", pend_extra.pop()))
        else:
            items.append(plain_item(True))
    while pending:
        items.append(obj(pending.pop(), 0))
    while pend_extra:
        items.append(("pos", pend_extra.pop()))

    cell_label = {g: vg.fresh() for g in vg.cells}
    cell_done = set()

    def freeze(its):
        out = []
        for it in its:
            if it[0] == "v" and it[2][0] == "pcell":
                g = it[2][1]
                if g in cell_done:
                    out.append(("v", it[1], ("pref", cell_label[g])))
                else:
                    cell_done.add(g)
                    out.append(("v", it[1], ("ptr", cell_label[g], list(vg.cells[g]))))
            elif it[0] == "v":
                out.append(("v", it[1], vg.freeze(it[2])))
            elif it[0] == "nv":
                out.append(("nv", it[1], it[2], vg.freeze(it[3])))
            elif it[0] == "vl":
                out.append(("vl", 0, 0, 0, [], [(s_, name, vg.freeze(val)) for s_, name, val in it[5]]))
            elif it[0] in OBJ:
                out.append((it[0], it[1], it[2], freeze(it[3])))
            else:
                out.append(it)
        return out
    return freeze(items)


def _arrays_of_value(v, acc):
    if v[0] == "arr":
        for _, kv, _, vv in v[7]:
            _arrays_of_value(kv, acc)
            _arrays_of_value(vv, acc)
        acc.append(v)
    elif v[0] == "ca":
        for _, e in v[3]:
            _arrays_of_value(e, acc)


def arrays_of(items, acc=None):
    """hash arrays in the order the harness builds them"""
    acc = [] if acc is None else acc
    for it in items:
        if it[0] == "v":
            _arrays_of_value(it[2], acc)
        elif it[0] == "nv":
            _arrays_of_value(it[3], acc)
        elif it[0] == "vl":
            for _, _, val in it[5]:
                _arrays_of_value(val, acc)
            acc.append(it)
        elif it[0] in OBJ:
            arrays_of(it[3], acc)
    return acc


def _patch_value(v, fix):
    if v[0] == "arr":
        es = [(ks, _patch_value(kv, fix), vs, _patch_value(vv, fix)) for ks, kv, vs, vv in v[7]]
        tl, th, tli, perm = fix.pop(0)
        return ("arr", v[1], v[2], tl, th, tli, perm, es)
    if v[0] == "ca":
        return ("ca", v[1], v[2], [(s_, _patch_value(e, fix)) for s_, e in v[3]])
    return v


def _patch_items(items, fix):
    out = []
    for it in items:
        if it[0] == "v":
            out.append(("v", it[1], _patch_value(it[2], fix)))
        elif it[0] == "nv":
            out.append(("nv", it[1], it[2], _patch_value(it[3], fix)))
        elif it[0] == "vl":
            es = [(s_, name, _patch_value(val, fix)) for s_, name, val in it[5]]
            tl, th, tli, perm = fix.pop(0)
            out.append(("vl", tl, th, tli, perm, es))
        elif it[0] in OBJ:
            out.append((it[0], it[1], it[2], _patch_items(it[3], fix)))
        else:
            out.append(it)
    return out


def canon(exe, reg, cases):
    """cases: list of (info, items).  The header numbers of a hash array and the order in which the writer walks it are
    facts of the real table (hash function, growth policy: C17/C18's business): one extra pass of the harness (`canon`
    lines) reports them and they are written into the line both sides then get; the harness re-checks them when it
    builds the arrays for the `arc` line (`canon-mismatch` otherwise)."""
    idx = [i for i, (info, items) in enumerate(cases) if arrays_of(items)]
    if not idx:
        return cases
    lines = [reg] + ["canon " + arc_line(*cases[i]).split(" ", 1)[1] for i in idx]
    out, crash, info_ = run_impl(exe, lines, timeout=300)
    if crash is not None or len(out) != len(lines):
        raise CheckError("harness canon pass failed: %s" % crash)
    res = list(cases)
    for i, ans in zip(idx, out[1:]):
        fix = []
        for part in ans.split(" ; "):
            t = [int(x) for x in part.split(" ")]
            fix.append((t[0], t[1], t[2], t[3:]))
        if len(fix) != len(arrays_of(cases[i][1])):
            raise CheckError("harness canon pass: %d arrays announced for %d" % (len(fix), len(arrays_of(cases[i][1]))))
        res[i] = (cases[i][0], _patch_items(cases[i][1], fix))
    return res


def gen_info(rng):
    r = rng.random()
    if r < 0.5:
        return (1, b"MFUS", b"Morfuse Archive")
    hdr = bytes(rng.choice(b"ABCDEFGHIJKLMNOPQRSTUVWXYZ") for _ in range(rng.choice([1, 4, 4, 8])))
    name = bytes(rng.choice(b"abcdefghijklmnopqrstuvwxyz ") for _ in range(rng.choice([0, 1, 12, 40])))
    return (rng.choice([0, 1, 2, 255, 256, 65535]), hdr, name)


def arc_line(info, items):
    return " ".join(["arc", str(info[0]), hx(info[1]), hx(info[2])] + toks(items))


# --------------------------------------------------------------------------------------------
# runner

def build(ctx):
    return common.build_full(ctx, "h_archive", ["archive.cpp"])


def class_registry(ctx, exe):
    p = common.sh([exe, "--classes"], env=common.ASAN_ENV, timeout=60)
    if p.returncode != 0 or not p.stdout.strip():
        raise CheckError("harness --classes failed: " + p.stderr[-2000:])
    return "classes " + p.stdout.strip()


def run_impl(exe, lines, timeout=120):
    return common.run_lines(exe, [], lines, timeout=timeout, env=ASAN_EXTRA)


def run_model(lines):
    return common.run_model(AREA, lines)


class ADiff(common.Diff):
    """Diff whose answer histogram keys on the outcome (the archive bytes are not a kind) and whose line
    monitor sees the input line next to the implementation's answer (prop.monitor(line, out))"""

    def __init__(self, *a, **k):
        super().__init__(*a, **k)
        self._cur, self._i = [], 0
        if hasattr(self.prop, "monitor"):
            self.line_monitor = self._mon

    def both(self, lines):
        r = super().both(lines)
        self._cur, self._i = lines, 0
        return r

    def report(self, name, case):
        """shrink the write sequence itself (delta debugging over the top-level calls, same failure signature)"""
        if len(case) == 2 and case[1].startswith("arc "):
            t = case[1].split(" ")
            head, items = t[:4], parse_items(t[4:])
            impl0, crash0, _, model0 = self.both(case)
            sig0 = crash0 if crash0 else self.prop.classify(case, impl0, crash0, model0)[2]

            def fails(sub):
                # the walk order of a hash table / variable list depends on the rest of the line (dictionary ids)
                try:
                    info_ = (int(head[1]), b"" if head[2] == "-" else bytes.fromhex(head[2]), b"" if head[3] == "-" else bytes.fromhex(head[3]))
                    sub = canon(self.exe, case[0], [(info_, sub)])[0][1]
                except Exception:
                    return False
                lines = [case[0], " ".join(head + toks(sub))]
                impl, crash, info, model = self.both(lines)
                if crash is None and common.first_diff(impl, model) is None and not any(
                        self.prop.monitor(l, o) for l, o in zip(lines, impl)):
                    return False
                return (crash if crash else self.prop.classify(lines, impl, crash, model)[2]) == sig0
            if len(items) > 1:
                saved, self.base_timeout = self.base_timeout, 10
                try:
                    items = common.ddmin(items, fails, max_tests=80)
                finally:
                    self.base_timeout = saved
            try:
                info_ = (int(head[1]), b"" if head[2] == "-" else bytes.fromhex(head[2]), b"" if head[3] == "-" else bytes.fromhex(head[3]))
                items = canon(self.exe, case[0], [(info_, items)])[0][1]
            except Exception:
                pass
            case = [case[0], " ".join(head + toks(items))]
        return super().report(name, case)

    def _mon(self, out):
        i = self._i
        self._i += 1
        return i < len(self._cur) and self.prop.monitor(self._cur[i], out) is not None

    def account(self, case, model_out):
        import hashlib
        self.cases += 1
        self.lines += len(case)
        for l in case:
            k = l.split(" ", 1)[0]
            self.hist[k] = self.hist.get(k, 0) + 1
        for o in model_out:
            if " | " in o:
                o = o.split(" | ", 1)[1]
            k = " ".join(o.split(" ")[:2]) if o.startswith("err") else o.split(" ", 1)[0]
            self.outkinds[k] = self.outkinds.get(k, 0) + 1
        self.distinct.add(hashlib.sha1("\n".join(case[1:]).encode()).hexdigest())


def expand_rle(s):
    """`a-b:x c-d:y` -> [x]*(b-a+1) + ..."""
    out = []
    if s == "-":
        return out
    for part in s.split(" "):
        rng_, val = part.split(":", 1)
        a, b = rng_.split("-")
        out += [val] * (int(b) - int(a) + 1)
    return out
