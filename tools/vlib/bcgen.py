"""Program generator for C02 (bytecode well-formedness / stack discipline).

Generates whole scripts over the full statement / expression grammar of src/Parser/yyParser.yy:
labels with parameter lists (MARK/STORE_PARAM/RESTORE brackets), assignments to every scope, fields of
fields, array elements (nested), compound assignment, ++/--, commands with 0..8 parameters (EXEC_CMDn and
the COUNT1 forms), method commands and method expressions on listeners, thread / waitthread calls with
parameters (statement and expression forms), if / if-else, while, for, do-while, break, continue, switch
with integer, negative, string and named case labels, fall-through and default, labels + goto, try / catch
/ throw (nested, with several catch labels), end with and without value, wait / waitframe, unary - ~ !,
.size, $targetname, vectors, const arrays (a::b::c), makeArray blocks, && and ||, every binary operator,
integer literals of every encoded width, floats, strings, NIL, NULL.

A share of the statements raise script errors on purpose (the dynamic clause of C02 is about them): NIL /
NULL receivers, fields of non-listeners, bad casts, division by zero, missing labels, read-only built-in
variables, `self` / `owner` of a thread without self, uncaught throws, `error`.

A program is a tree: `Node(text)` for a one-line statement, `Node(head, kids, tail, [else kids])` for a
block.  `render` gives the source, `shrink_candidates` the programs with one subtree removed / hoisted
(used by the delta debugger in tools/props/c02.py).
"""

SCOPES = ["local", "local", "local", "group", "level", "game", "parm"]
NAMES = ["a", "b", "c", "i", "j", "k", "n", "s", "t", "arr", "m", "v", "obj", "ent"]
BINOPS = ["+", "-", "*", "/", "%", "&", "|", "^", "==", "!=", "<", ">", "<=", ">=", "<<", ">>"]
COMPOUND = ["+=", "-=", "*=", "/=", "%=", "&=", "|=", "^=", "<<=", ">>="]
INTS = [0, 1, 2, 3, 5, 7, 100, 255, 256, 257, 1000, 65535, 65536, 70000, 16777215, 16777216, 16777217,
        2147483647, 2147483648, 4294967295, 4294967296, 4294967297, 1099511627776, 9223372036854775807]
STRS = ["a", "b", "hello", "x y", "", "1", "12", "default", "end"]
RET_CMDS = [("int", 1), ("float", 1), ("string", 1), ("bool", 1), ("abs", 1), ("randomint", 1), ("isdefined", 1),
            ("typeof", 1), ("isarray", 1), ("vector_length", 1), ("vector_add", 2), ("vector_dot", 2), ("chartoint", 1),
            ("sqrt", 1), ("pow", 2), ("floor", 1), ("vector_scale", 2), ("strncpy", 2)]
PLAIN_CMDS = ["println", "print", "mprintln", "assert", "flag_init", "flag_set", "flag_clear", "cache", "timeout"]


class Node:
    __slots__ = ("head", "kids", "tail", "els", "kind")

    def __init__(self, head, kids=None, tail=None, els=None, kind="stmt"):
        self.head, self.kids, self.tail, self.els, self.kind = head, kids, tail, els, kind

    def lines(self, ind=0):
        pad = "  " * ind
        if self.kids is None:
            return [pad + l for l in self.head.split("\n")]
        out = [pad + self.head] if self.head else []
        for k in self.kids:
            out += k.lines(ind + 1)
        if self.els is not None:
            out.append(pad + ("} catch {" if self.kind == "try" else "} else {"))
            for k in self.els:
                out += k.lines(ind + 1)
        if self.tail:
            out.append(pad + self.tail)
        return out


def render(nodes):
    out = []
    for n in nodes:
        out += n.lines(0)
    return "\n".join(out) + "\n"


def count_nodes(nodes):
    c = 0
    for n in nodes:
        c += 1
        if n.kids is not None:
            c += count_nodes(n.kids)
        if n.els is not None:
            c += count_nodes(n.els)
    return c


def _clone_without(nodes, path, hoist):
    """copy of the forest with the node at `path` removed (or replaced by its children)"""
    i = path[0]
    res = []
    for j, n in enumerate(nodes):
        if j != i:
            res.append(n)
            continue
        if len(path) == 1:
            if hoist and n.kids is not None:
                res += n.kids + (n.els or [])
            continue
        which, rest = path[1], path[2:]
        if which == "k":
            res.append(Node(n.head, _clone_without(n.kids, rest, hoist), n.tail, n.els, n.kind))
        else:
            res.append(Node(n.head, n.kids, n.tail, _clone_without(n.els, rest, hoist), n.kind))
    return res


def _paths(nodes, prefix=()):
    for i, n in enumerate(nodes):
        yield prefix + (i,), n
        if n.kids is not None:
            yield from _paths(n.kids, prefix + (i, "k"))
        if n.els is not None:
            yield from _paths(n.els, prefix + (i, "e"))


def shrink_candidates(nodes):
    """forests one step smaller: big subtrees first"""
    items = list(_paths(nodes))
    items.sort(key=lambda pn: -(count_nodes([pn[1]])))
    for path, n in items:
        if n.kind == "label0":
            continue
        yield _clone_without(nodes, list(path), False)
        if n.kids is not None and n.kind != "label":
            yield _clone_without(nodes, list(path), True)


class Gen:
    def __init__(self, rng, size=None, max_depth=6, errors=0.12, labels=None):
        self.r = rng
        self.max_depth = max_depth
        self.errors = errors
        self.size = size or rng.choice([3, 5, 8, 12])
        nl = labels if labels is not None else rng.randint(1, 4)
        self.labels = ["main"] + ["lab%d" % i for i in range(1, nl + 1)]
        self.nparams = {l: rng.choice([0, 0, 1, 2, 3]) for l in self.labels}
        self.cur = 0          # index of the label whose body is being generated
        self.catch_id = 0
        self.goto_id = 0
        self.hist = {}

    def hit(self, k):
        self.hist[k] = self.hist.get(k, 0) + 1

    # ---------------------------------------------------------------- expressions
    def var(self):
        r = self.r
        return "%s.%s" % (r.choice(SCOPES), r.choice(NAMES))

    def lit(self):
        r = self.r
        k = r.random()
        if k < 0.45:
            self.hit("e:int")
            return str(r.choice(INTS) if r.random() < 0.5 else r.randint(0, 300))
        if k < 0.6:
            self.hit("e:str")
            return '"%s"' % r.choice(STRS)
        if k < 0.68:
            self.hit("e:float")
            return r.choice(["0.5", "1.25", "3.0", "100.75"])
        if k < 0.74:
            self.hit("e:nil")
            return r.choice(["NIL", "NULL"])
        if k < 0.8:
            self.hit("e:negint")
            return " -%d" % r.choice(INTS[1:12])        # TOKEN_NEG needs a blank in front
        self.hit("e:var")
        return self.var()

    def prim(self, d):
        """something the grammar accepts as prim_expr (command parameter, condition)"""
        r = self.r
        if d <= 0 or r.random() < 0.45:
            return self.lit()
        return "(" + self.expr(d - 1) + ")"

    def expr(self, d):
        r = self.r
        if d <= 0:
            return self.lit()
        k = r.random()
        if k < 0.22:
            return self.lit()
        if k < 0.47:
            self.hit("e:bin")
            return "%s %s %s" % (self.prim(d - 1), r.choice(BINOPS), self.prim(d - 1))
        if k < 0.55:
            self.hit("e:logic")
            return "%s %s %s" % (self.prim(d - 1), r.choice(["&&", "||"]), self.prim(d - 1))
        if k < 0.61:
            self.hit("e:unary")
            return "%s(%s)" % (r.choice([" -", "~", "!"]), self.expr(d - 1))
        if k < 0.66:
            self.hit("e:index")
            base = self.var()
            return "%s[%s]%s" % (base, self.expr(d - 1), "[%s]" % self.expr(d - 2) if r.random() < 0.3 else "")
        if k < 0.70:
            self.hit("e:field")
            return "%s.%s" % (self.var(), r.choice(NAMES + ["classname", "size"]))
        if k < 0.74:
            self.hit("e:size")
            return "%s.size" % self.var()
        if k < 0.78:
            self.hit("e:vector")
            return "( %s %s %s )" % (r.randint(0, 9), r.choice(["1", "2.5", "local.a"]), r.randint(0, 9))
        if k < 0.82:
            self.hit("e:constarray")
            return "::".join(self.carr_item() for _ in range(r.randint(2, 4)))
        if k < 0.88:
            self.hit("e:retcmd")
            name, n = r.choice(RET_CMDS)
            return "%s %s" % (name, " ".join(self.prim(d - 1) for _ in range(n)))
        if k < 0.92:
            self.hit("e:threadexpr")
            return self.call(d, expr=True)
        if k < 0.95:
            self.hit("e:target")
            return r.choice(["$ent", "$nosuch", "$ent.origin", '$("e" + "nt")', "$ent.targetname"])
        if k < 0.97:
            self.hit("e:listener")
            return r.choice(["local", "group", "level", "game", "parm", "self", "owner"])
        self.hit("e:methodexpr")
        return "%s %s %s" % (r.choice(["local", "self", "$ent", "group"]), r.choice(["inheritsfrom", "isinheritedby"]),
                             r.choice(['"Listener"', '"SimpleEntity"', '"x"']))

    def carr_item(self):
        r = self.r
        return r.choice([str(r.randint(0, 9)), '"%s"' % r.choice(STRS[:4]), self.var(), "NIL"])

    def call(self, d, expr=False):
        """thread / waitthread call of a later label (mostly), with some parameters"""
        r = self.r
        later = self.labels[self.cur + 1:]
        if later and r.random() > 0.015:
            lab = r.choice(later)               # calls form a DAG: no unbounded recursion
        elif r.random() < 0.85:
            lab = "nolabel"                     # the last label calls nobody (or fails to)
        else:
            lab = r.choice(self.labels)         # now and then: recursion until MaxStackDepth
        if r.random() < self.errors:
            lab = "nolabel"
        n = self.nparams.get(lab, 1)
        if r.random() < 0.2:
            n = r.randint(0, 7)
        args = " ".join(self.prim(d - 1) for _ in range(n))
        verb = r.choice(["thread", "waitthread", "waitthread"])
        recv = r.choice(["", "", "local ", "self ", "group ", "$ent "]) if not expr else r.choice(["", "", "local ", "self "])
        s = "%s%s %s %s" % (recv, verb, lab, args)
        return s.strip()

    # ---------------------------------------------------------------- statements
    def lhs(self, d):
        r = self.r
        k = r.random()
        if k < 0.55:
            return self.var()
        if k < 0.75:
            self.hit("s:lhs-index")
            return "%s[%s]%s" % (self.var(), self.expr(min(d, 2)), "[%s]" % self.lit() if r.random() < 0.4 else "")
        if k < 0.87:
            self.hit("s:lhs-field")
            return "%s.%s" % (self.var(), r.choice(NAMES))
        if k < 0.93:
            self.hit("s:lhs-field-index")
            return "%s.%s[%s]" % (self.var(), r.choice(NAMES), self.lit())
        self.hit("s:lhs-self")
        return "%s.%s" % (r.choice(["self", "owner", "$ent", "$nosuch"]), r.choice(NAMES + ["origin", "targetname"]))

    def error_stmt(self, d):
        """statements that raise a script error at run time (by construction, whatever the values)"""
        r = self.r
        self.hit("s:error")
        return Node(r.choice([
            "local.nil_%d.x[1] = 3" % r.randint(0, 3),            # field of NIL as array base
            "NIL println 1",                                      # command on NIL
            "NULL delete",                                        # command on NULL
            "local.u%d remove" % r.randint(0, 3),
            "local.q = 1 / 0",
            "local.q = 7 % 0",
            "local.q = local.undefined_listener.field",
            "local.five = 5\nlocal.five.y = 3",                  # field of an integer
            "local.five = 5\nlocal.q = local.five.y",
            'local.q = "abc" - 1',
            "local.q = ( 1 2 3 ) * \"s\"",
            "local.q = local.arr[1][2][3]",
            "local.q = (1::2::3)[7]",
            "thread nolabel 1 2",
            "local.q = waitthread nolabel",
            "local.self = 1",                                     # read-only built-in
            "local.classname = 2",
            "local.q = self.x",
            "self.x = 1",
            "self.x = 1\nlocal.q = self.x",
            "local.q = owner",
            "owner.z = 1",
            "local.q = owner.z",
            'error "boom"',
            "$nosuch.x = 1",
            "$nosuch println 1",
            "local.q = $nosuch.x",
            "local.q = int NIL",
            "local.q = local nosuchmethod_placeholder" if False else "local.q = local inheritsfrom 5",
            "local.q[1][NIL] = 2",
            "local.s = \"str\"\nlocal.s[1][2] = 3",
            "local.q = -(\"x\")",
            "local.q = ~(1.5)",
            "local.q = vector_length \"nonsense\"",
            "level.self = 1",
            "level.x.y.z = 1",
            "local.q = (local.nil_1 thread lab1)",
            "local.nil_2 waitthread main",
            "local.q++",
            "local.q = $vp.vp_wonly",                             # host class of harness/bytecode.cpp: write-only variable read
            "local.q = local.vp.vp_failget",                      # getter that raises
            "$vp.vp_failset = 1",                                 # setter that raises
            "local.vp.vp_ronly = 2",                              # read-only variable written
            "self.vp_ronly = 3",
            "self.vp_failset = 4",
            "local.q = self.vp_failget + 1",
            "$vp vp_fail 1 2 3",
            "self vp_fail",
            "local.q = $vp vp_failret 1",
            "local.q = (local.vp vp_failret 1 2 3 4 5 6 7) + 1",
            "local.q = $vp.vp_wonly[1]",
            "$vp.vp_failget[2] = 1",
            "local.nil_3.w++",
            "local.nil_3.w += 2",
            "local.grp = NIL::\"b\"::game.m\nlocal.grp.f = 1",    # field assignment on a const array whose elements are no listeners
            "local.grp = $vp::5\nlocal.grp.f = 1",
            "local.grp = $vp::$vp\nlocal.grp.vp_failset = 1",
            "local.grp = $vp::$ent\nlocal.grp.vp_ronly = 1",
        ]))

    def assign(self, d):
        r = self.r
        k = r.random()
        if k < 0.7:
            self.hit("s:assign")
            return Node("%s = %s" % (self.lhs(d), self.expr(min(d, 3))))
        if k < 0.88:
            self.hit("s:compound")
            return Node("%s %s %s" % (self.lhs(d), r.choice(COMPOUND), self.expr(min(d, 2))))
        self.hit("s:incdec")
        return Node("%s%s" % (self.lhs(d), r.choice(["++", "--"])))

    def command(self, d):
        r = self.r
        k = r.random()
        if k < 0.5:
            n = r.choice([0, 1, 1, 2, 3, 5, 6, 8])
            self.hit("s:cmd%d" % n)
            name = r.choice(PLAIN_CMDS[:3]) if n != 1 else r.choice(PLAIN_CMDS)
            return Node(("%s %s" % (name, " ".join(self.prim(min(d, 2)) for _ in range(n)))).strip())
        if k < 0.75:
            n = r.choice([0, 1, 2, 6])
            self.hit("s:method%d" % n)
            recv = r.choice(["local", "group", "level", "self", "$ent", "$nosuch", self.var(), "(" + self.expr(1) + ")"])
            name = r.choice(["println", "print", "cancelFor", "notify", "unregister", "commanddelay"]) if n else r.choice(["println", "print"])
            args = " ".join(self.prim(min(d, 2)) for _ in range(n))
            if name == "commanddelay":
                args = "0 println " + args
            return Node(("%s %s %s" % (recv, name, args)).strip())
        self.hit("s:call")
        return Node(self.call(d))

    def block(self, d, n, ctx):
        return [self.stmt(d, ctx) for _ in range(max(1, n))]

    def stmt(self, d, ctx):
        r = self.r
        if r.random() < self.errors:
            return self.error_stmt(d)
        k = r.random()
        if d <= 0 or k < 0.30:
            return self.assign(3)
        if k < 0.45:
            return self.command(3)
        n = r.randint(1, 3)
        if k < 0.55:
            self.hit("s:if")
            cond = self.prim(2)
            if r.random() < 0.25:
                return Node("if %s" % cond, [self.assign(2)], None, kind="if1")       # single statement, no braces
            return Node("if %s {" % cond, self.block(d - 1, n, ctx), "}")
        if k < 0.63:
            self.hit("s:ifelse")
            return Node("if %s {" % self.prim(2), self.block(d - 1, n, ctx), "}", self.block(d - 1, r.randint(1, 2), ctx))
        loopctx = dict(ctx, loop=True)
        if k < 0.70:
            self.hit("s:while")
            v = "local.w%d" % d
            return Node("%s = 0\nwhile (%s < %d && %s) {" % (v, v, r.randint(1, 3), self.prim(1) if r.random() < 0.3 else "1"),
                        [Node("%s++" % v)] + self.block(d - 1, n, loopctx), "}", kind="loop")
        if k < 0.77:
            self.hit("s:for")
            v = "local.f%d" % d
            inc = "%s++" % v if r.random() < 0.7 else "%s += 1; local.z = %s" % (v, self.lit())
            return Node("for (%s = 0; %s < %d; %s) {" % (v, v, r.randint(1, 3), inc), self.block(d - 1, n, loopctx), "}", kind="loop")
        if k < 0.82:
            self.hit("s:do")
            v = "local.d%d" % d
            return Node("%s = 0\ndo {" % v, [Node("%s++" % v)] + self.block(d - 1, n, loopctx), "} while (%s < %d)" % (v, r.randint(1, 3)), kind="loop")
        if k < 0.86 and ctx.get("loop"):
            self.hit("s:break/continue")
            return Node("if %s {" % self.prim(1), [Node(r.choice(["break", "continue"]))], "}")
        if k < 0.92:
            self.hit("s:switch")
            return self.switch(d, ctx)
        if k < 0.96:
            self.hit("s:try")
            return self.trycatch(d, ctx)
        if k < 0.975:
            self.hit("s:goto")
            self.goto_id += 1
            g = "g%d" % self.goto_id
            # forward goto over a few statements; the label carries parameters sometimes
            params = " local.gp" if r.random() < 0.3 else ""
            return Node("", [Node("goto %s" % g)] + self.block(d - 1, 1, ctx) + [Node("%s%s:" % (g, params))], None, kind="goto")
        if k < 0.985:
            self.hit("s:wait")
            return Node(r.choice(["wait 0", "waitframe", "wait 0.5"]))
        self.hit("s:end")
        return Node("if %s {" % self.prim(1), [Node(r.choice(["end", "end %s" % self.prim(2)]))], "}")

    def switch(self, d, ctx):
        r = self.r
        sctx = dict(ctx, switch=True)
        kids = []
        seen = set()
        for _ in range(r.randint(1, 4)):
            lab = r.choice(["case %d:" % r.randint(0, 5), 'case "%s":' % r.choice(STRS[:4]), "case -%d:" % r.randint(1, 3),
                            "named%d:" % r.randint(0, 2), "case %d local.cp:" % r.randint(6, 9)])
            if lab in seen:
                continue
            seen.add(lab)
            body = self.block(d - 1, r.randint(0, 2), sctx)
            if r.random() < 0.6:
                body.append(Node("break"))
            kids.append(Node(lab, None, None, kind="case"))
            kids += body
        if r.random() < 0.6:
            kids.append(Node("default:", None, None, kind="case"))
            kids += self.block(d - 1, 1, sctx)
        return Node("switch (%s) {" % self.expr(2), kids, "}", kind="switch")

    def trycatch(self, d, ctx):
        r = self.r
        self.catch_id += 1
        cid = self.catch_id
        labs = ["c%d_%d" % (cid, i) for i in range(r.randint(1, 3))]
        body = self.block(d - 1, r.randint(1, 2), ctx)
        tgt = r.choice(labs) if r.random() > self.errors else "uncaught_%d" % cid
        thr = Node("throw %s %s" % (tgt, " ".join(self.prim(1) for _ in range(r.randint(0, 2)))))
        if r.random() < 0.5:
            body.append(Node("if %s {" % self.prim(1), [thr], "}"))
        else:
            body.append(thr)
        handler = []
        for l in labs:
            handler.append(Node("%s%s:" % (l, " local.ex" if r.random() < 0.3 else ""), None, None, kind="case"))
            handler += self.block(d - 1, 1, ctx)
        return Node("try {", body, "}", handler, kind="try")

    # ---------------------------------------------------------------- program
    def program(self):
        r = self.r
        nodes = []
        if r.random() < 0.3:
            # statements before the first label: the start of the script
            nodes += self.block(2, r.randint(1, 2), {})
            nodes.append(Node("end"))
        for li, lab in enumerate(self.labels):
            self.cur = li
            params = " ".join("local.p%d" % i for i in range(self.nparams[lab]))
            head = ("%s %s:" % (lab, params)).replace(" :", ":")
            if r.random() < 0.1 and li:
                head = "-" + head           # private label
            body = []
            if li == 0 and r.random() < 0.5:
                body.append(Node('local.e = spawn SimpleEntity "targetname" "ent"'))
            if li == 0 and r.random() < 0.6:
                body.append(Node('local.vp = spawn VProbe "targetname" "vp"'))
            if li == 0 and r.random() < 0.3:
                # a second bearer of a name: $ent / $vp become groups (const arrays of listeners)
                body.append(Node('local.e2 = spawn %s' % r.choice(['SimpleEntity "targetname" "ent"', 'VProbe "targetname" "vp"', 'VProbe "targetname" "ent"'])))
            depth = r.choice([1, 2, 3, self.max_depth]) if li == 0 else r.choice([1, 2, 3])
            body += self.block(depth, self.size if li == 0 else max(2, self.size // 2), {})
            body.append(Node(r.choice(["end", "end", "end %s" % self.prim(2), ""])) if r.random() < 0.9 else Node("wait 0"))
            nodes.append(Node(head, body, None, kind="label0" if li == 0 else "label"))
        return nodes


def targeted(rng, opname):
    """programs that put the given opcode directly in front of a jump target (used when a table
    obligation about that opcode fails: a wrong length makes the VM decode from the middle)"""
    snippets = {
        "STORE_INT": ["local.a = %d" % v for v in (0, 7, 300, 70000, 16777217, 4294967297)],
        "STORE_STRING": ['local.a = "s"'], "STORE_FLOAT": ["local.a = 1.5"], "STORE_VECTOR": ["local.a = ( 1 2 3 )"],
        "CALC_VECTOR": ["local.a = ( local.b 2 3 )"],
        "EXEC_CMD": ["println", "println 1", "println 1 2", "println 1 2 3", "println 1 2 3 4", "println 1 2 3 4 5", "println 1 2 3 4 5 6 7"],
        "EXEC_CMD_METHOD": ["local println", "local println 1", "local println 1 2", "local println 1 2 3", "local println 1 2 3 4",
                            "local println 1 2 3 4 5", "local println 1 2 3 4 5 6"],
        "EXEC_METHOD": ["local.a = local thread lab1", "local.a = waitthread lab1 1", "local.a = waitthread lab1 1 2", "local.a = waitthread lab1 1 2 3",
                        "local.a = waitthread lab1 1 2 3 4", "local.a = waitthread lab1 1 2 3 4 5", "local.a = waitthread lab1 1 2 3 4 5 6"],
        "LOAD_": ["%s.a = 1" % s for s in ("game", "level", "local", "parm", "group", "self", "owner")] + ["local.a.b = 1", "local.a[1] = 2"],
        "STORE_": ["local.b = %s.a" % s for s in ("game", "level", "local", "parm", "group", "self", "owner")] +
                  ["local.b = %s" % s for s in ("game", "level", "local", "parm", "group", "self", "owner")] +
                  ["local.b = local.a.c", "local.b = local.a[1]", "local.a.b[1] = 2", "local.a[1][2] = 3", "local.b = NIL", "local.b = NULL"],
        "LOAD_STORE": ["%s.a = 1\nlocal.b = %s.a" % (s, s) for s in ("game", "level", "local", "parm", "group", "self")],
        "LOAD_CONST_ARRAY": ["local.a = 1::2::3", "local.a = makeArray\n1 2\n3 4\nendArray"],
        "BIN_": ["local.a = local.b %s local.c" % o for o in BINOPS], "UN_": ["local.a = -(local.b)", "local.a = ~(local.b)", "local.a = !(local.b)",
                                                                       "local.a = $ent", "local.a = local.b.size", "local.a++", "local.a--"],
        "BOOL_": ["local.a = !1", "local.a = !0", "local.a = local.b && local.c", "local.a = local.b || local.c", "if (!local.a) { local.b = 1 }"],
        "VAR_": ["if (local.a) { local.b = 1 }", "if (!(local.a + 1)) { local.b = 1 }"],
        "JUMP": ["while (local.i < 2) { local.i++ }", "do { local.i++ } while (local.i < 2)", "if (local.a) { local.b = 1 } else { local.b = 2 }"],
        "SWITCH": ["switch (local.a) { case 1: local.b = 1; break; default: local.b = 2 }"],
        "MARK": [], "RESTORE": [], "STORE_PARAM": [], "FUNC": [], "NOP": [], "DONE": ["end"],
    }
    stm = []
    for k, v in snippets.items():
        if opname.replace("OP_", "").startswith(k) or k.startswith(opname.replace("OP_", "")):
            stm += v
    if not stm:
        stm = [x for v in snippets.values() for x in v]
    rng.shuffle(stm)
    body = []
    for s in stm[:6]:
        body.append(Node("if (local.c) {", [Node(s)], "}"))       # the snippet's last instruction is followed by a jump target
        body.append(Node(s))
        body.append(Node("while (local.w < 1) {", [Node(s), Node("local.w++")], "}"))
    body.append(Node("end"))
    return [Node("main local.p0 local.p1:", body, None, kind="label0"),
            Node("lab1 local.p0:", [Node("end local.p0")], None, kind="label")]


# ---------------------------------------------------------------------------------------------
# deterministic family: operand counts around the width of the count operands (uint8 parameter counts of the
# COUNT1 opcodes, uint16 element count of OP_LOAD_CONST_ARRAY1)

LARGE_SIZES = [2, 17, 200, 255, 256, 257, 300, 1000]


def _items(n, kind):
    if kind == "int":
        return [str(i) for i in range(1, n + 1)]
    if kind == "mixed":
        pool = ["1", '"s"', "local.a", "NIL", "2.5", "( 1 2 3 )", "70000", " -3"]
        return [pool[i % len(pool)] for i in range(n)]
    return ["local.v%d" % (i % 7) for i in range(n)]


def large_family(sizes=None):
    """[(name, source, opts)]: constant array literals, makeArray blocks, command / method / thread-call / label
    parameter lists with n elements; every program prints the size it built and goes on with plain statements,
    so that operands left on the stack are seen at the next statement and at the thread's end"""
    out = []
    for n in sizes or LARGE_SIZES:
        for kind in ("int", "mixed"):
            lit = "::".join(_items(n, kind))
            out.append(("large:carr:%s:%d" % (kind, n),
                        "main:\nlocal.arr = %s\nprintln \"size\" local.arr.size\nlocal.q = local.arr[%d]\nlocal.z = 1\n"
                        "if (local.arr.size == %d) { println \"ok\" }\nwait 0\nlocal.z = 2\nend local.arr.size\n" % (lit, n, n), ""))
        out.append(("large:carr-in-expr:%d" % n,
                    "main:\nlocal.n = (%s).size + 1\nprintln local.n\nfor (local.i = 0; local.i < 2; local.i++) { local.arr = %s }\nlocal.z = 1\nend\n"
                    % ("::".join(_items(n, "int")), "::".join(_items(n, "var"))), ""))
        rows = "\n".join("%d %d" % (i, i + 1) if i % 3 else "%d" % i for i in range(1, n + 1))
        out.append(("large:makearray:%d" % n,
                    "main:\nlocal.arr = makeArray\n%s\nendArray\nprintln \"size\" local.arr.size\nlocal.z = 1\nwait 0\nend\n" % rows, ""))
        out.append(("large:makearray-wide:%d" % n,
                    "main:\nlocal.arr = makeArray\n%s\n1 2\nendArray\nprintln \"size\" local.arr.size local.arr[1].size\nlocal.z = 1\nend\n"
                    % " ".join(_items(n, "int")), ""))
    return out


def large_param_family(sizes=None):
    """parameter counts of commands, methods, thread calls and labels around 255 / 256 (the count operand of the
    COUNT1 opcodes is one byte wide)"""
    out = []
    for n in sizes or [6, 17, 200, 254, 255, 256, 257, 300]:
        args = " ".join(_items(n, "int"))
        # beyond the one-byte count operand the compiler must refuse (notes/C02-findings.md F6): name suffix `:reject`
        rj = ":reject" if n > 255 else ""
        rjt = ":reject" if n + 1 > 255 else ""
        out.append(("large:cmd:%d%s" % (n, rj), "main:\nprintln %s\nlocal.z = 1\nwait 0\nlocal.z = 2\nend\n" % args, ""))
        out.append(("large:method:%d%s" % (n, rj), "main:\nlocal println %s\nlocal.z = 1\n$nosuch print %s\nlocal.z = 2\ngroup print %s\nend\n" % (args, args, args), ""))
        out.append(("large:retcmd:%d%s" % (n, rj), "main:\nlocal.q = randomint %s\nlocal.z = 1\nlocal.q = (local inheritsfrom %s)\nlocal.z = 2\nend\n" % (args, args), ""))
        params = " ".join("local.p%d" % i for i in range(n))
        out.append(("large:thread:%d%s" % (n, rjt),
                    "main:\nthread callee %s\nlocal.z = 1\nlocal.q = waitthread callee %s\nlocal.z = 2\nlocal thread callee %s\nend\n"
                    "callee %s:\nlocal.s = local.p0 + local.p%d\nend local.s\n" % (args, args, args, params, n - 1), ""))
    return out
