"""C05, call records: abstract programs of lean/MorfuseModel/PtrCell/Call.lean (`Sec` / `Instr`), their
rendering to script text, and the seeded scenario generator.  One line carries both forms
    script m <hex of the rendered text> ## <section> / <section> / …
the C++ harness (harness/callrec.cpp) reads the hex, the Lean driver (`driver callrec`) what follows `##`.
Label k is declared as `<prefix><k>` (prefix: lower-case letters, default `t`; another prefix is announced to
the driver by a token `@<prefix>` in front of the first section).  Host calls name a label by its text; a text
that is not exactly `<prefix><k>` with k a declared label — a larger k, or the name of a declared label
spelled with other letter case (`LAB2`, `Lab2`, `lAb2`) — is not a label of the script.

Targets are strings `l3 v3 g3 p3 r3` = local.v3 level.v3 game.v3 parm.v3 group.v3; values `i<int>`,
`s<letters>`, `n` (NIL).  Instructions are tuples:
  ("set", tgt, val) ("print", tgt) ("wait", ms) ("thread", tgt, label, [tgt…]) ("end",) ("endlit", val) ("endvar", tgt)
  ("cthread", tgt, missing-label, [tgt…], name): `thread <name>` where <name> is a case variant of a declared
  label's name (not a label: the statement is a script error that is skipped); for the model a start at the
  missing label"""
from vlib.schedgen import engine_ms, secs

SCOPES = {"l": "local", "v": "level", "g": "game", "p": "parm", "r": "group"}
WAITS = [125, 250, 500]
VALS = ["i0", "i1", "i5", "i42", "i70000", "i123456789", "sa", "szz", "shey", "s", "snil", "n"]


def tgt_src(t):
    return "%s.v%s" % (SCOPES[t[0]], t[1:])


def val_src(v):
    if v == "n": return "NIL"
    if v[0] == "i": return v[1:]
    return '"%s"' % v[1:]


PREFIXES = ["t", "t", "lab", "wave", "go"]


def case_variants(name):
    """spellings of `name` (lower-case letters + digits) that differ from it by letter case only"""
    res = [name.upper()]
    if name.capitalize() not in res:
        res.append(name.capitalize())
    alt = "".join(c.upper() if i % 2 else c for i, c in enumerate(name))
    alt2 = "".join(c.upper() if i % 2 == 0 else c for i, c in enumerate(name))
    last = "".join(c.upper() if c.isalpha() and not name[i + 1].isalpha() else c for i, c in enumerate(name[:-1])) + name[-1]
    for v in (alt, alt2, last):
        if v != name and v not in res:
            res.append(v)
    return [v for v in res if v != name]


def stmt(ins, prefix="t"):
    k = ins[0]
    if k == "set": return "%s = %s" % (tgt_src(ins[1]), val_src(ins[2]))
    if k == "print": return 'println "p" %s' % tgt_src(ins[1])
    if k == "wait": return "wait %s" % secs(ins[1])
    if k == "thread": return ("%s = thread %s%d %s" % (tgt_src(ins[1]), prefix, ins[2], " ".join(tgt_src(a) for a in ins[3]))).rstrip()
    # (statement form: what an assignment would store after the failed start is the VM's business, C04)
    if k == "cthread": return ("thread %s %s" % (ins[4], " ".join(tgt_src(a) for a in ins[3]))).rstrip()
    if k == "end": return "end"
    if k == "endlit": return "end %s" % val_src(ins[1])
    if k == "endvar": return "end %s" % tgt_src(ins[1])
    raise ValueError(ins)


def tok(ins):
    k = ins[0]
    if k == "set": return "=%s:%s" % (ins[1], ins[2])
    if k == "print": return "P%s" % ins[1]
    if k == "wait": return "w%d" % engine_ms(ins[1])
    if k in ("thread", "cthread"): return "t%s:%d" % (ins[1], ins[2]) + (":" + ",".join(ins[3]) if ins[3] else "")
    if k == "end": return "e"
    if k == "endlit": return "e=%s" % ins[1]
    if k == "endvar": return "e@%s" % ins[1]
    raise ValueError(ins)


def render(prog, prefix="t"):
    """prog: list of (params, body); section 0 is the code in front of the first label (no parameters)"""
    assert prefix.isalpha() and prefix.islower()
    out = []
    for i, (params, body) in enumerate(prog):
        if i > 0:
            out.append(("%s%d %s" % (prefix, i, " ".join(tgt_src(p) for p in params))).rstrip() + ":")
        for x in body:
            if x[0] == "cthread":
                assert x[2] >= len(prog), "cthread: a missing label for the model"
                assert x[4].lower() in ["%s%d" % (prefix, j) for j in range(1, len(prog))] and x[4] != x[4].lower(), "cthread: a case variant of a declared label"
        out += [stmt(x, prefix) for x in body]
    return "\n".join(out) + "\n"


def script_line(prog, name="m", prefix="t"):
    abstract = " / ".join(("(%s) " % ",".join(params) + " ".join(tok(x) for x in body)).rstrip() for params, body in prog)
    return "script %s %s ## %s%s" % (name, render(prog, prefix).encode().hex(), "" if prefix == "t" else "@%s " % prefix, abstract)


def gen_tgt(rng, local_bias=0.5):
    if rng.random() < local_bias:
        return "l%d" % rng.randint(0, 3)
    return "%s%d" % (rng.choice("vgpr"), rng.randint(0, 2))


def gen_prog(rng):
    nl = rng.randint(2, 5)
    # parameters: a third of the programs use only locals, the rest mix every scope
    bias = rng.choice([1.0, 0.5, 0.3])
    params = [[]]
    for i in range(1, nl + 1):
        k = rng.choice([0, 1, 2, 2, 3, 3, 4, 6])
        ps = []
        for _ in range(k):
            t = gen_tgt(rng, bias)
            if t not in ps or rng.random() < 0.1:
                ps.append(t)
        params.append(ps)
    prog = []
    # the code in front of the first label: assigns variables the first label(s) declare as parameters
    pre = []
    if rng.random() < 0.6:
        pool = [p for ps in params[1:3] for p in ps] or ["l0"]
        for _ in range(rng.randint(1, 4)):
            pre.append(("set", rng.choice(pool) if rng.random() < 0.8 else gen_tgt(rng), rng.choice(VALS)))
        if rng.random() < 0.3:
            pre.append(("print", rng.choice(pool)))
        if rng.random() < 0.25:
            pre.append(("end",) if rng.random() < 0.5 else ("endlit", rng.choice(VALS)))
    prog.append(([], pre))
    for i in range(1, nl + 1):
        ps = params[i]
        body = [("print", p) for p in ps]
        known = list(ps) or ["l0"]
        mode = rng.choice(["sync", "sync", "waits", "waits", "delegate", "delegate", "sets"])
        if mode == "sets":
            for _ in range(rng.randint(1, 3)):
                t = gen_tgt(rng, bias)
                body.append(("set", t, rng.choice(VALS)))
                known.append(t)
        if mode == "delegate" and i < nl:
            r = gen_tgt(rng, 0.7)
            j = rng.randint(i + 1, nl)
            args = [rng.choice(known) for _ in range(rng.randint(0, 3))]
            body.append(("thread", r, j, args))
            known.append(r)
            if rng.random() < 0.5:
                body.append(("print", r))
            if rng.random() < 0.3:
                body += [("wait", rng.choice(WAITS)), ("print", r)]
            if rng.random() < 0.7:
                body.append(("endvar", r))
        if mode == "waits":
            for _ in range(rng.randint(1, 2)):
                body.append(("wait", rng.choice(WAITS)))
                body += [("print", p) for p in known if rng.random() < 0.6]
        if not body:
            body.append(("print", "l0"))
        if body[-1][0] != "endvar":
            x = rng.random()
            if x < 0.2:
                body.append(("end",))
            elif x < 0.45:
                body.append(("endlit", rng.choice(VALS)))
            elif x < 0.85:
                body.append(("endvar", rng.choice(known)))
            # else: falls into the next label (or off the end of the script)
        prog.append((ps, body))
    return prog


def gen_case(rng):
    prog = gen_prog(rng)
    nl = len(prog) - 1
    prefix = rng.choice(PREFIXES)
    lab = lambda k: "%s%d" % (prefix, k)
    if rng.random() < 0.25:
        # a script-level start at a case variant of a declared label's name
        params, body = prog[rng.randint(1, nl)]
        pos = rng.randint(0, len(body) - 1 if body[-1][0] in ("end", "endlit", "endvar") else len(body))
        known = list(params) or ["l0"]
        name = rng.choice(case_variants(lab(rng.randint(1, nl))))
        body.insert(pos, ("cthread", gen_tgt(rng, 0.7), nl + rng.randint(1, 3), [rng.choice(known) for _ in range(rng.randint(0, 2))], name))
    lines = ["reset", script_line(prog, prefix=prefix)]
    nrec = 0
    focus = rng.randint(1, nl)
    nargs = rng.randint(3, 7)
    for _ in range(rng.randint(3, 9)):
        r = rng.random()
        if r < 0.5:
            l = focus if rng.random() < 0.6 else rng.randint(1, nl)
            # argument counts of the calls of one scenario tend to go down: later calls leave parameters unmatched
            k = rng.randint(0, nargs)
            nargs = max(0, nargs - rng.randint(0, 2))
            lines.append("call %s new %s" % (lab(l), " ".join(rng.choice(VALS) for _ in range(k))))
            nrec += 1
        elif r < 0.6:
            lines.append(("call - new %s" % " ".join(rng.choice(VALS) for _ in range(rng.randint(0, 4)))).rstrip())
            nrec += 1
        elif r < 0.78 and nrec:
            # the host uses one of its records again, whatever it holds by now (pending results included)
            l = lab(rng.randint(1, nl)) if rng.random() < 0.85 else "-"
            lines.append("call %s r%d" % (l, rng.randrange(nrec)))
        elif r < 0.87:
            # a label that does not exist: an index past the last label, or the name of a declared label
            # spelled with other letter case (upper, capitalised, mixed)
            if rng.random() < 0.45:
                missing = lab(nl + rng.randint(1, 3))
            else:
                missing = rng.choice(case_variants(lab(focus if rng.random() < 0.5 else rng.randint(1, nl))))
            lines.append(("call %s new %s" % (missing, " ".join(rng.choice(VALS) for _ in range(rng.randint(0, 2))))).rstrip()
                         if rng.random() < 0.6 or not nrec else "call %s r%d" % (missing, rng.randrange(nrec)))
        else:
            lines.append("step %d" % rng.choice([50, 125, 125, 250, 300]))
    lines += ["step 1000", "step 1000"]
    return [l.rstrip() for l in lines]
