"""C05, call records: abstract programs of lean/MorfuseModel/PtrCell/Call.lean (`Sec` / `Instr`), their
rendering to script text, and the seeded scenario generator.  One line carries both forms
    script m <hex of the rendered text> ## <section> / <section> / …
the C++ harness (harness/callrec.cpp) reads the hex, the Lean driver (`driver callrec`) what follows `##`.

Targets are strings `l3 v3 g3 p3 r3` = local.v3 level.v3 game.v3 parm.v3 group.v3; values `i<int>`,
`s<letters>`, `n` (NIL).  Instructions are tuples:
  ("set", tgt, val) ("print", tgt) ("wait", ms) ("thread", tgt, label, [tgt…]) ("end",) ("endlit", val) ("endvar", tgt)"""
from vlib.schedgen import engine_ms, secs

SCOPES = {"l": "local", "v": "level", "g": "game", "p": "parm", "r": "group"}
WAITS = [125, 250, 500]
VALS = ["i0", "i1", "i5", "i42", "i70000", "i123456789", "sa", "szz", "shey", "s", "snil", "n"]


def tgt_src(t):
    return "%s.v%s" % (SCOPES[t[0]], t[1:])


def val_src(v):
    if v == "n": return "NIL"
    if v[0] == "i": return v[1:]
    return '"%s"' % v[1:]


def stmt(ins):
    k = ins[0]
    if k == "set": return "%s = %s" % (tgt_src(ins[1]), val_src(ins[2]))
    if k == "print": return 'println "p" %s' % tgt_src(ins[1])
    if k == "wait": return "wait %s" % secs(ins[1])
    if k == "thread": return ("%s = thread t%d %s" % (tgt_src(ins[1]), ins[2], " ".join(tgt_src(a) for a in ins[3]))).rstrip()
    if k == "end": return "end"
    if k == "endlit": return "end %s" % val_src(ins[1])
    if k == "endvar": return "end %s" % tgt_src(ins[1])
    raise ValueError(ins)


def tok(ins):
    k = ins[0]
    if k == "set": return "=%s:%s" % (ins[1], ins[2])
    if k == "print": return "P%s" % ins[1]
    if k == "wait": return "w%d" % engine_ms(ins[1])
    if k == "thread": return "t%s:%d" % (ins[1], ins[2]) + (":" + ",".join(ins[3]) if ins[3] else "")
    if k == "end": return "e"
    if k == "endlit": return "e=%s" % ins[1]
    if k == "endvar": return "e@%s" % ins[1]
    raise ValueError(ins)


def render(prog):
    """prog: list of (params, body); section 0 is the code in front of the first label (no parameters)"""
    out = []
    for i, (params, body) in enumerate(prog):
        if i > 0:
            out.append(("t%d %s" % (i, " ".join(tgt_src(p) for p in params))).rstrip() + ":")
        out += [stmt(x) for x in body]
    return "\n".join(out) + "\n"


def script_line(prog, name="m"):
    abstract = " / ".join(("(%s) " % ",".join(params) + " ".join(tok(x) for x in body)).rstrip() for params, body in prog)
    return "script %s %s ## %s" % (name, render(prog).encode().hex(), abstract)


def gen_tgt(rng, local_bias=0.5):
    if rng.random() < local_bias:
        return "l%d" % rng.randint(0, 3)
    return "%s%d" % (rng.choice("vgpr"), rng.randint(0, 2))


def gen_prog(rng):
    nl = rng.randint(2, 5)
    # parameters: a third of the programs use only locals, the rest mix every scope
    bias = rng.choice([1.0, 0.5, 0.3])
    params = [[]]
    for i in range(1, nl + 1):
        k = rng.choice([0, 1, 2, 2, 3, 3, 4, 6])
        ps = []
        for _ in range(k):
            t = gen_tgt(rng, bias)
            if t not in ps or rng.random() < 0.1:
                ps.append(t)
        params.append(ps)
    prog = []
    # the code in front of the first label: assigns variables the first label(s) declare as parameters
    pre = []
    if rng.random() < 0.6:
        pool = [p for ps in params[1:3] for p in ps] or ["l0"]
        for _ in range(rng.randint(1, 4)):
            pre.append(("set", rng.choice(pool) if rng.random() < 0.8 else gen_tgt(rng), rng.choice(VALS)))
        if rng.random() < 0.3:
            pre.append(("print", rng.choice(pool)))
        if rng.random() < 0.25:
            pre.append(("end",) if rng.random() < 0.5 else ("endlit", rng.choice(VALS)))
    prog.append(([], pre))
    for i in range(1, nl + 1):
        ps = params[i]
        body = [("print", p) for p in ps]
        known = list(ps) or ["l0"]
        mode = rng.choice(["sync", "sync", "waits", "waits", "delegate", "delegate", "sets"])
        if mode == "sets":
            for _ in range(rng.randint(1, 3)):
                t = gen_tgt(rng, bias)
                body.append(("set", t, rng.choice(VALS)))
                known.append(t)
        if mode == "delegate" and i < nl:
            r = gen_tgt(rng, 0.7)
            j = rng.randint(i + 1, nl)
            args = [rng.choice(known) for _ in range(rng.randint(0, 3))]
            body.append(("thread", r, j, args))
            known.append(r)
            if rng.random() < 0.5:
                body.append(("print", r))
            if rng.random() < 0.3:
                body += [("wait", rng.choice(WAITS)), ("print", r)]
            if rng.random() < 0.7:
                body.append(("endvar", r))
        if mode == "waits":
            for _ in range(rng.randint(1, 2)):
                body.append(("wait", rng.choice(WAITS)))
                body += [("print", p) for p in known if rng.random() < 0.6]
        if not body:
            body.append(("print", "l0"))
        if body[-1][0] != "endvar":
            x = rng.random()
            if x < 0.2:
                body.append(("end",))
            elif x < 0.45:
                body.append(("endlit", rng.choice(VALS)))
            elif x < 0.85:
                body.append(("endvar", rng.choice(known)))
            # else: falls into the next label (or off the end of the script)
        prog.append((ps, body))
    return prog


def gen_case(rng):
    prog = gen_prog(rng)
    nl = len(prog) - 1
    lines = ["reset", script_line(prog)]
    nrec = 0
    focus = rng.randint(1, nl)
    nargs = rng.randint(3, 7)
    for _ in range(rng.randint(3, 9)):
        r = rng.random()
        if r < 0.5:
            l = focus if rng.random() < 0.6 else rng.randint(1, nl)
            # argument counts of the calls of one scenario tend to go down: later calls leave parameters unmatched
            k = rng.randint(0, nargs)
            nargs = max(0, nargs - rng.randint(0, 2))
            lines.append("call t%d new %s" % (l, " ".join(rng.choice(VALS) for _ in range(k))))
            nrec += 1
        elif r < 0.6:
            lines.append(("call - new %s" % " ".join(rng.choice(VALS) for _ in range(rng.randint(0, 4)))).rstrip())
            nrec += 1
        elif r < 0.78 and nrec:
            # the host uses one of its records again, whatever it holds by now (pending results included)
            lab = "t%d" % rng.randint(1, nl) if rng.random() < 0.85 else "-"
            lines.append("call %s r%d" % (lab, rng.randrange(nrec)))
        elif r < 0.84:
            lines.append(("call t%d new %s" % (nl + rng.randint(1, 3), " ".join(rng.choice(VALS) for _ in range(rng.randint(0, 2))))).rstrip()
                         if rng.random() < 0.6 or not nrec else "call t%d r%d" % (nl + rng.randint(1, 3), rng.randrange(nrec)))
        else:
            lines.append("step %d" % rng.choice([50, 125, 125, 250, 300]))
    lines += ["step 1000", "step 1000"]
    return [l.rstrip() for l in lines]
