"""Shared machinery for the /verif checks (see DESIGN.md sections 2, 3, 10).

One check = (1) regenerate Gen/*.lean from /repo, (2) lake build (theorems re-checked),
(3) audit (forbidden tokens + #print axioms), (4) build the C++ harness from /repo's working tree,
(5) correspondence: same op lines through the harness and the Lean driver, outputs diffed,
(6) on a difference: shrink, classify with the property's trace monitor, report,
(7) write evidence.
"""
import fcntl
import hashlib
import json
import os
import random
import re
import shutil
import subprocess
import sys
import tempfile
import time

VERIF = os.path.dirname(os.path.dirname(os.path.dirname(os.path.abspath(__file__))))
REPO = os.environ.get("VERIF_REPO", "/repo")
LEAN = os.path.join(VERIF, "lean")
HARNESS = os.path.join(VERIF, "harness")
DRIVER = os.path.join(LEAN, ".lake", "build", "bin", "driver")
GUARD = "MORFUSE_VERIF"
ALLOWED_AXIOMS = {"propext", "Classical.choice", "Quot.sound"}
FORBIDDEN = [r"\bsorry\b", r"\badmit\b", r"^\s*axiom\s", r"\bnative_decide\b", r"\bbv_decide\b",
             r"\bimplemented_by\b", r"\bunsafe\s", r"maxHeartbeats\s+0\b", r"\bextern\b"]

SAN_FLAGS = ["-fsanitize=address", "-fsanitize=null,bounds,integer-divide-by-zero,return,unreachable",
             "-fno-sanitize-recover=all", "-fno-omit-frame-pointer"]
CXX_BASE = ["g++", "-std=gnu++17", "-O1", "-g", "-DNDEBUG", "-D" + GUARD, "-Wno-error", "-w",
            "-fno-access-control"]
ASAN_ENV = {"ASAN_OPTIONS": "detect_leaks=0:abort_on_error=0:exitcode=99:allocator_may_return_null=1",
            "UBSAN_OPTIONS": "print_stacktrace=1:halt_on_error=1:exitcode=98"}


class CheckError(Exception):
    """the machinery itself failed (not a verdict about the property)"""


def log(msg):
    print(msg, flush=True)


def sh(cmd, cwd=None, env=None, timeout=3600, input_=None, check=False):
    e = dict(os.environ)
    if env:
        e.update(env)
    p = subprocess.run(cmd, cwd=cwd, env=e, input=input_, stdout=subprocess.PIPE,
                       stderr=subprocess.PIPE, timeout=timeout, text=True, errors="replace")
    if check and p.returncode != 0:
        raise CheckError("command failed (%d): %s\n%s\n%s" % (p.returncode, " ".join(cmd) if isinstance(cmd, list) else cmd,
                                                               p.stdout[-4000:], p.stderr[-4000:]))
    return p


# --------------------------------------------------------------------------------------------
# context

class Ctx:
    def __init__(self, prop_id, tier, seed):
        self.prop_id = prop_id
        self.tier = tier
        self.seed = seed
        self.t0 = time.time()
        self.tmp = tempfile.mkdtemp(prefix="mfv.%s." % prop_id)
        self.stats = {}
        self.samples = []
        self.notes = []
        self.obligations = []     # (name, ok, detail)
        self.violations = []      # dicts
        self.known = []           # printed KNOWN-FINDING lines
        self.reported_obligations = set()

    def rng(self, salt=""):
        h = hashlib.sha256(("%s/%s/%s" % (self.prop_id, self.seed, salt)).encode()).digest()
        return random.Random(int.from_bytes(h[:8], "big"))

    def cleanup(self):
        shutil.rmtree(self.tmp, ignore_errors=True)

    def oblige(self, name, ok, detail="", reported=False):
        """reported=True: a failure of this obligation is already represented by entries in
        ctx.violations (e.g. the correspondence obligation, whose failing cases carry replays)"""
        self.obligations.append((name, bool(ok), detail))
        if reported and not ok:
            self.reported_obligations.add(name)


# --------------------------------------------------------------------------------------------
# Lean side

class LakeLock:
    def __enter__(self):
        self.f = open(os.path.join(LEAN, ".lake.verif.lock"), "w")
        fcntl.flock(self.f, fcntl.LOCK_EX)
        return self

    def __exit__(self, *a):
        fcntl.flock(self.f, fcntl.LOCK_UN)
        self.f.close()


def write_if_changed(path, text):
    try:
        if open(path).read() == text:
            return False
    except FileNotFoundError:
        pass
    os.makedirs(os.path.dirname(path), exist_ok=True)
    with open(path + ".tmp", "w") as f:
        f.write(text)
    os.replace(path + ".tmp", path)
    return True


def lake_build(targets=None):
    """returns (ok, output).  Builds the library and the driver."""
    with LakeLock():
        p = sh(["lake", "build"] + (targets or []), cwd=LEAN, timeout=3600)
    return p.returncode == 0, p.stdout + p.stderr


def strip_lean_comments(src):
    out, i, depth = [], 0, 0
    while i < len(src):
        if src.startswith("/-", i):
            depth += 1
            i += 2
        elif depth and src.startswith("-/", i):
            depth -= 1
            i += 2
        elif depth:
            if src[i] == "\n":
                out.append("\n")
            i += 1
        elif src.startswith("--", i):
            while i < len(src) and src[i] != "\n":
                i += 1
        else:
            out.append(src[i])
            i += 1
    return "".join(out)


def forbidden_token_scan():
    """grep (comments and string-free heuristics ignored) for proof escapes in every .lean file"""
    hits = []
    for root, _, files in os.walk(LEAN):
        if ".lake" in root:
            continue
        for fn in files:
            if not fn.endswith(".lean"):
                continue
            path = os.path.join(root, fn)
            code = strip_lean_comments(open(path).read())
            for ln, line in enumerate(code.split("\n"), 1):
                for pat in FORBIDDEN:
                    if re.search(pat, line):
                        hits.append("%s:%d: %s" % (os.path.relpath(path, VERIF), ln, line.strip()[:120]))
    return hits


def theorems_in(props_file):
    """fully qualified names of every theorem declared in a Props file"""
    src = strip_lean_comments(open(props_file).read())
    ns = []
    names = []
    for line in src.split("\n"):
        m = re.match(r"\s*namespace\s+(\S+)", line)
        if m:
            ns.append(m.group(1))
            continue
        m = re.match(r"\s*end\s+(\S+)", line)
        if m and ns and ns[-1] == m.group(1):
            ns.pop()
            continue
        m = re.match(r"\s*(?:private\s+|protected\s+)?theorem\s+(\S+)", line)
        if m:
            names.append(".".join(ns + [m.group(1)]))
    return names


def axiom_audit(ctx, module, names):
    """#print axioms for every name; returns {name: [axioms]}"""
    path = os.path.join(ctx.tmp, "Audit.lean")
    with open(path, "w") as f:
        f.write("import %s\n" % module)
        for n in names:
            f.write("#print axioms %s\n" % n)
    with LakeLock():
        p = sh(["lake", "env", "lean", path], cwd=LEAN, timeout=1800)
    out = p.stdout + p.stderr
    if p.returncode != 0:
        raise CheckError("axiom audit failed to run:\n" + out[-3000:])
    res = {}
    # "'X' depends on axioms: [a, b]"  or "'X' does not depend on any axioms"
    for m in re.finditer(r"'([^']+)' (does not depend on any axioms|depends on axioms: \[([^\]]*)\])", out, re.S):
        name = m.group(1)
        axs = [a.strip() for a in (m.group(3) or "").replace("\n", " ").split(",") if a.strip()]
        res[name] = axs
    return res


def proof_side(ctx, props_module, props_file, extra_names=()):
    """build + scan + audit.  Records obligations; returns True when every theorem checks."""
    ok, out = lake_build()
    ctx.stats["lake_build_ok"] = ok
    if not ok:
        ctx.oblige("lake build", False, out[-3000:])
        return False, out
    ctx.oblige("lake build", True)
    hits = forbidden_token_scan()
    ctx.oblige("no sorry/admit/axiom/native_decide/bv_decide/implemented_by/unsafe in any .lean", not hits,
               "; ".join(hits[:10]))
    names = theorems_in(props_file) + list(extra_names)
    if not names:
        raise CheckError("no theorems found in " + props_file)
    audit = axiom_audit(ctx, props_module, names)
    allok = not hits
    for n in names:
        axs = audit.get(n)
        if axs is None:
            ctx.oblige("theorem " + n, False, "not found by #print axioms")
            allok = False
            continue
        bad = [a for a in axs if a not in ALLOWED_AXIOMS]
        ctx.oblige("theorem " + n, not bad, "axioms: " + ", ".join(axs) if axs else "no axioms")
        if bad:
            allok = False
    ctx.stats["theorems"] = names
    return allok, out


XLINKS_MODULE = "MorfuseModel.Props.XLinks"
XLINKS_FILE = os.path.join(LEAN, "MorfuseModel", "Props", "XLinks.lean")


def audit_more(ctx, module, props_file, build_out="", what=""):
    """audit the theorems of a further Props file that several properties share (Props/XLinks.lean: the
    cross-model agreement between Lang.Value (C03), VMOps (C04) and the kind-code tables).  Call after
    proof_side: every theorem of the file becomes an obligation of the calling property as well, so an edit
    to one model that breaks the agreement fails the checks of all properties that stand on it."""
    names = theorems_in(props_file)
    if not names:
        raise CheckError("no theorems found in " + props_file)
    if not ctx.stats.get("lake_build_ok"):
        # the build failure itself is recorded by proof_side; say whether this file is where it stopped
        rel = os.path.relpath(props_file, LEAN)
        stem = os.path.basename(props_file)[:-5]
        if rel in build_out or ("MorfuseModel/%s/" % stem) in build_out:
            ctx.oblige("theorems of %s%s" % (rel, what and " (" + what + ")"), False,
                       " | ".join(l.strip() for l in build_out.split("\n") if l.startswith("error:") and stem in l)[:1500])
        return False
    audit = axiom_audit(ctx, module, names)
    allok = True
    for n in names:
        axs = audit.get(n)
        if axs is None:
            ctx.oblige("theorem " + n, False, "not found by #print axioms")
            allok = False
            continue
        bad = [a for a in axs if a not in ALLOWED_AXIOMS]
        ctx.oblige("theorem " + n, not bad, "axioms: " + ", ".join(axs) if axs else "no axioms")
        if bad:
            allok = False
    ctx.stats["theorems"] = list(ctx.stats.get("theorems", [])) + names
    return allok


def leanchecker(ctx, module):
    with LakeLock():
        p = sh(["lake", "env", "leanchecker", module], cwd=LEAN, timeout=3600)
    ok = p.returncode == 0
    ctx.oblige("leanchecker " + module, ok, (p.stdout + p.stderr)[-500:])
    return ok


# --------------------------------------------------------------------------------------------
# C++ side

def build_light(ctx, name, sources, repo_sources, sanitize=True, extra=()):
    """compile a harness from a handful of repo translation units (header-mostly areas)"""
    exe = os.path.join(ctx.tmp, name)
    cmd = CXX_BASE + (SAN_FLAGS if sanitize else []) + list(extra) + [
        "-I" + os.path.join(REPO, "include"), "-I" + os.path.join(REPO, "src"), "-I" + HARNESS]
    cmd += [os.path.join(HARNESS, s) for s in sources]
    cmd += [os.path.join(REPO, s) for s in repo_sources]
    cmd += ["-o", exe, "-lpthread"]
    t = time.time()
    p = sh(cmd, timeout=1800)
    ctx.stats["harness_build_s"] = round(time.time() - t, 1)
    if p.returncode != 0:
        raise CheckError("harness build failed:\n" + (p.stdout + p.stderr)[-6000:])
    return exe


def build_lib(ctx, sanitize=True, tsan=False):
    """build every object of libmorfuse from /repo's working tree once per check (cmake+ninja, LTO off)"""
    key = "tsan" if tsan else ("san" if sanitize else "plain")
    cache = getattr(ctx, "_libs", None)
    if cache is None:
        cache = ctx._libs = {}
    if key in cache:
        return cache[key]
    b = os.path.join(ctx.tmp, "b_" + key)
    flags = ["-D" + GUARD, "-Wno-error", "-w", "-O1", "-g", "-DNDEBUG", "-fno-omit-frame-pointer"]
    if tsan:
        flags += ["-fsanitize=thread"]
    elif sanitize:
        flags += SAN_FLAGS
    t = time.time()
    p = sh(["cmake", "-G", "Ninja", "-S", REPO, "-B", b, "-DCMAKE_BUILD_TYPE=RelWithDebInfo",
            "-DDISABLE_LINK_OPTIMIZATION=ON", "-DCMAKE_CXX_FLAGS=" + " ".join(flags)], timeout=600)
    if p.returncode != 0:
        raise CheckError("cmake configure failed:\n" + (p.stdout + p.stderr)[-4000:])
    p = sh(["cmake", "--build", b, "-j16", "--target", "morfuse"], timeout=3600)
    if p.returncode != 0:
        raise CheckError("library build failed:\n" + (p.stdout + p.stderr)[-6000:])
    objs = []
    for root, _, files in os.walk(os.path.join(b, "src", "CMakeFiles", "morfuse.dir")):
        objs += [os.path.join(root, f) for f in files if f.endswith(".o")]
    if not objs:
        raise CheckError("no object files found under " + b)
    ctx.stats["lib_build_s"] = round(time.time() - t, 1)
    ctx.libobjs = objs
    ctx.libbuild = b
    cache[key] = (b, objs)
    return cache[key]


def build_full(ctx, name, sources, sanitize=True, extra=(), tsan=False):
    """link a harness against the object files of the whole library (the .so hides most symbols)"""
    b, objs = build_lib(ctx, sanitize=sanitize, tsan=tsan)
    t = time.time()
    exe = os.path.join(ctx.tmp, name)
    cmd = CXX_BASE + (["-fsanitize=thread"] if tsan else (SAN_FLAGS if sanitize else [])) + list(extra) + [
        "-I" + os.path.join(REPO, "include"), "-I" + os.path.join(REPO, "src"),
        "-I" + os.path.join(b, "src", "generated"), "-I" + HARNESS]
    cmd += [os.path.join(HARNESS, s) for s in sources] + objs + ["-o", exe, "-lpthread"]
    p = sh(cmd, timeout=1800)
    ctx.stats["harness_build_s"] = round(time.time() - t, 1)
    if p.returncode != 0:
        raise CheckError("harness link failed:\n" + (p.stdout + p.stderr)[-6000:])
    return exe


def crash_signature(stderr):
    """kind + first frame inside morfuse (not the sanitizer runtime, libc or the harness main)"""
    kind = "crash"
    m = re.search(r"ERROR: AddressSanitizer: ([\w-]+)", stderr)
    if m:
        kind = "asan:" + m.group(1)
    else:
        m = re.search(r"runtime error: ([^\n]+)", stderr)
        if m:
            kind = "ubsan:" + re.sub(r"0x[0-9a-f]+|\d+", "N", m.group(1))[:60]
    frame = ""
    for m in re.finditer(r"#\d+ 0x[0-9a-f]+ in (.+?) (/[^\s:]+)(?::(\d+))?", stderr):
        fn, path = m.group(1), m.group(2)
        if "/repo/" in path or path.startswith(REPO):
            frame = re.sub(r"\(.*", "", fn)
            break
    return kind + ("@" + frame if frame else "")


def run_lines(exe, args, lines, timeout=120, env=None):
    """returns (out_lines, crashed, info).  crashed is None or a signature string."""
    e = dict(ASAN_ENV)
    if env:
        e.update(env)
    try:
        p = sh([exe] + list(args), input_="\n".join(lines) + "\n", env=e, timeout=timeout)
    except subprocess.TimeoutExpired:
        return [], "timeout", "timeout after %ds" % timeout
    out = p.stdout.split("\n")
    if out and out[-1] == "":
        out.pop()
    if p.returncode != 0:
        sig = crash_signature(p.stderr) if p.returncode in (98, 99) or p.returncode < 0 else "exit%d" % p.returncode
        if p.returncode < 0:
            sig = "signal%d" % (-p.returncode) + ("@" + sig.split("@", 1)[1] if "@" in sig else "")
        return out, sig, p.stderr[-6000:]
    return out, None, p.stderr[-2000:]


def run_model(area, lines, timeout=600):
    if not os.path.exists(DRIVER):
        raise CheckError("driver not built: " + DRIVER)
    p = sh([DRIVER, area], input_="\n".join(lines) + "\n", timeout=timeout)
    if p.returncode != 0:
        raise CheckError("model driver failed: " + (p.stdout + p.stderr)[-2000:])
    out = p.stdout.split("\n")
    if out and out[-1] == "":
        out.pop()
    return out


# --------------------------------------------------------------------------------------------
# differential engine

def first_diff(a, b):
    n = min(len(a), len(b))
    for i in range(n):
        if a[i] != b[i]:
            return i
    return None if len(a) == len(b) else n


def ddmin(items, fails, max_tests=120):
    """classic delta debugging; `fails(list) -> bool`"""
    tests = [0]

    def f(x):
        tests[0] += 1
        return fails(x)
    n = 2
    cur = list(items)
    while len(cur) >= 2 and tests[0] < max_tests:
        chunk = max(1, len(cur) // n)
        subsets = [cur[i:i + chunk] for i in range(0, len(cur), chunk)]
        reduced = False
        for i in range(len(subsets)):
            comp = [x for j, s in enumerate(subsets) if j != i for x in s]
            if comp and f(comp):
                cur = comp
                n = max(n - 1, 2)
                reduced = True
                break
        if not reduced:
            if n >= len(cur):
                break
            n = min(len(cur), n * 2)
    return cur


class Diff:
    """Runs cases (each a list of op lines starting with its own reset/header line) through both
    sides.  Cases are batched; a mismatch or crash is isolated to its case, shrunk and classified."""

    def __init__(self, ctx, prop, exe, area, harness_args=()):
        self.ctx, self.prop, self.exe, self.area, self.hargs = ctx, prop, exe, area, list(harness_args)
        self.cases = 0
        self.lines = 0
        self.hist = {}
        self.outkinds = {}
        self.distinct = set()
        self.reports = 0
        self.harmless_reports = 0
        self.max_reports = 3
        self.failing_cases = 0
        self.skipped = 0
        self.line_monitor = None      # optional: property predicate on each implementation line
        self.monitor_lines = 0
        self.base_timeout = 10
        self.max_continuations = 400
        self.cont_budget_s = 90 if ctx.tier == "quick" else 600
        self.fail_budget_s = 240 if ctx.tier == "quick" else 1200   # wall time allowed for isolating + shrinking failures
        self.fail_spent = 0.0

    def _any_report(self):
        # the time budget for isolating/shrinking failures applies as soon as ANY difference has been
        # reported (a harmless-looking one included): the verdict is then at least
        # `no-failing-input-found`, and an unbounded search would make a run on a broken tree endless
        return self.reports > 0 or self.harmless_reports > 0

    def both(self, lines):
        impl, crash, info = run_lines(self.exe, self.hargs, lines, timeout=self.base_timeout + len(lines) // 1000)
        model = run_model(self.area, lines)
        return impl, crash, info, model

    def differs(self, lines):
        impl, crash, info, model = self.both(lines)
        if crash is None and self.line_monitor and any(self.line_monitor(l) for l in impl):
            return True
        return crash is not None or first_diff(impl, model) is not None

    def account(self, case, model_out):
        self.cases += 1
        self.lines += len(case)
        for l in case:
            k = l.split(" ", 1)[0]
            self.hist[k] = self.hist.get(k, 0) + 1
        for o in model_out:
            k = o.split(" ", 1)[0]
            self.outkinds[k] = self.outkinds.get(k, 0) + 1
        if any(o != "bad-op" and o != "ok" for o in model_out):
            self.distinct.add(hashlib.sha1("\n".join(case).encode()).hexdigest())

    def run_batch(self, named_cases):
        """named_cases: list of (name, lines).  Returns number of failing cases."""
        if not named_cases:
            return 0
        if self.reports >= self.max_reports or (self._any_report() and self.fail_spent > self.fail_budget_s):
            self.skipped += len(named_cases)     # enough replays exist; the verdict is already VIOLATION
            return 0
        allines = [l for _, c in named_cases for l in c]
        impl, crash, info, model = self.both(allines)
        if len(model) != len(allines):
            raise CheckError("model driver produced %d lines for %d inputs" % (len(model), len(allines)))
        bad = 0
        monitor_hit = False
        if self.line_monitor and crash is None:
            self.monitor_lines += len(impl)
            monitor_hit = any(self.line_monitor(l) for l in impl)
        if crash is None and first_diff(impl, model) is None and not monitor_hit:
            pos = 0
            for name, c in named_cases:
                self.account(c, model[pos:pos + len(c)])
                pos += len(c)
            return 0
        if self.reports >= self.max_reports or (self._any_report() and self.fail_spent > self.fail_budget_s):
            self.failing_cases += 1      # at least one more; not isolated (enough replays exist)
            return 1
        t_fail = time.time()
        # isolate: run every case alone (cases are self-contained)
        for name, c in named_cases:
            if self.reports >= self.max_reports or (self._any_report() and
                                                     self.fail_spent + time.time() - t_fail > self.fail_budget_s):
                break
            impl, crash, info, model = self.both(c)
            self.account(c, model)
            if crash is None and first_diff(impl, model) is None and not (
                    self.line_monitor and any(self.line_monitor(l) for l in impl)):
                continue
            bad += 1
            self.failing_cases += 1
            verdict = self.report(name, c)
            # differences that do not violate the property itself are kept (at most two) but do not
            # end the search: a later case may show the property failing on a concrete input
            if verdict == "violation" or crash is not None:
                self.reports += 1
            else:
                self.harmless_reports += 1
                if self.harmless_reports > 2:
                    self.ctx.violations.pop()
        self.fail_spent += time.time() - t_fail
        return bad

    def report(self, name, case):
        ctx = self.ctx
        head, body = case[:1], case[1:]
        saved = self.base_timeout
        self.base_timeout = 4
        # shrink only towards inputs that fail in the same way (same signature), so that the replay
        # shows the failure that was found and not an unrelated difference of a mangled input
        impl0, crash0, _, model0 = self.both(case)
        sig0 = crash0 if crash0 else self.prop.classify(case, impl0, crash0, model0)[2]

        def same_failure(lines):
            impl, crash, info, model = self.both(lines)
            if crash is None and first_diff(impl, model) is None and not (
                    self.line_monitor and any(self.line_monitor(l) for l in impl)):
                return False
            sig = crash if crash else self.prop.classify(lines, impl, crash, model)[2]
            return sig == sig0
        try:
            small = head + ddmin(body, lambda b: same_failure(head + b)) if len(body) > 1 else case
        finally:
            self.base_timeout = saved
        impl, crash, info, model = self.both(small)
        verdict, why, sig = self.prop.classify(small, impl, crash, model)
        if crash is not None:
            sig = crash
        if verdict != "violation" and crash is None and hasattr(self.prop, "continuations"):
            # the difference found is one of representation only (the theorems no longer speak about this
            # code, but no clause of the property fails on this input): look for a continuation of the
            # shrunk history on which a clause of the property itself fails on the real code
            t0, tried, found = time.time(), 0, None
            saved2, self.base_timeout = self.base_timeout, 6
            try:
                for cont in self.prop.continuations(small, ctx.rng("cont:" + name)):
                    tried += 1
                    if tried > self.max_continuations or time.time() - t0 > self.cont_budget_s:
                        break
                    i2, c2, n2, m2 = self.both(small + cont)
                    v2, w2, s2 = self.prop.classify(small + cont, i2, c2, m2)
                    if c2 is not None or v2 == "violation":
                        found = (small + cont, i2, c2, n2, m2, v2, w2, c2 if c2 else s2)
                        break
            finally:
                self.base_timeout = saved2
            ctx.stats["continuations_tried"] = ctx.stats.get("continuations_tried", 0) + tried
            if found:
                small, impl, crash, info, model, verdict, why, sig = found
                name = name + "+continuation"
                if crash is not None:
                    verdict = "violation"
        replay = save_replay(ctx, {
            "property": ctx.prop_id, "kind": "correspondence", "case": name, "area": self.area,
            "lines": small, "impl_out": impl, "model_out": model, "crash": crash,
            "crash_info": info if crash else "", "verdict": verdict, "why": why, "signature": sig,
            "how_to_replay": "python3 tools/check.py %s --replay <this file>" % ctx.prop_id,
        })
        ctx.violations.append({"signature": sig, "replay": replay, "why": why,
                               "found_input": verdict == "violation"})
        return verdict


def save_replay(ctx, obj):
    d = os.path.join(VERIF, "replays", ctx.prop_id)
    os.makedirs(d, exist_ok=True)
    body = json.dumps(obj, indent=1, sort_keys=True)
    name = hashlib.sha1(body.encode()).hexdigest()[:12] + ".json"
    path = os.path.join(d, name)
    with open(path, "w") as f:
        f.write(body + "\n")
    return path


# --------------------------------------------------------------------------------------------
# known findings, verdict, evidence

def load_known(prop_id):
    path = os.path.join(VERIF, "known_findings.json")
    try:
        data = json.load(open(path))
    except FileNotFoundError:
        return []
    return [e for e in data.get("findings", []) if e.get("property") == prop_id and e.get("status") == "known"]


def finish(ctx, level, coverage_extra, trusted_base, assumptions, checker_cmd):
    known = load_known(ctx.prop_id)
    unlisted = []
    seen_known = {}
    for v in ctx.violations:
        hit = None
        for k in known:
            if re.fullmatch(k["signature"], v["signature"] or ""):
                hit = k
                break
        if hit:
            seen_known.setdefault(hit["signature"], hit)
        else:
            unlisted.append(v)
    for k in seen_known.values():
        log("KNOWN-FINDING: property=%s %s" % (ctx.prop_id, k["what"]))
    failed_obl = [o for o in ctx.obligations if not o[1]]
    # a failed proof obligation with no concrete failing input found
    for name, ok, detail in failed_obl:
        if name in ctx.reported_obligations and ctx.violations:
            continue
        if not any(v.get("obligation") == name for v in ctx.violations):
            replay = save_replay(ctx, {"property": ctx.prop_id, "kind": "proof-obligation",
                                       "obligation": name, "detail": detail,
                                       "note": "this theorem / table obligation / audit no longer checks"})
            unlisted.append({"signature": "obligation:" + name, "replay": replay, "found_input": False,
                             "why": detail})
    seen = set()
    for v in unlisted:
        key = (v["signature"], v["found_input"])
        if key in seen:
            continue
        seen.add(key)
        log("VIOLATION property=%s replay=%s%s" % (ctx.prop_id, v["replay"],
                                                   "" if v["found_input"] else " no-failing-input-found"))
    if not unlisted and seen_known:
        # every difference this run met is a listed known finding: the correspondence obligations that failed only
        # because of them count as discharged *except for* those findings, which the evidence names
        sigs = ", ".join(sorted(seen_known))
        ctx.obligations = [(n + " [except the listed known finding(s): " + sigs + "]", True, d)
                           if (not ok and n in ctx.reported_obligations) else (n, ok, d)
                           for n, ok, d in ctx.obligations]
    nobl = len(ctx.obligations)
    ndis = len([o for o in ctx.obligations if o[1]])
    cov = {
        "obligations": nobl,
        "discharged": ndis,
        "checker_cmd": checker_cmd,
        "trusted_base": trusted_base,
        "samples": ctx.samples[:8],
        "obligation_list": [{"name": n, "ok": ok, "detail": d[:300]} for n, ok, d in ctx.obligations],
    }
    cov.update(coverage_extra)
    ev = {
        "property_id": ctx.prop_id,
        "tier": ctx.tier,
        "seed": ctx.seed,
        "level": level,
        "coverage": cov,
        "assumptions": assumptions,
        "wall_s": round(time.time() - ctx.t0, 1),
        "violations": len(unlisted),
        "known_findings_seen": [k["what"] for k in seen_known.values()],
        "stats": ctx.stats,
        "notes": ctx.notes,
    }
    os.makedirs(os.path.join(VERIF, "evidence"), exist_ok=True)
    with open(os.path.join(VERIF, "evidence", ctx.prop_id + ".json"), "w") as f:
        json.dump(ev, f, indent=1, sort_keys=True)
        f.write("\n")
    return 1 if unlisted else 0
