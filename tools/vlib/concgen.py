"""C20 translator (T): what the source and the freshly built object files say about shared state.

(i)  `lock_table(repo)`  — for every method of `BlockAllocSafe` (and every public method it inherits
     from `BlockAlloc` without overriding it): which lock it takes on `BlockAllocSafe::mutex`
     (`std::shared_lock` -> shared, `std::unique_lock`/`std::lock_guard`/`std::scoped_lock`/
     `mutex.lock()` -> exclusive, nothing -> none), which `super::` method it wraps, whether that
     method (transitively, inside `BlockAlloc`) writes pool state, and whether the method is reachable
     through the only facade the engine instantiates (`BlockAllocSafe_set`).
(ii) `inventory(objs)`   — every writable object with static storage duration defined in the object
     files (`nm --defined-only`: sections b B d D, unique `u`, weak objects `V`; minus vtables,
     typeinfo, guard variables, DW.ref; `readelf -sW` type TLS separates thread-local storage),
     joined with the reviewed classification `tools/vlib/conc_globals.json`.
`render(...)` writes lean/MorfuseModel/Gen/ConcGen.lean (data only; the obligations over it are
compiled one by one by tools/props/c20.py so that each failure is reported separately and a failing
table never breaks the library build of the other properties)."""
import json
import os
import re
import subprocess

HERE = os.path.dirname(os.path.abspath(__file__))
CLASS_FILE = os.path.join(HERE, "conc_globals.json")

# classes of the reviewed file -> constructor names of `Morfuse.Conc.GClass`
CLASSES = {
    "thread_local": "threadLocal",       # TLS storage: one object per OS thread
    "init_only": "initOnly",             # written only during static initialisation (before main) or inside a
                                         # one-time guarded initialisation (C++11 magic static); read-only afterwards
    "guarded": "guarded",                # every access under mutex M (field "mutex"), writers exclusive — checked by table (i)
    "read_only": "readOnly",             # never written after its constant/dynamic initialiser, although in a writable section
    "unsafe": "racy",                    # written after initialisation by code a context can run, no synchronisation
}


# ------------------------------------------------------------------------------------------------
# (i) lock table

def _strip_comments(src):
    src = re.sub(r"/\*.*?\*/", lambda m: "\n" * m.group(0).count("\n"), src, flags=re.S)
    return re.sub(r"//[^\n]*", "", src)


def _release_branch(body):
    """keep the `#else` part of `#if _DEBUG_MEMBLOCK … #else … #endif` (the shipped configuration),
    drop MORFUSE_VERIF blocks (hooks; add-only, no pool state)"""
    out, stack = [], []
    for line in body.split("\n"):
        s = line.strip()
        if s.startswith("#if"):
            cond = s
            if re.match(r"#if\s+_DEBUG_MEMBLOCK", cond):
                stack.append(["dbg", False])       # active = False while in the debug part
            elif re.match(r"#if\s+!\s*_DEBUG_MEMBLOCK", cond):
                stack.append(["dbg", True])
            elif "MORFUSE_VERIF" in cond:
                stack.append(["verif", False])
            else:
                stack.append(["other", True])
            continue
        if s.startswith("#else"):
            if stack and stack[-1][0] in ("dbg",):
                stack[-1][1] = not stack[-1][1]
            continue
        if s.startswith("#endif"):
            if stack:
                stack.pop()
            continue
        if all(a for _, a in stack):
            out.append(line)
    return "\n".join(out)


def _method_bodies(src, cls):
    """{method: body} for out-of-class definitions `… cls<…>::name(…) … { … }`"""
    res = {}
    for m in re.finditer(r"\b%s\s*<[^>{};]*>\s*::\s*(~?\w+)\s*\(([^)]*)\)\s*(?:const\s*)?(?:noexcept\s*)?(?::[^{]*)?\{" % re.escape(cls), src):
        name = m.group(1)
        i = m.end()
        depth = 1
        while i < len(src) and depth:
            if src[i] == "{":
                depth += 1
            elif src[i] == "}":
                depth -= 1
            i += 1
        key = name if not m.group(2).strip() or name not in res else name + "#" + str(len(res))
        if name in res:
            key = "%s(%s)" % (name, re.sub(r"\s+", " ", m.group(2).strip()))
        res[key] = _release_branch(src[m.end():i - 1])
    return res


WRITE_PATTERNS = [
    r"\bm_\w+\s*(?:\+\+|--)", r"(?:\+\+|--)\s*m_\w+", r"\bm_\w+\s*=[^=]",
    r"\bm_\w+\s*\.\s*(?:AddFirst|AddLast|Remove|SetRoot|Reset|Clear)\s*\(",
    r"->\s*\w+\s*(?:\[[^\]]*\])?\s*=[^=]", r"\bMEM::(?:Free|Alloc)\s*\(", r"->\s*~\w+\s*\(",
]


def lock_table(repo):
    path = os.path.join(repo, "include", "morfuse", "Common", "MEM", "BlockAlloc.h")
    raw = open(path, errors="replace").read()
    src = _strip_comments(raw)
    base = _method_bodies(src, "BlockAlloc")
    safe = _method_bodies(src, "BlockAllocSafe")
    facade = _method_bodies(src, "BlockAllocSafe_set")
    problems = []
    if not safe:
        problems.append("no BlockAllocSafe<...>::method definitions found in BlockAlloc.h")
    # which BlockAlloc methods write pool state (transitively through calls to sibling methods)
    names = [k for k in base if "(" not in k]
    direct = {}
    calls = {}
    for k, body in base.items():
        direct[k] = any(re.search(p, body) for p in WRITE_PATTERNS)
        calls[k] = set(n for n in names if n != k.split("(")[0] and re.search(r"(?<![\w:.>])%s\s*\(" % re.escape(n), body))
    writes = dict(direct)
    changed = True
    while changed:
        changed = False
        for k in base:
            if not writes[k] and any(writes.get(c) for c in calls[k]):
                writes[k] = True
                changed = True
    # public interface of BlockAlloc (what BlockAllocSafe inherits)
    m = re.search(r"class\s+BlockAlloc\s*\{(.*?)\n    \};", src, re.S)
    public = []
    if m:
        sect = "private"
        for line in m.group(1).split("\n"):
            s = line.strip()
            if s in ("public:", "private:", "protected:"):
                sect = s[:-1]
                continue
            d = re.match(r"[\w:<>\s\*&]+?\b(\w+)\s*\([^)]*\)\s*(?:const\s*)?(?:noexcept\s*)?;", s)
            if d and sect == "public" and d.group(1) != "BlockAlloc":
                public.append(d.group(1))
    else:
        problems.append("class BlockAlloc declaration not found")
    # the mutex type
    mt = re.search(r"class\s+BlockAllocSafe\b.*?\{(.*?)\n    \};", src, re.S)
    mutex_type = None
    if mt:
        mm = re.search(r"std::(\w+)\s+mutex\s*;", mt.group(1))
        mutex_type = mm.group(1) if mm else None
    if mutex_type not in ("shared_mutex", "mutex", "recursive_mutex", "shared_timed_mutex"):
        problems.append("BlockAllocSafe::mutex has unrecognised type %r" % mutex_type)
    # methods the facade calls on the static allocator
    reachable = set()
    for k, body in facade.items():
        for c in re.finditer(r"\ballocator\s*\.\s*(\w+)\s*\(", body):
            reachable.add(c.group(1))
    rows = []
    for name in sorted(set(list(safe) + public)):
        if name in ("BlockAllocSafe", "~BlockAllocSafe"):
            continue
        if name in safe:
            body = safe[name]
            if re.search(r"std::shared_lock\s*<[^>]*>\s*\w+\s*\(\s*mutex\s*\)", body) or re.search(r"\bmutex\s*\.\s*lock_shared\s*\(", body):
                lock = "shared"
            elif (re.search(r"std::(?:unique_lock|lock_guard|scoped_lock)\s*(?:<[^>]*>)?\s*\w+\s*[({]\s*mutex\s*[)}]", body)
                  or re.search(r"\bmutex\s*\.\s*lock\s*\(", body)):
                lock = "exclusive"
            else:
                lock = "none"
            # a manual lock()/unlock() pair must bracket the wrapped call
            if re.search(r"\bmutex\s*\.\s*lock\s*\(", body):
                a, b2 = body.find("mutex.lock"), body.find("mutex.unlock")
                sup = body.find("super::")
                if not (0 <= a < sup < b2):
                    problems.append("%s: manual lock()/unlock() does not bracket the super:: call" % name)
            w = re.findall(r"\bsuper::(\w+)\s*\(", body)
            wrapped = w[0] if w else None
            if wrapped is None or len(set(w)) != 1:
                problems.append("%s: expected exactly one wrapped super:: method, found %s" % (name, w))
            wr = bool(writes.get(wrapped, True))
            rows.append({"method": name, "lock": lock, "wraps": wrapped or "?", "writes": wr,
                         "reachable": name in reachable, "overridden": True})
        else:
            # inherited as is: no lock at all
            rows.append({"method": name, "lock": "none", "wraps": name, "writes": bool(writes.get(name, True)),
                         "reachable": name in reachable, "overridden": False})
    # other users of BlockAllocSafe (instances not behind the facade would expose the unlocked inherited methods)
    users = []
    for root in ("include", "src"):
        for dp, _, files in os.walk(os.path.join(repo, root)):
            for fn in files:
                if not fn.endswith((".h", ".cpp", ".hpp", ".inl")):
                    continue
                p = os.path.join(dp, fn)
                txt = _strip_comments(open(p, errors="replace").read())
                if p.endswith(os.path.join("MEM", "BlockAlloc.h")):
                    continue
                for mm in re.finditer(r"\bBlockAllocSafe\s*<", txt):
                    users.append("%s:%d" % (os.path.relpath(p, repo), txt.count("\n", 0, mm.start()) + 1))
    # other mutexes anywhere in the engine (a new one must be added to this translator)
    other = []
    for root in ("include", "src"):
        for dp, _, files in os.walk(os.path.join(repo, root)):
            for fn in files:
                if not fn.endswith((".h", ".cpp", ".hpp", ".inl")):
                    continue
                p = os.path.join(dp, fn)
                if p.endswith(os.path.join("MEM", "BlockAlloc.h")):
                    continue
                txt = _strip_comments(open(p, errors="replace").read())
                for mm in re.finditer(r"std::(?:shared_mutex|mutex|recursive_mutex|shared_timed_mutex|atomic\w*|call_once|once_flag|condition_variable)\b", txt):
                    other.append("%s:%d:%s" % (os.path.relpath(p, repo), txt.count("\n", 0, mm.start()) + 1, mm.group(0)))
    return {"rows": rows, "mutex_type": mutex_type, "facade_calls": sorted(reachable), "direct_users": users,
            "other_sync": other, "problems": problems,
            "base_writes": {k: v for k, v in sorted(writes.items())}}


# ------------------------------------------------------------------------------------------------
# (ii) inventory of writable objects with static storage duration

SKIP = re.compile(r"^(vtable for|typeinfo for|typeinfo name for|guard variable for|VTT for|construction vtable for|"
                  r"DW\.ref\.|__tsan|__asan|__odr_asan|__ubsan|\.L|_ZTV|_ZTI|_ZTS|_ZGV|TLS init function|TLS wrapper)")


def inventory(objs, build_root=None):
    """returns sorted list of {name, obj, section, tls, size}; one entry per (demangled name, object
    file) for internal-linkage symbols, one per name for external/unique/weak ones"""
    entries = {}
    guards = set()
    mangled_all = []
    per_obj = []
    for o in sorted(objs):
        p = subprocess.run(["nm", "--defined-only", "-S", o], stdout=subprocess.PIPE, stderr=subprocess.PIPE, text=True)
        tls = set()
        q = subprocess.run(["readelf", "-sW", o], stdout=subprocess.PIPE, stderr=subprocess.PIPE, text=True)
        for line in q.stdout.split("\n"):
            t = line.split()
            if len(t) >= 8 and t[3] == "TLS" and t[6] != "UND":
                tls.add(t[7])
        rows = []
        for line in p.stdout.split("\n"):
            t = line.split()
            if len(t) == 4:
                _, size, sec, name = t
            elif len(t) == 3:
                _, sec, name = t
                size = "0"
            else:
                continue
            if sec not in "bBdDuVgGsS" or sec in "":
                continue
            rows.append((name, sec, int(size, 16), name in tls))
            mangled_all.append(name)
        per_obj.append((o, rows))
    dem = {}
    if mangled_all:
        uniq = sorted(set(mangled_all))
        p = subprocess.run(["c++filt"], input="\n".join(uniq) + "\n", stdout=subprocess.PIPE, text=True)
        dem = dict(zip(uniq, p.stdout.split("\n")))
    for o, rows in per_obj:
        rel = o
        if build_root and o.startswith(build_root):
            rel = os.path.relpath(o, build_root)
        rel = re.sub(r"^.*morfuse\.dir/", "", rel)
        for name, sec, size, is_tls in rows:
            d = dem.get(name, name)
            if d.startswith("guard variable for "):
                guards.add((d[len("guard variable for "):], rel))
            if SKIP.match(d) or SKIP.match(name):
                continue
            local = sec in "bds"            # internal linkage: qualify with the object file
            key = d + (" @" + rel if local else "")
            e = entries.get(key)
            if e is None:
                entries[key] = {"name": key, "section": sec, "tls": is_tls, "size": size, "obj": rel, "bare": d}
            else:
                e["tls"] = e["tls"] or is_tls
    for e in entries.values():
        # C++11 guarded initialisation of a function-local static leaves a guard variable next to it
        e["guard"] = (e["bare"], e["obj"]) in guards or any(g[0] == e["bare"] for g in guards)
    return [entries[k] for k in sorted(entries)]


def load_classification():
    data = json.load(open(CLASS_FILE))
    return data


def classify(inv, data):
    """joins the inventory with the reviewed file.  Returns (rows, vanished, problems)
    rows: inventory entries + cls (a key of CLASSES or 'unknown') + why"""
    table = data["symbols"]
    ev = data.get("evidence", {})
    rows, problems = [], []
    seen = set()
    patterns = [(re.compile(x["regex"]), x) for x in data.get("patterns", [])]
    for e in inv:
        c = table.get(e["name"])
        if c is None:
            for rx, x in patterns:
                if rx.search(e["name"]):
                    c = x
                    break
        r = dict(e)
        if c is None:
            r["cls"], r["why"] = "unknown", "not in tools/vlib/conc_globals.json"
        else:
            seen.add(e["name"])
            r["cls"] = c["class"]
            r["why"] = ev.get(c.get("evidence", ""), c.get("evidence", ""))
            if c["class"] not in CLASSES:
                problems.append("%s: unknown class %r" % (e["name"], c["class"]))
                r["cls"] = "unknown"
            # storage facts the build contradicts reclassify the symbol
            if c["class"] == "thread_local" and not e["tls"]:
                r["cls"], r["why"] = "unknown", "classified thread_local but the object file does not place it in TLS storage"
            if c["class"] != "thread_local" and e["tls"]:
                r["cls"], r["why"] = "unknown", "placed in TLS storage but classified " + c["class"]
            if c.get("needs_guard") and not e.get("guard"):
                r["cls"], r["why"] = "unknown", "reviewed as initialised once under the compiler's guard (magic static) but the object file has no guard variable for it: the initialisation is no longer the guarded one"
            if c["class"] == "guarded" and not c.get("mutex"):
                problems.append("%s: class guarded without a mutex" % e["name"])
        rows.append(r)
    # a symbol reviewed as `unsafe` that no longer exists was repaired: nothing to guard any more
    vanished = sorted(k for k in table if k not in seen and table[k]["class"] != "unsafe")
    return rows, vanished, problems


# ------------------------------------------------------------------------------------------------
# Lean rendering

def _s(x):
    return '"' + x.replace("\\", "\\\\").replace('"', '\\"') + '"'


def render(lt, rows, vanished, repo_label="$VERIF_REPO"):
    out = []
    out.append("import MorfuseModel.Conc.Table")
    out.append("/-! GENERATED by tools/vlib/concgen.py on every run of `tools/check.py C20` — do not edit.")
    out.append("(i) lock kind and write effect of every `BlockAllocSafe` method, read from")
    out.append("%s/include/morfuse/Common/MEM/BlockAlloc.h; (ii) every writable object with static storage" % repo_label)
    out.append("duration in the freshly built object files, joined with tools/vlib/conc_globals.json. -/")
    out.append("namespace Morfuse.Conc.Gen")
    out.append("open Morfuse.Conc")
    out.append("")
    out.append("/-- type of `BlockAllocSafe::mutex` -/")
    out.append("def mutexType : String := %s" % _s(lt["mutex_type"] or "?"))
    out.append("")
    out.append("def lockTable : List MethodRow := [")
    for i, r in enumerate(lt["rows"]):
        out.append("  { method := %s, lock := .%s, wraps := %s, writes := %s, reachable := %s }%s" % (
            _s(r["method"]), {"shared": "shared", "exclusive": "exclusive", "none": "none"}[r["lock"]], _s(r["wraps"]),
            "true" if r["writes"] else "false", "true" if r["reachable"] else "false",
            "," if i + 1 < len(lt["rows"]) else ""))
    out.append("]")
    out.append("")
    out.append("/-- places outside BlockAlloc.h that instantiate `BlockAllocSafe` directly (bypassing the facade) -/")
    out.append("def directUsers : List String := [%s]" % ", ".join(_s(u) for u in lt["direct_users"]))
    out.append("")
    out.append("/-- other synchronisation primitives found in the engine (each needs its own table) -/")
    out.append("def otherSync : List String := [%s]" % ", ".join(_s(u) for u in lt["other_sync"]))
    out.append("")
    out.append("/-- problems the translator had reading the source (must be empty) -/")
    out.append("def translatorProblems : List String := [%s]" % ", ".join(_s(u) for u in lt["problems"]))
    out.append("")
    # the inventory is split in chunks so that `decide` stays fast
    chunk = 64
    nchunks = (len(rows) + chunk - 1) // chunk
    for c in range(nchunks):
        out.append("def globals%d : List GlobalRow := [" % c)
        part = rows[c * chunk:(c + 1) * chunk]
        for i, r in enumerate(part):
            cls = CLASSES.get(r["cls"], "unknown")
            out.append("  { name := %s, tls := %s, cls := .%s }%s" % (_s(r["name"]), "true" if r["tls"] else "false", cls,
                                                                   "," if i + 1 < len(part) else ""))
        out.append("]")
    out.append("")
    out.append("def globals : List GlobalRow := %s" % (" ++ ".join("globals%d" % c for c in range(nchunks)) or "[]"))
    out.append("")
    out.append("/-- symbols of the reviewed file that no object file defines any more -/")
    out.append("def vanished : List String := [%s]" % ", ".join(_s(v) for v in vanished))
    out.append("")
    out.append("end Morfuse.Conc.Gen")
    return "\n".join(out) + "\n"
