"""Translator for the C08 model switch: reads src/Script/EventQueue.cpp and writes
lean/MorfuseModel/Gen/EventQueueCfg.lean (`srcCfg : Cfg`).

Two statements of the source decide which configuration of the model the code is:

* `PostponeEvent` and `PostponeAllEvents`: how the moved node is linked back after `Node.Remove(event)` —
  the single `Node.Insert(node, event);` (original: `Cfg.postponeRelinks = false`) or the three-way
  `if (!node) Add; else if (node.Node() == Node.Root()) AddFirst; else Insert;` (repaired);
* the loading branch of `Archive`: whether `node->event = e;` is executed between `new Event()` and `Node.Add(node)`.

Every other statement of those functions is compared with the text the model was transcribed from
(whitespace and comments removed); a function that has neither shape is reported as unrecognised.
"""
import os
import re

from vlib import common

SRC = "src/Script/EventQueue.cpp"
GEN = os.path.join(common.LEAN, "MorfuseModel", "Gen", "EventQueueCfg.lean")

RELINK_ORIG = "Node.Remove(event);Node.Insert(node,event);returntrue;"
RELINK_FIX = ("Node.Remove(event);if(!node){Node.Add(event);}elseif(node.Node()==Node.Root()){Node.AddFirst(event);}"
              "else{Node.Insert(node,event);}returntrue;")

POSTPONE_HEAD = {
    "PostponeAllEvents": "for(List::iteratorevent=Node.CreateIterator();event;event=event.Next()){"
                         "if(event->GetSourceObject()==l){",
    "PostponeEvent": "consteventNum_teventnum=ev.Num();for(List::iteratorevent=Node.CreateIterator();event;event=event.Next()){"
                     "if((event->GetSourceObject()==l)&&(event->event->Num()==eventnum)){",
}
POSTPONE_MID = ("event->time+=time;List::iteratornode;for(node=event.Next();node;node=node.Next()){"
                "if(event->time<node->time){break;}}")
POSTPONE_TAIL = "}}returnfalse;"

LOAD_PRE = ("ClearEventList();uint32_tnumEvents;arc.ArchiveUInt32(numEvents);for(uint32_ti=0;i<numEvents;i++){"
            "EventQueueNode*constnode=newEventQueueNode();Event*conste=newEvent();e->Archive(arc);")
LOAD_POST = ("arc.ArchiveInt64(node->time);arc.ArchiveUInt32(node->flags);arc.ArchiveSafePointer(node->m_sourceobject);"
             "Node.Add(node);}")


def strip(src):
    src = re.sub(r"/\*.*?\*/", "", src, flags=re.S)
    src = re.sub(r"//[^\n]*", "", src)
    return re.sub(r"\s+", "", src)


def body(src, signature):
    """text between the braces of the function whose header contains `signature`"""
    i = src.find(signature)
    if i < 0:
        return None
    j = src.find("{", i)
    depth, k = 0, j
    while k < len(src):
        if src[k] == "{":
            depth += 1
        elif src[k] == "}":
            depth -= 1
            if depth == 0:
                return src[j + 1:k]
        k += 1
    return None


def read_cfg(repo=None):
    """returns (flags dict, problems list)"""
    path = os.path.join(repo or common.REPO, SRC)
    src = open(path, encoding="utf-8", errors="replace").read()
    problems = []
    relinks = []
    for fn in ("PostponeAllEvents", "PostponeEvent"):
        b = body(src, "EventQueue::%s(" % fn)
        if b is None:
            problems.append("%s: function not found" % fn)
            continue
        t = strip(b)
        head, mid, tail = POSTPONE_HEAD[fn], POSTPONE_MID, POSTPONE_TAIL
        if not (t.startswith(head + mid) and t.endswith(tail)):
            problems.append("%s: the search loops differ from the transcribed text" % fn)
            continue
        core = t[len(head + mid):len(t) - len(tail)]
        if core == RELINK_ORIG:
            relinks.append(False)
        elif core == RELINK_FIX:
            relinks.append(True)
        else:
            problems.append("%s: unrecognised re-linking `%s`" % (fn, core[:200]))
    if len(relinks) == 2 and relinks[0] != relinks[1]:
        problems.append("PostponeAllEvents and PostponeEvent re-link differently")
    b = body(src, "EventQueue::Archive(")
    sets = None
    if b is None:
        problems.append("Archive: function not found")
    else:
        t = strip(b)
        i = t.find("else{" + LOAD_PRE)
        if i < 0 or not t.endswith(LOAD_POST + "}"):
            problems.append("Archive: the loading branch differs from the transcribed text")
        else:
            core = t[i + len("else{" + LOAD_PRE):len(t) - len(LOAD_POST + "}")]
            if core == "":
                sets = False
            elif core == "node->event=e;":
                sets = True
            else:
                problems.append("Archive: unrecognised statements `%s` in the loading loop" % core[:200])
    flags = {"postponeRelinks": relinks[0] if relinks and not problems else (relinks[0] if relinks else None),
             "loadSetsEvent": sets}
    return flags, problems


def render(flags):
    b = lambda x: "true" if x else "false"
    doc = []
    doc.append("`PostponeEvent / PostponeAllEvents` re-link %s" % (
        "by `Add / AddFirst / Insert` depending on where the node goes" if flags["postponeRelinks"]
        else "with the single `Node.Insert(node, event)`"))
    doc.append("the loading branch of `Archive` %s `node->event`" % ("assigns" if flags["loadSetsEvent"] else "never assigns"))
    return ("import MorfuseModel.EventQueue.Model\n"
            "/-! GENERATED by tools/vlib/eqgen.py from src/Script/EventQueue.cpp — do not edit.\n"
            "    Which of the two configurations of the model the source text is. -/\n"
            "namespace Morfuse.EventQueue\n\n"
            "/-- %s;\n    %s -/\n"
            "def srcCfg : Cfg := ⟨%s, %s⟩\n\n"
            "end Morfuse.EventQueue\n" % (doc[0], doc[1], b(flags["postponeRelinks"]), b(flags["loadSetsEvent"])))


def regenerate(ctx):
    """writes the Gen file; obligations: the source has one of the known shapes; returns the flags"""
    flags, problems = read_cfg()
    ctx.stats["eventqueue_cfg"] = dict(flags)
    ctx.oblige("translator: PostponeEvent / PostponeAllEvents / Archive(loading) of %s have a shape the model knows" % SRC,
               not problems, "; ".join(problems))
    # an unrecognised function is treated as the original configuration for the driver (nothing is claimed about it)
    eff = {"postponeRelinks": bool(flags["postponeRelinks"]), "loadSetsEvent": bool(flags["loadSetsEvent"])}
    common.write_if_changed(GEN, render(eff))
    return eff, problems
