"""Typed program generator for C03 (and, through `gen_program`, for other compiler/VM properties).

Produces ASTs of the core language that are well-typed, error-free and terminating *by construction*,
the s-expression the Lean driver reads, and several concrete source layouts for the real engine.

Typing discipline (what makes the programs error-free):
  * every variable name carries its kind: i* integer, s* string, a* array, k* constant (assigned once
    in the prologue of its thread, integer or string), c*/g* loop and goto counters, x* anything
    (NIL / int / string / char / array; only used where every kind is legal);
  * every thread body starts with a prologue that initialises each typed local it uses; `main`
    initialises the typed level/game/parm variables before anything else runs; typed group
    variables are initialised by every thread that uses them (a `waitthread` callee gets a new group);
  * arrays have a fixed shape class: keys 1, 2, "i" hold integers, "s" holds a string, "n" and 0 hold
    nested arrays of the same class or nothing, 9 and "e" hold anything (and are the only keys that get
    NIL assigned = erased);
  * divisors are non-zero literals or `(e & 1023) + 2`-shaped (never zero); shift counts are arbitrary (the
    engine masks them to six bits);
  * loops run on dedicated counters (updated first thing in a `while`/`do` body so that `continue`
    cannot skip the update), `goto` goes forward or backward under a counter, the call graph is a DAG
    plus bounded self-recursion, threads started with `thread` never reach a `waitthread`;
  * every `throw` names a label of an enclosing `try` of the same thread.
"""
import random

I64 = 1 << 64
BOUNDARY = [0, 1, 2, 7, 255, 256, 257, 65535, 65536, 65537, (1 << 24) - 1, 1 << 24, (1 << 24) + 1,
            (1 << 31) - 1, 1 << 31, (1 << 32) - 1, 1 << 32, (1 << 32) + 1, (1 << 40) + 12345, (1 << 63) - 1]
SMALL = [0, 1, 2, 3, 5, 7, 10, 100]
STRS = ["", "a", "b", "ab", "x y", "Hello", "k0", "q7", "zz top", "A", "mIxEd", "tab\there", "quote\"d", "back\\slash",
        "new\nline", "12", "-3", "007", "1e3", "NIL", "default", "semi;colon", "// not a comment", "/* nor this */"]
KEY_INT = [("int", 1), ("int", 2), ("str", "i")]
KEY_STR = [("str", "s")]
KEY_NEST = [("str", "n"), ("int", 0)]
KEY_ANY = [("int", 9), ("str", "e")]

# reference precedence of the language (C-like; must agree with Lang.Prec.reference in Lean and with yyParser.yy)
PREC = {"lor": 1, "land": 2, "bor": 3, "bxor": 4, "band": 5, "eq": 6, "ne": 6, "lt": 7, "gt": 7, "le": 7, "ge": 7,
        "shl": 8, "shr": 8, "add": 9, "sub": 9, "mul": 10, "div": 10, "mod": 10}
OPTEXT = {"lor": "||", "land": "&&", "bor": "|", "bxor": "^", "band": "&", "eq": "==", "ne": "!=", "lt": "<", "gt": ">",
          "le": "<=", "ge": ">=", "shl": "<<", "shr": ">>", "add": "+", "sub": "-", "mul": "*", "div": "/", "mod": "%"}
ARITH = ["add", "sub", "mul", "band", "bor", "bxor"]
CMP = ["lt", "gt", "le", "ge", "eq", "ne"]
SCOPES = ["local", "group", "level", "game", "parm"]


def hexs(s):
    return s.encode("latin-1").hex() if s else "-"


# --------------------------------------------------------------------------------------------
# s-expression for the Lean driver

def sx_expr(e):
    t = e[0]
    if t == "int":
        return "( int %d )" % e[1]
    if t == "str":
        return "( str %s )" % hexs(e[1])
    if t == "nil":
        return "( nil )"
    if t == "var":
        return "( var %s %s )" % (e[1], e[2])
    if t == "index":
        return "( index %s %s )" % (sx_expr(e[1]), sx_expr(e[2]))
    if t in ("size", "not", "neg", "compl"):
        return "( %s %s )" % (t, sx_expr(e[1]))
    if t == "bin":
        return "( bin %s %s %s )" % (e[1], sx_expr(e[2]), sx_expr(e[3]))
    if t in ("land", "lor"):
        return "( %s %s %s )" % (t, sx_expr(e[1]), sx_expr(e[2]))
    if t == "call":
        return "( call %s %s %s )" % (e[1], e[2], " ".join(sx_expr(a) for a in e[3]))
    raise ValueError(e)


def sx_lval(lv):
    if lv[0] == "var":
        return "( var %s %s )" % (lv[1], lv[2])
    return "( idx %s %s )" % (sx_lval(lv[1]), sx_expr(lv[2]))


def sx_list(ss):
    return "( " + " ".join(sx_stmt(s) for s in ss) + " )"


def sx_stmt(s):
    t = s[0]
    if t == "assign":
        return "( assign %s %s )" % (sx_lval(s[1]), sx_expr(s[2]))
    if t == "opassign":
        return "( opassign %s %s %s )" % (s[1], sx_lval(s[2]), sx_expr(s[3]))
    if t in ("incr", "decr"):
        return "( %s %s )" % (t, sx_lval(s[1]))
    if t == "block":
        return "( block %s )" % " ".join(sx_stmt(x) for x in s[1])
    if t == "ite":
        return "( ite %s %s %s )" % (sx_expr(s[1]), sx_list(s[2]), sx_list(s[3]))
    if t == "while":
        return "( while %s %s ( ) )" % (sx_expr(s[1]), sx_list(s[2]))
    if t == "for":
        return "( for %s %s %s %s )" % (sx_list(s[1]), sx_expr(s[2]), sx_list(s[3]), sx_list(s[4]))
    if t == "dowhile":
        return "( dowhile %s %s )" % (sx_list(s[1]), sx_expr(s[2]))
    if t in ("brk", "cont"):
        return "( %s )" % t
    if t == "switch":
        return "( switch %s %s )" % (sx_expr(s[1]), sx_list(s[2]))
    if t == "case":
        return "( case %s )" % hexs(s[1])
    if t == "try":
        return "( try %s %s )" % (sx_list(s[1]), sx_list(s[2]))
    if t == "label":
        return "( label %s %s )" % (s[1], " ".join("( %s %s )" % p for p in s[2]))
    if t == "throw":
        return "( throw %s %s )" % (s[1], " ".join(sx_expr(a) for a in s[2]))
    if t == "goto":
        return "( goto %s )" % s[1]
    if t == "end":
        return "( end )" if s[1] is None else "( end %s )" % sx_expr(s[1])
    if t == "print":
        return "( print %d %s )" % (1 if s[1] else 0, " ".join(sx_expr(a) for a in s[2]))
    if t == "scall":
        return "( scall %s %s %s )" % (s[1], s[2], " ".join(sx_expr(a) for a in s[3]))
    raise ValueError(s)


def to_sexp(prog):
    return " ".join(sx_list(prog).split())


# --------------------------------------------------------------------------------------------
# coverage

def count_nodes(prog, hist):
    def bump(k):
        hist[k] = hist.get(k, 0) + 1

    def lit_class(v):
        if v == 0:
            return "lit:0"
        for bits in (8, 16, 24, 32):
            if v < (1 << bits):
                return "lit:<2^%d" % bits
        return "lit:>=2^32"

    def ex(e, depth):
        hist["max_expr_depth"] = max(hist.get("max_expr_depth", 0), depth)
        t = e[0]
        if t == "int":
            bump(lit_class(e[1]))
            if e[1] in (255, 256, 257, 65535, 65536, 65537, (1 << 24) - 1, 1 << 24, (1 << 24) + 1, (1 << 32) - 1, 1 << 32,
                        (1 << 32) + 1, (1 << 63) - 1):
                bump("lit:boundary")
        elif t == "bin":
            bump("op:" + e[1])
        elif t == "var":
            bump("var:" + e[1])
        else:
            bump("expr:" + t)
        if t == "call":
            bump("call:" + e[1])
        for c in e[1:]:
            if isinstance(c, tuple):
                ex(c, depth + 1)
            elif isinstance(c, list):
                for a in c:
                    ex(a, depth + 1)

    def lv(l):
        if l[0] == "idx":
            bump("lval:idx")
            lv(l[1])
            ex(l[2], 1)
        else:
            bump("lval:" + l[1])

    def st(s, nest):
        hist["max_nesting"] = max(hist.get("max_nesting", 0), nest)
        t = s[0]
        bump("stmt:" + t)
        hist["statements"] = hist.get("statements", 0) + 1
        if t in ("assign",):
            lv(s[1]); ex(s[2], 1)
        elif t == "opassign":
            bump("opassign:" + s[1]); lv(s[2]); ex(s[3], 1)
        elif t in ("incr", "decr"):
            lv(s[1])
        elif t == "block":
            for x in s[1]:
                st(x, nest + 1)
        elif t == "ite":
            ex(s[1], 1)
            for x in s[2] + s[3]:
                st(x, nest + 1)
        elif t == "while":
            ex(s[1], 1)
            for x in s[2]:
                st(x, nest + 1)
        elif t == "for":
            ex(s[2], 1)
            for x in s[1] + s[3] + s[4]:
                st(x, nest + 1)
        elif t == "dowhile":
            ex(s[2], 1)
            for x in s[1]:
                st(x, nest + 1)
        elif t == "switch":
            ex(s[1], 1)
            for x in s[2]:
                st(x, nest + 1)
        elif t == "try":
            for x in s[1] + s[2]:
                st(x, nest + 1)
        elif t in ("throw",):
            for a in s[2]:
                ex(a, 1)
        elif t == "end" and s[1] is not None:
            ex(s[1], 1)
        elif t == "print":
            for a in s[2]:
                ex(a, 1)
        elif t == "scall":
            bump("call:" + s[1])
            for a in s[3]:
                ex(a, 1)
        elif t == "label" and s[2]:
            bump("label:params")
    for s in prog:
        st(s, 0)


# --------------------------------------------------------------------------------------------
# generator

class Thread:
    def __init__(self, name, params, ret, nowait):
        self.name = name          # label
        self.params = params      # list of (kind, varname) kinds: I S A X
        self.ret = ret            # 'I' | 'S' | None
        self.nowait = nowait
        self.cost = 1


class Gen:
    def __init__(self, rng, max_stmts=80, max_nest=6, features=None):
        self.rng = rng
        self.max_stmts = max_stmts
        self.max_nest = max_nest
        self.budget = max_stmts
        self.f = features or {"arrays", "control", "threads", "strings", "try", "switch", "goto"}
        self.uid = 0
        self.threads = []
        self.globals_i = []   # (scope, name)
        self.globals_s = []
        self.globals_a = []

    # ---- helpers
    def chance(self, p):
        return self.rng.random() < p

    def fresh(self, prefix):
        self.uid += 1
        return "%s%d" % (prefix, self.uid)

    def int_literal(self):
        r = self.rng.random()
        if r < 0.45:
            v = self.rng.choice(SMALL)
        elif r < 0.85:
            v = self.rng.choice(BOUNDARY)
        else:
            v = self.rng.getrandbits(self.rng.choice([8, 16, 24, 32, 40, 63]))
        e = ("int", v)
        if self.chance(0.2) and v != 0:
            e = ("neg", e)
        return e

    def str_literal(self):
        if self.chance(0.6):
            return ("str", self.rng.choice(STRS))
        n = self.rng.randint(1, 6)
        return ("str", "".join(self.rng.choice("abcXYZ 019_.,!") for _ in range(n)))

    # ---- expressions.  env: dict kind -> list of ('var', scope, name)
    def int_expr(self, env, d):
        r = self.rng
        if d <= 0 or self.chance(0.25):
            c = r.random()
            if c < 0.4 or not env["I"]:
                return self.int_literal()
            return r.choice(env["I"])
        c = r.random()
        if c < 0.34:
            op = r.choice(ARITH + ["add", "sub", "mul"])
            return ("bin", op, self.int_expr(env, d - 1), self.int_expr(env, d - 1))
        if c < 0.44:
            op = r.choice(["div", "mod"])
            return ("bin", op, self.int_expr(env, d - 1), self.divisor(env, d - 1))
        if c < 0.52:
            op = r.choice(["shl", "shr"])
            c2 = r.random()
            amt = ("int", r.randint(0, 63)) if c2 < 0.5 else ("bin", "band", self.int_expr(env, d - 1), ("int", 63)) if c2 < 0.8 \
                else self.int_expr(env, d - 1)       # any count: the engine masks it to six bits
            return ("bin", op, self.int_expr(env, d - 1), amt)
        if c < 0.64:
            return self.bool_expr(env, d)
        if c < 0.72:
            return (r.choice(["neg", "compl"]), self.int_expr(env, d - 1))
        if c < 0.78 and "strings" in self.f:
            return ("size", self.sizeable(env, d - 1))
        if c < 0.86 and env["A"] and "arrays" in self.f:
            return ("index", self.arr_expr(env), self.key_expr(env, r.choice(KEY_INT)))
        if c < 0.92 and "threads" in self.f and self.callees(env, "I"):
            return self.call_expr(env, d, "I")
        return self.int_expr(env, d - 1)

    def divisor(self, env, d):
        r = self.rng
        if self.chance(0.5):
            v = r.choice([1, 1, 2, 3, 7, 255, 256, 65536, (1 << 32) + 1, (1 << 63) - 1])
            e = ("int", v)
            if self.chance(0.3):
                e = ("neg", e)          # -1 included: x / -1 wraps, x % -1 is 0
            return e
        pos = ("bin", "add", ("bin", "band", self.int_expr(env, d), ("int", 1023)), ("int", 2))
        return ("neg", pos) if self.chance(0.3) else pos

    def bool_expr(self, env, d):
        r = self.rng
        c = r.random()
        if c < 0.35:
            return ("bin", r.choice(CMP), self.int_expr(env, d - 1), self.int_expr(env, d - 1))
        if c < 0.5:
            return ("bin", r.choice(["eq", "ne"]), self.any_expr(env, d - 1), self.any_expr(env, d - 1))
        if c < 0.7:
            return (r.choice(["land", "lor"]), self.any_expr(env, d - 1), self.any_expr(env, d - 1))
        if c < 0.85:
            return ("not", self.any_expr(env, d - 1))
        if c < 0.92 and "strings" in self.f:
            # a number against its own decimal text (equal), against a near miss, as literal and as computed string
            v = r.choice([0, 1, 7, 12, 255, 256, 65536, 4294967296])
            neg = self.chance(0.3)
            num = ("neg", ("int", v)) if neg and v else ("int", v)
            txt = ("-" if neg and v else "") + str(v)
            if self.chance(0.3):
                txt = r.choice(["0" + txt, txt + " ", txt + "0", "+" + txt])
            sv = ("str", txt) if self.chance(0.6) else ("bin", "add", ("str", ""), ("str", txt))
            if self.chance(0.3) and env["I"]:
                x = r.choice(env["I"])
                num, sv = x, ("bin", "add", ("str", ""), x)
            pair = (num, sv) if self.chance(0.5) else (sv, num)
            return ("bin", r.choice(["eq", "ne"]), pair[0], pair[1])
        if "strings" in self.f:
            return ("bin", r.choice(["eq", "ne"]), self.str_expr(env, d - 1), self.str_expr(env, d - 1))
        return ("bin", r.choice(CMP), self.int_expr(env, d - 1), self.int_expr(env, d - 1))

    def str_expr(self, env, d):
        r = self.rng
        if "strings" not in self.f:
            return ("str", "s")
        if d <= 0 or self.chance(0.3):
            if env["S"] and self.chance(0.6):
                return r.choice(env["S"])
            return self.str_literal()
        c = r.random()
        if c < 0.35:
            return ("bin", "add", self.str_expr(env, d - 1), self.str_expr(env, d - 1))
        if c < 0.55:
            return ("bin", "add", self.str_expr(env, d - 1), self.int_expr(env, d - 1))
        if c < 0.7:
            return ("bin", "add", self.int_expr(env, d - 1), self.str_expr(env, d - 1))
        if c < 0.78:
            return ("bin", "add", self.str_expr(env, d - 1), self.chr_expr(env))
        if c < 0.86 and env["A"] and "arrays" in self.f and not env.get("nogrow"):
            return ("index", self.arr_expr(env), self.key_expr(env, KEY_STR[0]))
        if c < 0.92 and "threads" in self.f and self.callees(env, "S") and not env.get("nogrow"):
            return self.call_expr(env, d, "S")
        return self.str_expr(env, d - 1)

    def str_rhs(self, env, target, d):
        """right-hand side for an assignment to a string cell: literals, constants and integer parts, plus at
        most one occurrence of the target itself, so that strings grow linearly (not exponentially) in loops"""
        e2 = dict(env)
        e2["S"] = list(env.get("Sk", []))
        e2["nogrow"] = True
        rhs = self.str_expr(e2, d)
        if target is not None and self.chance(0.5):
            rhs = ("bin", "add", target, rhs) if self.chance(0.6) else ("bin", "add", rhs, target)
        return rhs

    def chr_expr(self, env):
        s = self.rng.choice([x for x in STRS if x and all(32 <= ord(c) < 127 for c in x)])
        k = self.rng.randrange(len(s))
        base = ("str", s)
        if self.chance(0.3) and env["S"]:
            base = ("bin", "add", base, self.rng.choice(env["S"]))
        return ("index", base, ("int", k))

    def sizeable(self, env, d):
        c = self.rng.random()
        if c < 0.5:
            return self.str_expr(env, d)
        if c < 0.7 and env["A"]:
            return self.arr_expr(env)
        return self.any_expr(env, d)

    def arr_expr(self, env):
        a = self.rng.choice(env["A"])
        # nested arrays are only dereferenced for reading as `anything` (they may be absent)
        return a

    def key_expr(self, env, key):
        if key[0] == "int":
            if self.chance(0.25) and key[1] > 0:
                return ("bin", "sub", ("int", key[1] + 3), ("int", 3))
            return ("int", key[1])
        if self.chance(0.2) and len(key[1]) == 1:
            return ("bin", "add", ("str", ""), ("str", key[1]))
        return ("str", key[1])

    def any_expr(self, env, d):
        r = self.rng
        c = r.random()
        if c < 0.3:
            return self.int_expr(env, d)
        if c < 0.5:
            return self.str_expr(env, d)
        if c < 0.58:
            return ("nil",)
        if c < 0.72 and env["X"]:
            return r.choice(env["X"])
        if c < 0.84 and env["A"] and "arrays" in self.f:
            a = self.arr_expr(env)
            k = r.choice(KEY_ANY + KEY_INT + KEY_STR + KEY_NEST)
            if self.chance(0.3):
                # read through a possibly missing nested array: NIL[...] is NIL
                return ("index", ("index", a, self.key_expr(env, r.choice(KEY_NEST))), self.key_expr(env, k))
            return ("index", a, self.key_expr(env, k))
        if c < 0.9 and "strings" in self.f:
            return self.chr_expr(env)
        if c < 0.95 and "threads" in self.f and self.callees(env, "X"):
            return self.call_expr(env, d, "X")
        return self.int_expr(env, d)

    def printable(self, env, d):
        # anything but a whole array (its text form is a type name; keep output meaningful)
        e = self.any_expr(env, d)
        return e

    def arg_for(self, env, kind, d):
        if kind == "I":
            return self.int_expr(env, d)
        if kind == "S":
            return self.str_expr(env, d)
        if kind == "A":
            return self.arr_expr(env)
        return self.any_expr(env, d)

    def callees(self, env, want):
        """labels callable here whose result kind fits `want` (I, S, X = any result, N = statement call)"""
        out = []
        for c in env["callees"]:
            if want == "I" and c.ret != "I":
                continue
            if want == "S" and c.ret != "S":
                continue
            if want == "A" and c.ret != "A":
                continue
            if want == "X" and not c.ret:
                continue
            if env["nowait"] and not c.nowait:
                continue
            if any(k == "A" for k, _ in c.params) and not env["A"]:
                continue
            out.append(c)
        return out

    def pick_callee(self, env, want):
        cands = self.callees(env, want)
        return self.rng.choice(cands) if cands else None

    def call_args(self, env, th, d):
        args = []
        for kind, _ in th.params:
            if kind == "X" and self.chance(0.3):
                break      # omitted trailing arguments arrive as NIL
            args.append(self.arg_for(env, kind, d - 1))
        if self.chance(0.15):
            args.append(self.int_literal())   # surplus argument: ignored by the callee
        return args

    def call_kind(self, env, th):
        if env["nowait"]:
            return "thread"
        if not th.nowait:
            return "waitthread"
        return self.rng.choice(["thread", "waitthread"])

    def call_expr(self, env, d, want):
        th = self.pick_callee(env, want)
        self.cost += th.cost * self.mult
        return ("call", self.call_kind(env, th), th.name, self.call_args(env, th, min(d, 2)))

    # ---- l-values
    def arr_lval(self, env, keyclass, depth=0):
        a = self.rng.choice(env["A"])
        lv = ("var", a[1], a[2])
        # descend through nested arrays (created on demand by the assignment itself)
        while depth < 2 and self.chance(0.25):
            lv = ("idx", lv, self.key_expr(env, self.rng.choice(KEY_NEST)))
            depth += 1
        return ("idx", lv, self.key_expr(env, self.rng.choice(keyclass)))

    # ---- statements
    def stmts(self, env, n, nest):
        out = []
        for _ in range(n):
            if self.budget <= 0:
                break
            out += self.stmt(env, nest)
        return out

    def simple_assign(self, env, nest):
        r = self.rng
        c = r.random()
        D = r.choice([1, 2, 2, 3, 4])
        if c < 0.3 and env["Iw"]:
            v = r.choice(env["Iw"])
            lv = ("var", v[1], v[2])
            c2 = r.random()
            if c2 < 0.5:
                return [("assign", lv, self.int_expr(env, D))]
            if c2 < 0.8:
                op = r.choice(ARITH + ["shl", "shr", "div", "mod"])
                if op in ("div", "mod"):
                    rhs = self.divisor(env, 1)
                elif op in ("shl", "shr"):
                    rhs = ("int", r.randint(0, 63))
                else:
                    rhs = self.int_expr(env, D - 1)
                return [("opassign", op, lv, rhs)]
            return [(r.choice(["incr", "decr"]), lv)]
        if c < 0.45 and env["Sw"] and "strings" in self.f:
            v = r.choice(env["Sw"])
            lv = ("var", v[1], v[2])
            if self.chance(0.3):
                rhs = self.str_rhs(env, None, 1) if self.chance(0.6) else self.int_expr(env, 1)
                return [("opassign", "add", lv, rhs)]
            return [("assign", lv, self.str_rhs(env, v, D))]
        if c < 0.6 and env["Xw"]:
            v = r.choice(env["Xw"])
            lv = ("var", v[1], v[2])
            if self.chance(0.15):
                return [(r.choice(["incr", "decr"]), lv)] if False else [("assign", lv, ("nil",))]
            if self.chance(0.2) and env["A"]:
                return [("assign", lv, self.arr_expr(env))]
            return [("assign", lv, self.any_expr(env, D))]
        if c < 0.85 and env["A"] and "arrays" in self.f:
            c2 = r.random()
            if c2 < 0.35:
                lv = self.arr_lval(env, KEY_INT)
                if self.chance(0.3):
                    return [("opassign", r.choice(ARITH), lv, self.int_expr(env, 1))] if lv[1][0] == "var" else \
                        [("assign", lv, self.int_expr(env, D))]
                if self.chance(0.15) and lv[1][0] == "var":
                    return [(r.choice(["incr", "decr"]), lv)]
                return [("assign", lv, self.int_expr(env, D))]
            if c2 < 0.5:
                return [("assign", self.arr_lval(env, KEY_STR), self.str_rhs(env, None, D))]
            if c2 < 0.75:
                lv = self.arr_lval(env, KEY_ANY)
                rhs = ("nil",) if self.chance(0.3) else self.any_expr(env, D)
                return [("assign", lv, rhs)]
            if c2 < 0.9:
                # share a holder: nested slot := some array (possibly itself: a cycle)
                return [("assign", self.arr_lval(env, KEY_NEST, depth=1), self.arr_expr(env) if self.chance(0.8) else ("nil",))]
            if env["Aw"]:
                v = r.choice(env["Aw"])
                if "threads" in self.f and self.callees(env, "A") and self.chance(0.5):
                    return [("assign", ("var", v[1], v[2]), self.call_expr(env, 2, "A"))]
                return [("assign", ("var", v[1], v[2]), self.arr_expr(env))]
        return [("print", self.chance(0.8), [self.printable(env, D) for _ in range(r.randint(0, 3))])]

    def stmt(self, env, nest):
        r = self.rng
        self.budget -= 1
        self.cost += self.mult
        c = r.random()
        deep = nest >= self.max_nest
        if c < 0.45 or deep or "control" not in self.f:
            return self.simple_assign(env, nest)
        if c < 0.55:
            cond = self.any_expr(env, 2) if self.chance(0.4) else self.bool_expr(env, 2)
            t = self.stmts(env, r.randint(1, 3), nest + 1)
            e = self.stmts(env, r.randint(0, 2), nest + 1) if self.chance(0.5) else []
            return [("ite", cond, t, e)]
        if c < 0.7:
            return self.loop(env, nest)
        if c < 0.76 and "switch" in self.f:
            return self.switch(env, nest)
        if c < 0.82 and "try" in self.f:
            return self.try_(env, nest)
        if c < 0.86 and env["handlers"]:
            return self.throw(env)
        if c < 0.9 and env["loop"] and not env["in_handler_entry"]:
            kind = r.choice(["brk", "cont"]) if env["loop"] == "for" or env["counter_done"] else "brk"
            guard = self.bool_expr(env, 1)
            return [("ite", guard, [(kind,)], [])]
        if c < 0.95 and "threads" in self.f and self.callees(env, "N"):
            th = r.choice(self.callees(env, "N"))
            self.cost += th.cost * self.mult
            return [("scall", self.call_kind(env, th), th.name, self.call_args(env, th, 2))]
        if c < 0.97 and env["can_end"] and nest >= 2:
            e = None
            if env["ret"] == "I":
                e = self.int_expr(env, 2)
            elif env["ret"] == "S":
                e = self.str_expr(env, 2)
            elif env["ret"] == "A":
                e = self.arr_expr(env)
            elif env["ret"] == "X" and self.chance(0.7):
                e = self.any_expr(env, 2)
            return [("ite", self.bool_expr(env, 1), [("end", e)], [])]
        return [("block", self.stmts(env, r.randint(0, 2), nest + 1))]

    def loop(self, env, nest):
        r = self.rng
        k = r.choice([1, 2, 2, 3, 4]) if self.mult * 4 <= 64 else 1
        cv = ("var", "local", self.fresh("c"))
        lv = ("var", "local", cv[2])
        old_mult = self.mult
        self.mult *= max(k, 1)
        kind = r.choice(["for", "for", "while", "do", "while1", "do0"])
        sub = dict(env)
        sub["loop"] = "for" if kind == "for" else "other"
        sub["counter_done"] = True
        sub["I"] = env["I"] + [cv]
        out = []
        if kind == "for":
            start = r.choice([0, 0, 1])
            init = [("assign", lv, ("int", start))]
            cond = ("bin", r.choice(["lt", "ne"]) if self.chance(0.8) else "le", cv, ("int", start + k))
            if cond[1] == "le":
                cond = ("bin", "le", cv, ("int", start + k - 1))
            inc = [("incr", lv)] if self.chance(0.6) else [("opassign", "add", lv, ("int", 1))]
            if self.chance(0.2) and env["Iw"]:
                v = r.choice(env["Iw"])
                inc.append(("opassign", "add", ("var", v[1], v[2]), cv))
            body = self.stmts(sub, r.randint(1, 4), nest + 1)
            out = [("for", init, cond, inc, body)]
        elif kind == "while":
            out.append(("assign", lv, ("int", k)))
            cond = cv if self.chance(0.4) else ("bin", "gt", cv, ("int", 0))
            body = [("decr", lv)] + self.stmts(sub, r.randint(1, 4), nest + 1)
            out.append(("while", cond, body))
        elif kind == "while1":
            # constant condition (folded to OP_BOOL_STORE_TRUE); leaves through `break`
            out.append(("assign", lv, ("int", k + 1)))
            cond = r.choice([("int", 1), ("int", 7), ("not", ("int", 0)), ("str", "x")])
            body = [("decr", lv), ("ite", ("not", cv), [("brk",)], [])] + self.stmts(sub, r.randint(1, 3), nest + 1)
            out.append(("while", cond, body))
        elif kind == "do0":
            # runs once; `continue` goes to the (false) condition, `break` leaves
            sub["loop"] = "other"
            sub["I"] = env["I"]
            body = self.stmts(sub, r.randint(1, 3), nest + 1)
            out.append(("dowhile", body, r.choice([("int", 0), ("nil",), ("str", ""), ("not", ("int", 5))])))
        else:
            out.append(("assign", lv, ("int", max(k, 1))))
            cond = ("bin", "gt", cv, ("int", 0)) if self.chance(0.7) else cv
            body = [("decr", lv)] + self.stmts(sub, r.randint(1, 4), nest + 1)
            out.append(("dowhile", body, cond))
        self.mult = old_mult
        return out

    def switch(self, env, nest):
        r = self.rng
        sub = dict(env)
        sub["in_switch"] = True
        if env["loop"] is None:
            sub["loop"] = None
        strsw = self.chance(0.35) and "strings" in self.f
        ncase = r.randint(1, 4)
        body = []
        if strsw:
            labels = r.sample(["a", "b", "ab", "Hello", "k0", "12", "-3", "zz top", "NIL"], ncase)
            scrut = self.str_expr(env, 1) if self.chance(0.5) else ("str", r.choice(labels + ["nomatch"]))
        else:
            labels = [str(v) for v in r.sample([0, 1, 2, 3, 5, 7, -1, -2, 100, 255, 256, 65536, 2147483647, -2147483647], ncase)]
            pick = int(r.choice(labels + ["4"]))
            lit = ("int", pick) if pick >= 0 else ("neg", ("int", -pick))
            scrut = lit if self.chance(0.5) else ("bin", "add", ("bin", "mul", self.int_expr(env, 1), ("int", 0)), lit)
            if self.chance(0.3):
                scrut = self.int_expr(env, 1)
        if self.chance(0.6):
            labels.insert(r.randint(0, len(labels)), "default")
        if self.chance(0.15):
            body += self.stmts(sub, 1, nest + 1)     # unreachable statements before the first case
        brk_sub = dict(sub)
        for lab in labels:
            body.append(("case", lab))
            brk_sub["loop_for_break"] = True
            body += self.stmts(sub, r.randint(0, 2), nest + 1)
            if self.chance(0.6):
                body.append(("brk",))
            elif self.chance(0.15) and env["loop"] and (env["loop"] == "for" or env["counter_done"]):
                body.append(("cont",))
        return [("switch", scrut, body)]

    def try_(self, env, nest):
        r = self.rng
        names = []
        nl = r.randint(1, 3)
        pool = ["e1", "e2", "e3", "oops", "fail"]
        names = r.sample(pool, nl)
        handlers = []
        for nm in names:
            ps = [("local", self.fresh("x")) for _ in range(r.randint(0, 2))]
            handlers.append((nm, ps))
        sub = dict(env)
        sub["handlers"] = env["handlers"] + [handlers]
        body = self.stmts(sub, r.randint(1, 4), nest + 1)
        if self.chance(0.5):
            body += self.throw(sub, prefer_inner=True, guard=self.chance(0.6))
            if self.chance(0.4):
                body += self.stmts(sub, 1, nest + 1)
        hbody = []
        if self.chance(0.2):
            hbody += [("print", True, [("str", "unreachable handler prefix")])]
        for nm, ps in handlers:
            hbody.append(("label", nm, ps))
            hsub = dict(env)
            hsub["X"] = env["X"] + [("var", sc, n) for sc, n in ps]
            hbody += self.stmts(hsub, r.randint(0, 3), nest + 1)
            if ps and self.chance(0.7):
                hbody.append(("print", True, [("str", "caught " + nm)] + [("var", sc, n) for sc, n in ps]))
            if self.chance(0.5) and env["loop"] and (env["loop"] == "for" or env["counter_done"]):
                hbody.append(("ite", self.bool_expr(env, 1), [(r.choice(["brk", "cont"]),)], []))
        return [("try", body, hbody)]

    def throw(self, env, prefer_inner=False, guard=None):
        r = self.rng
        hs = env["handlers"]
        level = hs[-1] if prefer_inner or self.chance(0.6) else r.choice(hs)
        nm, ps = r.choice(level)
        nargs = r.randint(0, len(ps) + 1)
        st = ("throw", nm, [self.any_expr(env, 1) for _ in range(nargs)])
        if guard is None:
            guard = self.chance(0.7)
        return [("ite", self.bool_expr(env, 1), [st], [])] if guard else [st]

    def label_pos(self, body):
        """a position where a label may be inserted: never between a loop counter's initialisation and its loop"""
        ok = [i for i in range(len(body) + 1)
              if not (0 < i < len(body) and body[i][0] in ("while", "dowhile") and body[i - 1][0] == "assign"
                      and body[i - 1][1][0] == "var" and body[i - 1][1][2].startswith("c"))]
        return self.rng.choice(ok)

    # ---- threads
    def thread_body(self, th, callees, is_main):
        r = self.rng
        self.mult = 1
        self.cost = 0
        locs_i = [("var", "local", self.fresh("i")) for _ in range(r.randint(1, 3))]
        locs_s = [("var", "local", self.fresh("s")) for _ in range(r.randint(0, 2))] if "strings" in self.f else []
        locs_a = [("var", "local", self.fresh("a")) for _ in range(r.randint(1 if th.ret == "A" else 0, 2))] if "arrays" in self.f else []
        locs_x = [("var", "local", self.fresh("x")) for _ in range(r.randint(0, 2))]
        consts = []
        pro = []
        for v in locs_i:
            pro.append(("assign", ("var", v[1], v[2]), self.int_literal()))
        for v in locs_s:
            pro.append(("assign", ("var", v[1], v[2]), self.str_literal()))
        for _ in range(r.randint(0, 3)):
            v = ("var", "local", self.fresh("k"))
            lit = self.int_literal() if self.chance(0.7) or "strings" not in self.f else self.str_literal()
            pro.append(("assign", ("var", v[1], v[2]), lit))
            consts.append((v, lit))
        gi = [g for g in self.globals_i]
        gs = [g for g in self.globals_s]
        ga = [g for g in self.globals_a]
        # group variables: (re)initialised by every thread that uses them (a waitthread callee has a new group)
        grp_i, grp_s = [], []
        if self.chance(0.5):
            g = ("var", "group", "gi1")
            pro.append(("assign", ("var", g[1], g[2]), self.int_literal()))
            grp_i.append(g)
        env = {
            "I": locs_i + gi + grp_i + [c[0] for c in consts if c[1][0] in ("int", "neg")],
            "Iw": locs_i + gi + grp_i,
            "S": locs_s + gs + [c[0] for c in consts if c[1][0] == "str"],
            "Sw": locs_s + gs,
            "Sk": [c[0] for c in consts if c[1][0] == "str"],
            "A": [], "Aw": [],
            "X": locs_x + [("var", "group", "gx1"), ("var", "level", "lx1"), ("var", "parm", "px1")],
            "Xw": locs_x + [("var", "group", "gx1"), ("var", "level", "lx1"), ("var", "parm", "px1")],
            "handlers": [], "loop": None, "counter_done": True, "in_handler_entry": False,
            "can_end": True, "ret": th.ret if th.ret else ("X" if self.chance(0.3) else None),
            "nowait": th.nowait,
        }
        for kind, name in th.params:
            v = ("var", "local", name)
            if kind == "I":
                env["I"].append(v); env["Iw"].append(v)
            elif kind == "S":
                env["S"].append(v); env["Sw"].append(v)
            elif kind == "A":
                env["A"].append(v)
            else:
                env["X"].append(v); env["Xw"].append(v)
        for v in locs_a:
            for key in KEY_INT:
                pro.append(("assign", ("idx", ("var", v[1], v[2]), self.key_expr(env, key)), self.int_literal()))
            pro.append(("assign", ("idx", ("var", v[1], v[2]), ("str", "s")), self.str_literal()))
            env["A"].append(v); env["Aw"].append(v)
        env["A"] += ga
        env["callees"] = callees
        nbody = r.randint(3, 10)
        body = self.stmts(env, nbody, 1)
        # internal goto target (forward) and a counted backward goto
        if "goto" in self.f and self.chance(0.35):
            lab = self.fresh("L")
            g = ("var", "local", self.fresh("g"))
            pos = self.label_pos(body)
            tail = self.stmts(env, r.randint(1, 2), 1)
            # a label with parameters in the middle of a thread: running over it binds the thread's next unread
            # arguments (NIL when none are left); reached by `goto` it receives the label name itself
            lps = [("local", self.fresh("x")) for _ in range(r.randint(0, 2))] if self.chance(0.5) else []
            show = [("print", True, [("str", "at " + lab)] + [("var", sc, n) for sc, n in lps])] if lps else []
            body = body[:pos] + [("assign", ("var", g[1], g[2]), ("int", 0)), ("label", lab, lps)] + show + body[pos:] + tail + [
                ("incr", ("var", g[1], g[2])),
                ("ite", ("bin", "lt", g, ("int", r.randint(1, 3))), [("goto", lab)], [])]
            self.cost *= 3
        if "goto" in self.f and self.chance(0.25):
            lab = self.fresh("L")
            pos = self.label_pos(body)
            skipped = self.stmts(env, r.randint(1, 2), 1)
            lps = [("local", self.fresh("x")) for _ in range(r.randint(1, 2))] if self.chance(0.4) else []
            show = [("print", True, [("str", "at " + lab)] + [("var", sc, n) for sc, n in lps])] if lps else []
            body = body[:pos] + [("ite", self.bool_expr(env, 1), [("goto", lab)], [])] + skipped + [("label", lab, lps)] + show + body[pos:]
        end_e = None
        if th.ret == "I":
            end_e = self.int_expr(env, 2)
        elif th.ret == "S":
            end_e = self.str_expr(env, 2)
        elif th.ret == "A":
            end_e = self.arr_expr(env)
        epi = []
        if is_main:
            # make the final values of main's locals and of the group visible to the host
            for v in locs_i + locs_s + locs_a + locs_x:
                epi.append(("assign", ("var", "level", "zl_" + v[2]), v))
            for g in grp_i + [("var", "group", "gx1")]:
                epi.append(("assign", ("var", "level", "zg_" + g[2]), g))
        th.cost = max(1, self.cost)
        th.consts = dict((c[0], c[1]) for c in consts)
        return pro, body + epi + [("end", end_e)]


def gen_program(rng, max_stmts=80, max_nest=6, features=None):
    """returns dict(prog=AST list, label='main', args=[host args], consts={var: literal})"""
    g = Gen(rng, max_stmts, max_nest, features)
    nthreads = rng.randint(0, 4) if "threads" in g.f else 0
    # global typed variables, initialised by main's prologue
    for sc in ("level", "game", "parm"):
        if rng.random() < 0.5:
            g.globals_i.append(("var", sc, sc[0] + "i1"))
        if rng.random() < 0.3 and "strings" in g.f:
            g.globals_s.append(("var", sc, sc[0] + "s1"))
        if rng.random() < 0.3 and "arrays" in g.f:
            g.globals_a.append(("var", sc, sc[0] + "a1"))
    threads = []
    for i in range(nthreads):
        params = []
        for _ in range(rng.randint(0, 3)):
            kind = rng.choice(["I", "I", "S", "A", "X"])
            if kind == "S" and "strings" not in g.f:
                kind = "I"
            if kind == "A" and "arrays" not in g.f:
                kind = "I"
            params.append(kind)
        params.sort(key=lambda k: k == "X")      # optional (omittable) parameters last
        params = [(k, g.fresh("p")) for k in params]
        ret = rng.choice(["I", "I", "S", None]) if "strings" in g.f else rng.choice(["I", None])
        if "arrays" in g.f and rng.random() < 0.15:
            ret = "A"
        threads.append(Thread(g.fresh("t"), params, ret, nowait=rng.random() < 0.6))
    main = Thread("main", [("X", g.fresh("p")) for _ in range(rng.randint(0, 2))], rng.choice(["I", "S", None, None]), nowait=False)
    if "arrays" in g.f and rng.random() < 0.1:
        main.ret = "A"
    # bodies are generated callee-first so that costs are known; thread i may call threads j > i
    bodies = {}
    per = max(6, max_stmts // (nthreads + 1))
    consts = {}
    for i in range(nthreads - 1, -1, -1):
        g.budget = per
        callees = [t for t in threads[i + 1:] if t.cost < 400]
        if threads[i].nowait:
            callees = [t for t in callees if t.nowait]
        bodies[i] = g.thread_body(threads[i], callees, False)
        consts.update(threads[i].consts)
    g.budget = per
    main_callees = [t for t in threads if t.cost < 1500]
    # A-typed parameters need an array in scope at the call site
    mpro, mbody = g.thread_body(main, main_callees, True)
    consts.update(main.consts)
    # main's prologue also initialises the typed globals (before its own arrays use them)
    gpro = []
    for v in g.globals_i:
        gpro.append(("assign", ("var", v[1], v[2]), g.int_literal()))
    for v in g.globals_s:
        gpro.append(("assign", ("var", v[1], v[2]), g.str_literal()))
    env0 = {"I": [], "S": [], "A": [], "X": []}
    for v in g.globals_a:
        for key in KEY_INT:
            gpro.append(("assign", ("idx", ("var", v[1], v[2]), g.key_expr(env0, key)), g.int_literal()))
        gpro.append(("assign", ("idx", ("var", v[1], v[2]), ("str", "s")), g.str_literal()))
    prog = [("label", "main", [("local", n) for _, n in main.params])] + gpro + mpro + mbody
    for i in range(nthreads):
        th = threads[i]
        pro, body = bodies[i]
        prog += [("label", th.name, [("local", n) for _, n in th.params])] + pro + body
    args = []
    for _ in range(rng.randint(0, len(main.params) + 1)):
        c = rng.random()
        if c < 0.4:
            v = rng.choice(BOUNDARY + [-1, -256, -(1 << 63)])
            args.append("i%d" % v)
        elif c < 0.8:
            args.append("s" + (rng.choice([s for s in STRS if s]).encode("latin-1").hex()))
        else:
            args.append("n")
    return {"prog": prog, "label": "main", "args": args, "consts": consts}



# --------------------------------------------------------------------------------------------
# rendering: several concrete layouts of one AST

UNARY_PREC = 11
PRIMARY = 12


def lval_expr(lv):
    if lv[0] == "var":
        return lv
    return ("index", lval_expr(lv[1]), lv[2])


def has_free_continue(ss):
    """a `continue` that binds to the loop whose body is `ss`"""
    for s in ss:
        t = s[0]
        if t == "cont":
            return True
        if t == "block" and has_free_continue(s[1]):
            return True
        if t == "ite" and (has_free_continue(s[2]) or has_free_continue(s[3])):
            return True
        if t == "switch" and has_free_continue(s[2]):
            return True
        if t == "try" and (has_free_continue(s[1]) or has_free_continue(s[2])):
            return True
    return False


KEYWORDS = {"end", "if", "else", "while", "for", "do", "game", "group", "level", "local", "parm", "owner", "self", "NULL", "NIL",
            "try", "catch", "switch", "case", "break", "continue", "makearray", "makeArray", "endarray", "endArray", "size",
            "ifequal", "ifstrequal", "ifnotequal", "ifstrnotequal", "ifless", "ifgreater", "iflessequal", "ifgreaterequal", "default"}


def bare_ok(s):
    return bool(s) and s not in KEYWORDS and (s[0].isalpha() or s[0] == "_") and all(c.isalnum() or c == "_" for c in s)


class Layout:
    def __init__(self, rng, consts=None, plain=False):
        self.r = rng
        self.plain = plain
        self.consts = consts or {}
        r = rng
        self.inline_consts = (not plain) and r.random() < 0.5
        self.expand_compound = 0.0 if plain else r.choice([0.0, 0.5, 1.0])
        self.for_as_while = 0.0 if plain else r.choice([0.0, 0.5, 1.0])
        self.redundant = 0.0 if plain else r.choice([0.0, 0.1, 0.3])
        self.semi = 0.0 if plain else r.choice([0.0, 0.3, 1.0])
        self.comments = 0.0 if plain else r.choice([0.0, 0.1, 0.3])
        self.tight = 0.0 if plain else r.choice([0.0, 0.3, 0.8])
        self.indent = "" if plain else r.choice(["", "  ", "\t", "    "])
        self.brace_nl = (not plain) and r.random() < 0.4
        self.else_empty = 0.0 if plain else r.choice([0.0, 0.5])
        self.blank = 0.0 if plain else r.choice([0.0, 0.2])
        self.crlf = (not plain) and r.random() < 0.15
        self.for_hoist = 0.0 if plain else r.choice([0.0, 0.3])
        self.bare = 0.0 if plain else r.choice([0.0, 0.5])
        self.used = {}

    def note(self, k):
        self.used[k] = self.used.get(k, 0) + 1

    def p(self, x):
        return self.r.random() < x

    # ---- expressions
    def strlit(self, s):
        out = '"'
        for ch in s:
            if ch == '"':
                out += '\\"'
            elif ch == "\\":
                out += "\\\\"
            elif ch == "\n":
                out += "\\n"
            elif ch == "\t":
                out += "\\t"
            else:
                out += ch
        return out + '"'

    def prec_of(self, e):
        t = e[0]
        if t in ("int", "str", "nil", "var", "index", "size"):
            return PRIMARY
        if t in ("neg", "compl", "not"):
            return UNARY_PREC
        if t == "bin":
            return PREC[e[1]]
        if t in ("land", "lor"):
            return PREC[t]
        if t == "call":
            return 0
        raise ValueError(e)

    def opgap(self, op, right_is_neg):
        """text of a binary operator with its surrounding blanks"""
        txt = OPTEXT[op]
        if txt == "-":
            c = self.r.random()
            if self.p(self.tight):
                return "-" if c < 0.5 else "- "
            return " - "
        if self.p(self.tight):
            return txt
        c = self.r.random()
        if c < 0.8:
            return " " + txt + " "
        if c < 0.9:
            return "  " + txt + "\t"
        return " " + txt + ((" /* " + self.r.choice(["c", "note", "x*y", "a / b"]) + " */ ") if self.p(self.comments) else " ")

    def expr(self, e, need=0):
        """text of e usable where an operand of precedence >= need is expected"""
        if self.inline_consts and e[0] == "var" and e in self.consts:
            self.note("inline-const")
            e = self.consts[e]
        t = e[0]
        mine = self.prec_of(e)
        if t == "int":
            s = str(e[1])
        elif t == "str":
            s = self.strlit(e[1])
        elif t == "nil":
            s = "NIL"
        elif t == "var":
            s = e[1] + "." + e[2]
        elif t == "index":
            s = self.base(e[1]) + "[" + self.pad(self.expr(e[2], 0)) + "]"
        elif t == "size":
            s = self.base(e[1], for_size=True) + ".size"
        elif t == "neg":
            inner = e[1]
            s = "  -" + (self.expr(inner, PRIMARY) if inner[0] != "neg" else "(" + self.expr(inner, 0) + ")")
        elif t == "compl":
            s = "~" + self.expr(e[1], UNARY_PREC)
        elif t == "not":
            s = "!" + self.expr(e[1], UNARY_PREC)
        elif t == "bin" or t in ("land", "lor"):
            op = e[1] if t == "bin" else t
            a, b = (e[2], e[3]) if t == "bin" else (e[1], e[2])
            lp = PREC[op]
            sb = self.expr(b, lp + 1)
            s = self.expr(a, lp) + self.opgap(op, sb.startswith("  -")) + sb
        elif t == "call":
            s = e[1] + " " + e[2] + "".join(" " + self.expr(a, PRIMARY) for a in e[3])
        else:
            raise ValueError(e)
        # unary operators apply to primaries only: -(a[1]) and -a[1] are the same tree, but -(a+b) needs the brackets
        if mine < need or (mine < PRIMARY and self.p(self.redundant)) or (mine == PRIMARY and self.p(self.redundant / 3)):
            if mine >= need:
                self.note("redundant-parens")
            s = "(" + self.pad(s) + ")"
        return s

    def pad(self, s):
        return (" " + s + " ") if self.p(0.2) and not self.plain else s

    def base(self, e, for_size=False):
        """operand of [ ] or .size: a `nonident_prim_expr_base`"""
        if self.inline_consts and e[0] == "var" and e in self.consts:
            e = self.consts[e]
        t = e[0]
        if t in ("var", "index"):
            return self.expr(e, PRIMARY)
        if t == "str" and not for_size:
            return self.expr(e, PRIMARY)
        return "(" + self.expr(e, 0) + ")"

    def lval(self, lv):
        # never inline a constant on the left of `=`
        if lv[0] == "var":
            t = lv[1] + "." + lv[2]
            return "(" + t + ")" if self.p(self.redundant / 3) else t
        return self.lval(lv[1]) + "[" + self.pad(self.expr(lv[2], 0)) + "]"

    def rhs(self, e):
        """right-hand side of `=`: a full `expr` (a thread call needs no brackets here)"""
        if e[0] == "call" and not self.p(self.redundant):
            return self.expr_call(e)
        return self.expr(e, 1)

    def expr_call(self, e):
        return e[1] + " " + e[2] + "".join(" " + self.expr(a, PRIMARY) for a in e[3])

    def prim(self, e):
        """a command parameter (`prim_expr`): a string that looks like an identifier may be written without quotes"""
        if e[0] == "str" and self.p(self.bare) and bare_ok(e[1]):
            self.note("bare-identifier")
            return e[1]
        return self.expr(e, PRIMARY)

    # ---- statements
    def sep(self):
        """text between two statements"""
        if self.p(self.semi):
            self.note("semicolon")
            return self.r.choice(["; ", ";", " ; "]) if self.p(0.7) else ";" + self.nl()
        return self.nl()

    def nl(self):
        s = ""
        if self.p(self.comments):
            self.note("line-comment")
            s += " // " + self.r.choice(["comment", "local.x = 1", "end", "}", "/* open", "case 1:"])
        s += "\r\n" if self.crlf else "\n"
        if self.p(self.blank):
            s += "\r\n" if self.crlf else "\n"
        return s

    def block(self, ss, depth):
        if not ss:
            return "{" + ("" if self.p(0.5) else self.nl() + self.indent * depth) + "}"
        inner = self.stmts(ss, depth + 1)
        open_ = "{" + ((" /* blk */" if self.p(self.comments) else "") + self.nl() if not self.p(self.semi / 2) else " ")
        return open_ + inner + (self.nl() if not self.p(self.semi / 2) else " ") + self.indent * depth + "}"

    def before_block(self):
        return (self.nl() + "") if self.brace_nl else " "

    def stmts(self, ss, depth):
        parts = []
        i = 0
        while i < len(ss):
            parts.append(self.indent * depth + self.stmt(ss[i], depth))
            i += 1
        out = ""
        for k, part in enumerate(parts):
            out += part
            if k + 1 < len(parts):
                s = ss[k]
                # a label may be followed by its first statement on the same line
                if s[0] in ("label", "case") and self.p(0.3):
                    out += " "
                else:
                    out += self.sep() if s[0] not in ("label", "case") else self.nl()
        return out

    def cond(self, c):
        return "(" + self.pad(self.expr(c, 0)) + ")"

    def assign_text(self, lv, e):
        return self.lval(lv) + self.r.choice([" = ", "=", " =  "] if not self.plain else [" = "]) + self.rhs(e)

    def stmt(self, s, depth):
        t = s[0]
        r = self.r
        if t == "assign":
            return self.assign_text(s[1], s[2])
        if t == "opassign":
            if self.p(self.expand_compound):
                self.note("expanded-compound")
                return self.assign_text(s[2], ("bin", s[1], lval_expr(s[2]), s[3]))
            self.note("compound")
            return self.lval(s[2]) + " " + OPTEXT[s[1]] + "= " + self.expr(s[3], 1)
        if t in ("incr", "decr"):
            op = "add" if t == "incr" else "sub"
            c = r.random()
            if self.p(self.expand_compound):
                self.note("expanded-incr")
                if c < 0.5:
                    return self.assign_text(s[1], ("bin", op, lval_expr(s[1]), ("int", 1)))
                return self.lval(s[1]) + " " + OPTEXT[op] + "= 1"
            return self.lval(s[1]) + ("++" if t == "incr" else "--")
        if t == "block":
            return self.block(s[1], depth)
        if t == "ite":
            out = "if" + ("" if self.p(self.tight) else " ") + self.cond(s[1])
            single = len(s[2]) == 1 and not s[3] and s[2][0][0] in ("assign", "print", "brk", "cont", "goto", "end", "throw", "incr", "decr") \
                and self.p(0.4) and not self.plain
            if single:
                self.note("if-no-braces")
                return out + " " + self.stmt(s[2][0], depth)
            out += self.before_block() + self.block(s[2], depth)
            if s[3] or self.p(self.else_empty):
                if not s[3]:
                    self.note("empty-else")
                out += (self.nl() + self.indent * depth if self.brace_nl else " ") + "else"
                if len(s[3]) == 1 and s[3][0][0] == "ite" and self.p(0.5) and not self.plain:
                    self.note("else-if")
                    out += " " + self.stmt(s[3][0], depth)
                else:
                    out += self.before_block() + self.block(s[3], depth)
            return out
        if t == "while":
            return "while" + ("" if self.p(self.tight) else " ") + self.cond(s[1]) + self.before_block() + self.block(s[2], depth)
        if t == "for":
            init, c, inc, body = s[1], s[2], s[3], s[4]
            if self.p(self.for_as_while) and not has_free_continue(body):
                self.note("for-as-while")
                parts = [self.stmt(x, depth) for x in init]
                w = "while" + " " + self.cond(c) + self.before_block() + self.block(body + inc, depth)
                return (self.sep() + self.indent * depth).join(parts + [w])
            self.note("for")
            pre = ""
            if init and self.p(self.for_hoist):
                # `for (; c; inc)` with the initialisation in front (second production of the grammar)
                self.note("for-init-hoisted")
                pre = (self.sep() + self.indent * depth).join(self.stmt(x, depth) for x in init) + self.sep() + self.indent * depth
                init = []
            head = "for" + ("" if self.p(self.tight) else " ") + "(" + "; ".join(self.stmt(x, depth) for x in init) + "; " + \
                self.expr(c, 0) + "; " + "; ".join(self.stmt(x, depth) for x in inc) + ")"
            if len(body) == 1 and body[0][0] in ("assign", "print", "opassign", "incr", "decr", "scall") and self.p(0.4) and not self.plain:
                self.note("loop-no-braces")
                return pre + head + " " + self.stmt(body[0], depth)
            return pre + head + self.before_block() + self.block(body, depth)
        if t == "dowhile":
            return "do" + self.before_block() + self.block(s[1], depth) + " while " + self.cond(s[2])
        if t == "brk":
            return "break"
        if t == "cont":
            return "continue"
        if t == "switch":
            return "switch" + ("" if self.p(self.tight) else " ") + self.cond(s[1]) + self.before_block() + self.block(s[2], depth)
        if t == "case":
            lab = s[1]
            if lab == "default":
                return "default:"
            try:
                v = int(lab)
                if str(v) == lab:
                    return "case " + (str(v) if v >= 0 else " -" + str(-v)) + ":"
            except ValueError:
                pass
            if self.p(self.bare) and bare_ok(lab):
                self.note("bare-case-label")
                return "case " + lab + ":"
            return "case " + self.strlit(lab) + ":"
        if t == "try":
            return "try" + self.before_block() + self.block(s[1], depth) + (self.nl() + self.indent * depth if self.brace_nl else " ") + \
                "catch" + self.before_block() + self.block(s[2], depth)
        if t == "label":
            return s[1] + "".join(" " + sc + "." + n for sc, n in s[2]) + ":"
        if t == "throw":
            return "throw " + s[1] + "".join(" " + self.prim(a) for a in s[2])
        if t == "goto":
            return "goto " + s[1]
        if t == "end":
            return "end" if s[1] is None else "end " + self.prim(s[1])
        if t == "print":
            return ("println" if s[1] else "print") + "".join(" " + self.prim(a) for a in s[2])
        if t == "scall":
            return s[1] + " " + s[2] + "".join(" " + self.prim(a) for a in s[3])
        raise ValueError(s)

    def program(self, prog):
        head = ""
        if self.p(self.comments):
            head = "// generated layout\n/* block\n comment */\n"
        return head + self.stmts(prog, 0) + (self.nl() if self.p(0.7) else "")


def render_layouts(rng, prog, consts, n):
    """the first layout is the plain one (one statement per line, no optional spellings)"""
    outs = [Layout(rng, consts, plain=True).program(prog)]
    used = {}
    for _ in range(n - 1):
        lay = Layout(rng, consts)
        outs.append(lay.program(prog))
        for k, v in lay.used.items():
            used[k] = used.get(k, 0) + v
    return outs, used


def prog_line(prog, label, args, layouts):
    return "prog %s %d %s %d %s ## %s" % (label, len(args), " ".join(args), len(layouts),
                                           " ".join(s.encode("latin-1").hex() for s in layouts), to_sexp(prog))


# --------------------------------------------------------------------------------------------
# expression trees for the precedence tie (`tree` lines): operators only, atoms are distinct integers

BINOPS = list(OPTEXT.keys())


def gen_tree(rng, depth, counter):
    if depth <= 0 or rng.random() < 0.2:
        counter[0] += 1
        return ("atom", counter[0])
    c = rng.random()
    if c < 0.2:
        return ("un", rng.choice(["neg", "compl", "not"]), gen_tree(rng, depth - 1, counter))
    return ("bin", rng.choice(BINOPS), gen_tree(rng, depth - 1, counter), gen_tree(rng, depth - 1, counter))


def tree_tokens(e, need=0, redundant=0.0, rng=None):
    """minimal-bracket token list (reference precedence); `redundant` adds superfluous brackets"""
    t = e[0]
    if t == "atom":
        toks = ["a%d" % e[1]]
        mine = PRIMARY
    elif t == "un":
        inner = e[2]
        sub = tree_tokens(inner, PRIMARY if inner[0] != "bin" else 0, redundant, rng)
        if inner[0] == "bin":
            sub = ["("] + sub + [")"]
        toks = [{"neg": "neg", "compl": "~", "not": "!"}[e[1]]] + sub
        mine = UNARY_PREC
    else:
        p = PREC[e[1]]
        toks = tree_tokens(e[2], p, redundant, rng) + [OPTEXT[e[1]]] + tree_tokens(e[3], p + 1, redundant, rng)
        mine = p
    if mine < need and t == "bin":
        toks = ["("] + toks + [")"]
    elif rng is not None and rng.random() < redundant:
        toks = ["("] + toks + [")"]
    return toks


def tokens_to_source(toks, rng):
    """concrete text of a token list (spacing rules of the lexer: unary minus is blank+'-' glued to its operand,
    binary minus never has a blank only on its left)"""
    out = "main:\nlocal.r = "
    for i, t in enumerate(toks):
        if t == "neg":
            # two adjacent unary minus signs can only be lexed apart with a comment in between
            out += "  -" + ("/**/" if i + 1 < len(toks) and toks[i + 1] == "neg" else "")
        elif t.startswith("a") and t[1:].isdigit():
            out += t[1:]
        elif t == "-":
            out += rng.choice(["-", " - ", "- "])
        elif t in ("(", ")", "~", "!"):
            out += t if rng.random() < 0.7 else (t + " " if t != ")" else " " + t)
        else:
            out += rng.choice([t, " " + t + " ", " " + t, t + " "])
    return out + "\nend\n"


def tree_line(rng, depth=5):
    e = gen_tree(rng, depth, [0])
    toks = tree_tokens(e, 0, rng.choice([0.0, 0.0, 0.15]), rng)
    src = tokens_to_source(toks, rng)
    return "tree %s ## %s" % (src.encode("latin-1").hex(), " ".join(toks)), e
