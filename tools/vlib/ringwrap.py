"""Deterministic "ring-wrap" program family (shared by C02, C03; usable by C01).

The emitter keeps the last MAX_PREV_OPCODES (100) recorded opcodes in a ring (`prev_opcodes`,
`prev_opcode_pos` of ScriptEmitter, src/Script/Compiler.cpp); every peephole rewrite looks back through
it (`PrevOpcode`) and steps back with `AbsorbPrevOpcode`.  Some rewrites look back two or three times
without recording anything in between (`if (!!a)`, `if (!1)`, `if (!a)`): the second look reads the
entry *below* the absorbed one, which lies across the wrap-around when the ring index is 0 — that is,
at the 100th / 200th / ... recorded opcode of a script.  A random program puts a given rewrite at a
given ring index with probability 1/100, and the entry that is wrongly read must also look like
something the rewrite reacts to.  This family makes both certain:

  program(k, v) =  prologue, pad(k), unit_0, unit_1, ..., epilogue

* `pad(k)` records exactly k opcodes with plain statements (`local.f = 1` records 2,
  `local.g++` records 3), so consecutive k move everything behind the pad by one ring slot;
  k sweeps 100 consecutive values: EVERY unit meets EVERY ring index once per sweep (twice for 200...),
  whatever the number of opcodes in front of it - nothing here needs to know the emitter's counts.
* `unit_j` = a stale-maker followed by one peephole-sensitive shape.  Stale-makers leave in the ring
  the opcodes the rewrites react to (BOOL_UN_NOT, UN_CAST_BOOLEAN, BOOL_STORE_TRUE/FALSE, STORE_INT*,
  LOAD_<scope>_VAR of the same name, BOOL_TO_VAR), so that an entry read from the wrong slot is
  mistaken for an absorbable one.  Variant v rotates which stale-maker precedes which shape.
* every shape prints what it computed, so the same programs serve the semantic check (C03).

Units are written in the typed AST of tools/vlib/proggen.py (so that Lang.Sem can run them) and rendered
with its plain layout; `TEXT_UNITS` are extra shapes outside that fragment (floats, `self`, commands),
used by the byte-level checks only.
"""
import random

from vlib import proggen


def V(scope, name):
    return ("var", scope, name)


def I(v):
    return ("int", v) if v >= 0 else ("neg", ("int", -v))


def NOT(e):
    return ("not", e)


def ASG(lv, e):
    return ("assign", lv, e)


def PR(tag, *es):
    return ("print", True, [("str", tag)] + list(es))


A, B, C, R, X, Y = V("local", "a"), V("local", "b"), V("local", "c"), V("local", "r"), V("local", "x"), V("local", "y")

# prologue: a is true, b is false, c is 5 (defined values: no script error anywhere in the family)
PROLOGUE = [ASG(A, I(3)), ASG(B, I(0)), ASG(C, I(5)), ASG(V("local", "g"), I(0)), ASG(R, I(0)), ASG(X, I(0)), ASG(Y, I(0))]

# ---- stale-makers: statements whose recorded opcodes are what the rewrites test for
STALE = [
    ("not-and", [ASG(X, NOT(("land", I(1), B)))]),                 # BOOL_STORE_TRUE .. UN_CAST_BOOLEAN BOOL_UN_NOT BOOL_TO_VAR LOAD
    ("not-var", [ASG(X, NOT(A))]),                                 # STORE UN_CAST_BOOLEAN BOOL_UN_NOT BOOL_TO_VAR LOAD
    ("not-lit", [ASG(X, NOT(I(1))), ASG(Y, NOT(I(0)))]),           # BOOL_STORE_FALSE BOOL_TO_VAR LOAD BOOL_STORE_TRUE BOOL_TO_VAR LOAD
    ("dblnot", [ASG(X, NOT(NOT(A)))]),                             # STORE UN_CAST_BOOLEAN LOAD
    ("ints", [ASG(X, I(0)), ASG(Y, I(1)), ASG(X, I(300)), ASG(Y, I(70000))]),   # STORE_INT0/1/2/3 + LOADs
    ("or-not", [ASG(X, ("lor", NOT(A), NOT(B)))]),
    ("same-var", [ASG(X, C), ASG(C, X)]),                          # STORE c LOAD x STORE x LOAD c (fusion bait for `.. = local.c`)
    ("not-not-lit", [ASG(X, NOT(NOT(I(1)))), ASG(Y, NOT(NOT(NOT(B))))]),
    ("cmp", [ASG(X, ("bin", "lt", A, C)), ASG(Y, NOT(("bin", "eq", A, C)))]),
    ("neg", [ASG(X, ("neg", I(5))), ASG(Y, ("neg", A))]),
]


def _if(cond, tag):
    return ("ite", cond, [PR(tag + ":then")], [PR(tag + ":else")])


def _if1(cond, tag):
    return ("ite", cond, [PR(tag + ":then")], [])


# ---- peephole-sensitive shapes (each ends by showing its result)
SHAPES = [
    ("if-dblnot", [_if1(NOT(NOT(A)), "if!!a"), _if(NOT(NOT(B)), "if!!b")]),
    ("if-not-lit", [_if1(NOT(I(1)), "if!1"), _if(NOT(I(0)), "if!0"), _if(NOT(I(300)), "if!300")]),
    ("if-not", [_if1(NOT(A), "if!a"), _if(NOT(B), "if!b")]),
    ("if-lit", [_if1(I(1), "if1"), _if(I(0), "if0"), _if1(I(70000), "if70000")]),
    ("if-var", [_if1(A, "ifa"), _if(B, "ifb")]),
    ("assign-dblnot", [ASG(R, NOT(NOT(A))), PR("!!a", R), ASG(R, NOT(NOT(NOT(A)))), PR("!!!a", R)]),
    ("assign-not-lit", [ASG(R, NOT(I(1))), PR("!1", R), ASG(R, NOT(NOT(I(0)))), PR("!!0", R), ASG(R, NOT(I(256))), PR("!256", R)]),
    ("assign-not-and", [ASG(R, NOT(("land", I(1), B))), PR("!(1&&b)", R), ASG(R, NOT(("lor", A, I(0)))), PR("!(a||0)", R)]),
    ("neg-lit", [ASG(R, ("neg", I(5))), PR("-5", R), ASG(R, ("neg", I(300))), PR("-300", R), ASG(R, ("neg", I(70000))), PR("-70000", R),
                 ASG(R, ("neg", I(16777217))), PR("-16777217", R), ASG(R, ("neg", I(4294967297))), PR("-4294967297", R),
                 ASG(R, ("neg", I(0))), PR("-0", R), ASG(R, ("neg", ("neg", I(7)))), PR("--7", R)]),
    ("fusion-local", [ASG(C, I(6)), ASG(R, C), PR("c", R, C)]),
    ("fusion-scopes", [ASG(V("level", "rw"), I(7)), ASG(R, V("level", "rw")), ASG(V("game", "rw"), I(8)), ASG(X, V("game", "rw")),
                       ASG(V("group", "rw"), I(9)), ASG(Y, V("group", "rw")), ASG(V("parm", "rw"), I(10)), ASG(C, V("parm", "rw")),
                       PR("scopes", R, X, Y, C), ASG(C, I(5))]),
    ("fusion-other-name", [ASG(C, I(6)), ASG(R, X), PR("x", R), ASG(C, I(5))]),
    ("cmp-jump", [_if1(("bin", "lt", A, C), "a<c"), _if(("bin", "eq", A, C), "a==c"), _if1(NOT(("bin", "ge", A, C)), "!(a>=c)")]),
    ("and-or-cond", [_if(("land", A, B), "a&&b"), _if1(("lor", B, NOT(B)), "b||!b"), _if(("land", NOT(A), NOT(B)), "!a&&!b")]),
    ("while-not", [ASG(R, I(0)), ("while", NOT(R), [ASG(R, I(1))]), PR("while!", R),
                   ASG(R, I(2)), ("while", NOT(NOT(R)), [("decr", R)]), PR("while!!", R)]),
    ("while-lit", [ASG(R, I(0)), ("while", I(1), [("incr", R), ("ite", ("bin", "gt", R, I(2)), [("brk",)], [])]), PR("while1", R),
                   ("while", I(0), [PR("never")])]),
    ("for-cmp", [("for", [ASG(R, I(0))], ("bin", "lt", R, I(2)), [("incr", R)], [PR("for", R)])]),
    ("const-fold", [ASG(R, ("bin", "add", I(1), I(2))), PR("1+2", R), ASG(R, ("bin", "mul", I(300), ("neg", I(3)))), PR("300*-3", R),
                    ASG(R, ("bin", "sub", ("neg", I(1)), I(70000))), PR("-1-70000", R)]),
    ("switch", [("switch", A, [("case", "3"), PR("case3"), ("brk",), ("case", "default"), PR("default")])]),
]

# shapes outside the typed fragment (byte-level checks only): (name, source text)
TEXT_UNITS = [
    ("neg-float", 'local.r = -(1.5)\nlocal.r = -( -2.5)\nprintln "negf" local.r'),
    ("if-float", 'if (1.5) { println "iff" }\nif (!0.0) { println "if!f" }'),
    ("not-string", 'if (!"") { println "if!s" }\nlocal.r = !(!"x")\nprintln "!!s" local.r'),
    ("cmd-params", 'println !1 !(!local.a) -(5) (!local.b)'),
    ("method-recv", 'local println !(!local.a)\nif (local) { println "iflocal" }'),
    ("not-nil", 'if (!NIL) { println "if!nil" }\nlocal.r = !(!NULL)'),
    ("fusion-self", 'local.r = game.rw\ngame.rw = 1\nlocal.r = game.rw\nlevel.rw = level.rw'),
    ("array-cond", 'if (!(local.arr[1])) { println "if!arr" }\nif (!!(1::2)) { println "if!!carr" }'),
    ("ternary-ish", 'local.r = (!local.a) && (!!local.b) || !1\nprintln "mix" local.r'),
    ("dowhile-not", 'local.r = 0\ndo { local.r++ } while (!local.r)\nprintln "do!" local.r'),
]

EPILOGUE = [PR("tail-done", A, B, C), ("end", None)]


def pad(k):
    """plain statements that record exactly k opcodes (k >= 2): `local.f = 1` -> STORE_INT1, LOAD_LOCAL_VAR;
    `local.g++` -> STORE_LOCAL_VAR, UN_INC, LOAD_LOCAL_VAR"""
    if k < 2:
        return []
    out = []
    if k % 2:
        out.append(("incr", V("local", "g")))
        k -= 3
    out += [ASG(V("local", "f"), I(1))] * (k // 2)
    return out


def units(v, typed_only=True, only=None):
    """[(name, ast statements or None, text)] for variant v; `only` = iterable of unit indices to keep"""
    lay = proggen.Layout(random.Random(0), plain=True)
    res = []
    n = len(SHAPES) + (0 if typed_only else len(TEXT_UNITS))
    for j in range(n):
        if only is not None and j not in only:
            continue
        sname, sast = STALE[(j + v * 3 + (j // len(STALE))) % len(STALE)]
        if j < len(SHAPES):
            name, ast = SHAPES[j]
            stmts = sast + ast
            res.append((sname + "+" + name, stmts, [lay.stmt(s, 0) for s in stmts]))
        else:
            name, text = TEXT_UNITS[j - len(SHAPES)]
            res.append((sname + "+" + name, None, [lay.stmt(s, 0) for s in sast] + [text]))
    return res


def program(k, v, typed_only=True, only=None):
    """-> dict(name, k, v, ast (proggen statement list or None), stmts (list of statement texts, one per
    top-level statement, without the label line), src)"""
    lay = proggen.Layout(random.Random(0), plain=True)
    us = units(v, typed_only, only)
    body_ast = PROLOGUE + pad(k)
    texts = [lay.stmt(s, 0) for s in body_ast]
    ast_ok = True
    for name, stmts, txt in us:
        if stmts is None:
            ast_ok = False
        else:
            body_ast = body_ast + stmts
        texts += txt
    texts += [lay.stmt(s, 0) for s in EPILOGUE]
    ast = [("label", "main", [])] + body_ast + EPILOGUE if ast_ok else None
    return {"name": "ringwrap:k%d:v%d" % (k, v), "k": k, "v": v, "ast": ast, "stmts": texts,
            "units": [u[0] for u in us], "src": "main:\n" + "\n".join(texts) + "\n"}


def sweep(ks, vs, typed_only=True):
    for v in vs:
        for k in ks:
            yield program(k, v, typed_only)


def sources(quick=True):
    """plain (name, source bytes) list for byte-level users (C01)"""
    ks = range(2, 102) if quick else range(2, 302)
    return [(p["name"], p["src"].encode()) for p in sweep(ks, [0] if quick else range(4), typed_only=False)]
