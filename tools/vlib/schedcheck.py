"""Shared check driver for the properties decided on the scheduler machine (engine harness +
`driver sched`): C05, C06, C07, C13."""
import glob
import json
import os
import re

from vlib import common, schedgen
from vlib.common import Diff, VERIF, LEAN

AREA = "sched"
FIELD_RE = re.compile(r"(\w+)=(\[[^\]]*\]|\S+)")


def fields(line):
    head = line.split(" out=", 1)[0]
    d = dict(FIELD_RE.findall(line))
    d["_status"] = head
    return d


class SchedProp:
    """classify: a difference only in fields the property does not speak about is not a violation
    of *this* property (it is still a broken correspondence: reported no-failing-input-found)."""

    def __init__(self, relevant, what):
        self.relevant = relevant
        self.what = what

    def classify(self, lines, impl, crash, model):
        if crash:
            return "violation", "implementation crashed / sanitizer report: " + crash, crash
        # look at every differing line: the first one may differ only in a field this property does
        # not speak about while a later one shows the property itself failing
        first_other = None
        for i in range(max(len(impl), len(model))):
            a = impl[i] if i < len(impl) else "<missing>"
            b = model[i] if i < len(model) else "<missing>"
            if a == b:
                continue
            fa, fb = fields(a), fields(b)
            diff = sorted(k for k in set(fa) | set(fb) if fa.get(k) != fb.get(k))
            cmd = lines[i] if i < len(lines) else "?"
            if cmd.startswith("script "):
                cmd = "script … ## " + cmd.split("## ", 1)[-1]
            why = "line %d `%s`: implementation `%s` vs proved model `%s` (fields %s)" % (i, cmd, a, b, ",".join(diff))
            rel = [k for k in diff if k in self.relevant]
            if rel:
                return "violation", why + " — " + self.what, "diff:" + "+".join(rel)
            if first_other is None:
                first_other = (why, diff)
        why, diff = first_other
        return "harmless", why + " — differs only in fields this property does not speak about", "diff-other:" + "+".join(diff)


def corpus_cases(pid):
    res = []
    for p in sorted(glob.glob(os.path.join(VERIF, "corpus", pid, "*.json"))):
        res.append(("corpus:" + os.path.basename(p), json.load(open(p))["lines"]))
    return res


def engine_regressions(ctx, exe, pid):
    """Engine-only regression scenarios (corpus/<pid>/engine-only/*.json: {"lines", "expect"}): script
    constructs the machine does not model yet (e.g. `group waittill`).  They run on the real engine only;
    the recorded answers and the absence of a crash are compared.  They are tests, not part of any
    theorem's tie, and are labelled as such in the evidence."""
    n = bad = 0
    for p in sorted(glob.glob(os.path.join(VERIF, "corpus", pid, "engine-only", "*.json"))):
        obj = json.load(open(p))
        impl, crash, info = common.run_lines(exe, [], obj["lines"], timeout=60)
        n += 1
        if crash is None and impl == obj["expect"]:
            continue
        bad += 1
        sig = crash if crash else "engine-only:" + os.path.basename(p)
        replay = common.save_replay(ctx, {
            "property": pid, "kind": "engine-only regression", "case": os.path.basename(p), "lines": obj["lines"],
            "impl_out": impl, "expected": obj["expect"], "crash": crash, "crash_info": info if crash else "",
            "signature": sig, "why": obj.get("note", ""),
            "how_to_replay": "python3 tools/check.py %s --replay <this file>" % pid})
        ctx.violations.append({"signature": sig, "replay": replay, "why": obj.get("note", ""), "found_input": True})
    ctx.oblige("engine-only regression scenarios (%d; tests, not tied to the model)" % n, bad == 0,
               "%d failing" % bad, reported=True)
    ctx.stats["engine_only_scenarios"] = n
    return bad


def build_engine(ctx):
    return common.build_full(ctx, "h_engine", ["engine.cpp"])


def run(ctx, prop, props_module, props_file, case_gens, trusted, assume, rule, extra_cov=None, exhaustive=None, line_monitor=None,
        extra_engine=None):
    """case_gens: list of (name, count_quick, count_thorough, fn(rng) -> lines)"""
    common.proof_side(ctx, props_module, props_file)
    if ctx.tier == "thorough":
        common.leanchecker(ctx, props_module)
    exe = build_engine(ctx)
    d = Diff(ctx, prop, exe, AREA)
    d.line_monitor = line_monitor
    bad = d.run_batch(corpus_cases(ctx.prop_id))
    engine_regressions(ctx, exe, ctx.prop_id)
    if extra_engine:
        extra_engine(ctx, exe)       # engine-only scenario family of the property (own obligation)
    quick = ctx.tier == "quick"
    for name, nq, nt, fn in case_gens:
        rng = ctx.rng(name)
        n = nq if quick else nt
        batch = []
        for i in range(n):
            batch.append(("%s:%d" % (name, i), fn(rng)))
            if len(batch) == 100:
                bad += d.run_batch(batch)
                batch = []
        bad += d.run_batch(batch)
    if exhaustive:
        cases = exhaustive(quick)
        ctx.stats["exhaustive_cases"] = len(cases)
        for i in range(0, len(cases), 200):
            bad += d.run_batch([("exh:%d" % (i + j), c) for j, c in enumerate(cases[i:i + 200])])
    ctx.oblige("correspondence harness/engine.cpp == Sched.Machine on %d cases" % d.cases, bad == 0 and d.failing_cases == 0,
               "%d differing cases" % max(bad, d.failing_cases), reported=True)
    name0, _, _, fn0 = case_gens[0]
    sample = fn0(ctx.rng("sample"))
    ctx.samples = [[l if not l.startswith("script ") else "script m <hex> ## " + l.split("## ", 1)[1] for l in sample]]
    cov = {
        "evaluations": d.cases, "distinct_nontrivial": len(d.distinct), "rule": rule,
        "op_lines": d.lines, "op_histogram": d.hist, "exhaustive": False, "skipped_after_failures": d.skipped,
        "impl_lines_checked_by_monitor": d.monitor_lines,
    }
    if extra_cov:
        cov.update(extra_cov)
    return common.finish(ctx, "proof", cov, trusted, assume,
                         "cd lean && lake build && lake env lean <Audit.lean: #print axioms of every theorem in the Props file>; python3 tools/check.py %s" % ctx.prop_id)


def replay(ctx, prop, obj):
    common.lake_build()
    exe = build_engine(ctx)
    d = Diff(ctx, prop, exe, AREA)
    impl, crash, info, model = d.both(obj["lines"])
    for i, l in enumerate(obj["lines"]):
        if l.startswith("script "):
            l = "script m <hex> ## " + l.split("## ", 1)[-1]
        print("> %s\n  impl : %s\n  model: %s" % (l, impl[i] if i < len(impl) else "<missing>", model[i] if i < len(model) else "<missing>"))
    if crash:
        print("CRASH", crash)
        print(info)
    bad = crash is not None or common.first_diff(impl, model) is not None
    print("replay:", "still differs" if bad else "no difference")
    return 1 if bad else 0
