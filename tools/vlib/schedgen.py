"""Abstract scheduler programs (lean/MorfuseModel/Sched/Machine.lean `Instr`), their rendering to
script text, and seeded generators.  One line carries both forms:
    script m <hex of the rendered text> ## <abstract tokens>
the C++ harness reads the hex, the Lean driver reads what follows `##`."""

import struct
from fractions import Fraction

DURS = [0, 0, 125, 250, 500]
STEPS = [0, 50, 125, 125, 250, 300, 1000]
# nominal durations whose decimal spelling is NOT exact in binary32 (0.7 -> 0.699999988…): the engine's
# `uint64_t(float * 1000.f)` is computed in single precision and happens to give the nominal value;
# any other evaluation (double product, rounding mode, +0.5) gives nominal-1 for some of them
INEXACT_DURS = [700, 900, 350, 450, 650, 950, 50, 100, 300, 600, 1100, 2300]


def _f32(x):
    return struct.unpack("<f", struct.pack("<f", x))[0]


def _strtof(text):
    """binary32 nearest to the decimal `text` (what std::strtof returns), computed exactly"""
    exact = Fraction(text)
    c = _f32(float(exact))
    best = c
    for cand in (c, _f32(c * (1 + 2.0 ** -23)), _f32(c * (1 - 2.0 ** -23))):
        if abs(Fraction(cand) - exact) < abs(Fraction(best) - exact):
            best = cand
    return best


def engine_ms(nominal_ms):
    """milliseconds the engine derives from the literal `secs(nominal_ms)`:
    `uint64_t(std::strtof(text) * 1000.f)` — binary32 product (exact in double, then rounded once)"""
    return int(_f32(_strtof(secs(nominal_ms)) * 1000.0))



PARENT_OPS = ("waitparent", "waittillparent", "notifyparent")


def tok(ins):
    k = ins[0]
    if k == "mark": return "m%d" % ins[1]
    if k == "wait": return "w%d" % engine_ms(ins[1])
    if k == "waittill": return "W%d.%s" % (ins[1], ".".join(str(n) for n in ins[2]))
    if k == "waittill_timeout": return "X%d.%d.%d" % (ins[1], ins[2], engine_ms(ins[3]))
    if k == "notify": return "N%d.%d" % (ins[1], ins[2])
    if k == "endon": return "E%d.%d" % (ins[1], ins[2])
    if k == "delete": return "D%d" % ins[1]
    if k == "spawn": return "S%d" % ins[1]
    if k == "thread": return "t%d" % ins[1]
    if k == "waitthread": return "T%d" % ins[1]
    if k == "pause": return "p"
    if k == "waitparent": return "R%d" % engine_ms(ins[1])
    if k == "waittillparent": return "Y%s" % ".".join(str(n) for n in ins[1])
    if k == "notifyparent": return "Z%d" % ins[1]
    if k == "end":
        if ins[1] is None: return "e"
        if isinstance(ins[1], tuple): return "eP%d" % ins[1][1]
        return "e%d" % ins[1]
    if k == "pparam": return "P%d" % ins[1]
    if k == "params": return "(%d)" % ins[1]
    if k == "badstart": return ("T%d" if BADSTART[ins[1]][1] else "t%d") % ins[2]
    if k == "casestart": return ("T%d" if ins[1] else "t%d") % ins[2]
    if k == "waitsum": return "T%d m%d" % (ins[1], ins[3])
    raise ValueError(ins)


# A thread start that names a label which does not exist (`l` >= number of labels of the program; checked
# in `script_line`).  Whatever the receiver and the file, the statement is a script error that the VM
# reports and skips: for the machine it is `thread l` / `waitthread l` with `l` out of range (a no-op that
# leaves no thread and no script instance).  (text, is-waitthread); `%(o)d` object, `%(l)d` label.
# aux.scr is a second file served through the harness' `source` command; nofile.scr does not exist.
AUX_NAME = "aux.scr"
AUX_SRC = 'a0:\nprintln "aux"\nend\n'
BADSTART = [
    ("thread t%(l)d local", False),
    ("waitthread t%(l)d local", True),
    ("$o%(o)d thread t%(l)d local", False),
    ("$o%(o)d waitthread t%(l)d local", True),
    ("thread aux.scr::t%(l)d local", False),
    ("waitthread aux.scr::t%(l)d local", True),
    ("exec aux.scr::t%(l)d", False),
    ("local.r = waitthread t%(l)d local", True),
    ("local.r = $o%(o)d thread t%(l)d local", False),
    ("thread nofile.scr::t%(l)d local", False),
    ("$o%(o)d exec aux.scr::t%(l)d", False),
    ("$o%(o)d waitexec aux.scr::t%(l)d", True),
    ("local.r = waitthread aux.scr::t%(l)d local", True),
    ("level thread t%(l)d local", False),
]


CASESTART = [
    ("thread T%d local", "waitthread T%d local"),
    ("local.r = thread T%d local", "local.r = waitthread T%d local"),
    ("thread T%d", "waitthread T%d 1 2"),
    ("local thread T%d local", "local waitthread T%d local"),
]


def source_line(name=AUX_NAME, src=AUX_SRC):
    """stores a file the engine may open by name later (IFileManagement); no effect on the machine"""
    return "source %s %s" % (name, src.encode().hex())


def secs(ms):
    if ms % 1000 == 0:
        return str(ms // 1000)
    s = "%d.%03d" % (ms // 1000, ms % 1000)
    return s.rstrip("0")


def objname(o):
    return "level" if o == 50 else "$o%d" % o


def stmt(ins):
    k = ins[0]
    if k == "mark": return 'println "m%d"' % ins[1]
    if k == "wait": return "wait %s" % secs(ins[1])
    if k == "waittill":
        if len(ins[2]) == 1:
            return '%s waittill "n%d"' % (objname(ins[1]), ins[2][0])
        return "%s waittill_any %s" % (objname(ins[1]), " ".join('"n%d"' % n for n in ins[2]))
    if k == "waittill_timeout": return '%s waittill_timeout %s "n%d"' % (objname(ins[1]), secs(ins[3]), ins[2])
    if k == "notify": return '%s notify "n%d"' % (objname(ins[1]), ins[2])
    if k == "endon": return '%s endon "n%d"' % (objname(ins[1]), ins[2])
    if k == "delete": return "$o%d delete" % ins[1]
    if k == "spawn": return 'local.sp%d = spawn SimpleEntity targetname "o%d"' % (ins[1], ins[1])
    if k == "thread": return "thread t%d local" % ins[1]
    if k == "waitthread":
        # third field: the statement form (operand stack empty while the caller waits) or an
        # expression form (the caller is suspended with operands on its VM stack)
        form = ins[2] if len(ins) > 2 else 0
        if form == 1: return "local.r = waitthread t%d local" % ins[1]
        if form == 2: return "local.r[1] = (waitthread t%d local)" % ins[1]
        return "waitthread t%d local" % ins[1]
    if k == "pause": return "pause"
    if k == "waitparent": return "local.p0 wait %s" % secs(ins[1])
    if k == "waittillparent":
        if len(ins[1]) == 1:
            return 'local.p0 waittill "n%d"' % ins[1][0]
        return "local.p0 waittill_any %s" % " ".join('"n%d"' % n for n in ins[1])
    if k == "notifyparent": return 'local.p0 notify "n%d"' % ins[1]
    if k == "end":
        if ins[1] is None: return "end"
        if isinstance(ins[1], tuple): return "end local.p%d" % ins[1][1]
        return "end %d" % ins[1]
    if k == "pparam": return 'println "p" local.p%d' % ins[1]
    if k == "badstart": return BADSTART[ins[1]][0] % {"l": ins[2], "o": ins[3] if len(ins) > 3 else 1}
    if k == "casestart":
        # ("casestart", is-waitthread, l, c, form): a start at the upper-case spelling `T<c>` of the declared
        # label `t<c>`.  Labels are declared in lower case and names are case sensitive: the name is not a
        # label of the script, the statement is the same script error as a `badstart`; for the machine it is
        # a start at the missing label l (>= number of labels; checked in `script_line`).
        return CASESTART[ins[4] if len(ins) > 4 else 0][1 if ins[1] else 0] % ins[3]
    if k == "waitsum":
        # ("waitsum", label, form, expected): `waitthread` in expression position with the callee's result
        # made visible: the caller is suspended with operands on its VM stack, and what it prints once the
        # callee has ended is the marker `m<expected>` iff the result arrived in the right slot.
        # expected = base + (the literal the callee ends with); the abstract form is `T<label> m<expected>`.
        l, form, exp, v = ins[1], ins[2], ins[3], ins[4]
        base = exp - v
        if form == 0: return 'println ("m" + (%d + (waitthread t%d local)))' % (base, l)
        if form == 1: return 'local.r = waitthread t%d local\nprintln ("m" + (local.r + %d))' % (l, base)
        if form == 2: return 'local.q[1] = %d\nlocal.q[2] = (waitthread t%d local)\nprintln ("m" + (local.q[1] + local.q[2]))' % (base, l)
        if form == 3: return 'level.r%d = waitthread t%d local\nprintln ("m" + (level.r%d + %d))' % (l, l, l, base)
        if form == 4: return 'println ("m" + ((waitthread t%d local) + %d))' % (l, base)
        if form == 5: return 'println ("m" + (%d + (%d + (%d + (waitthread t%d local)))))' % (base - 2, 1, 1, l)
        raise ValueError(ins)
    raise ValueError(ins)


def render(prog):
    out = []
    for i, body in enumerate(prog):
        if body and body[0][0] == "params":
            out.append("t%d %s:" % (i, " ".join("local.p%d" % j for j in range(body[0][1]))))
            body = body[1:]
        elif any(x[0] in PARENT_OPS for x in body):
            out.append("t%d local.p0:" % i)
        else:
            out.append("t%d:" % i)
        out += [stmt(x) for x in body]
        if not body or body[-1][0] != "end":
            out.append("end")
    return "\n".join(out) + "\n"


def script_line(prog, name="m"):
    def head(body):
        if body and body[0][0] == "params":
            return ""
        return "(1) " if any(x[0] in PARENT_OPS for x in body) else ""
    for body in prog:
        for x in body:
            assert x[0] != "badstart" or x[2] >= len(prog), "badstart must name a missing label"
            assert x[0] != "casestart" or (x[2] >= len(prog) > x[3]), "casestart: a missing label for the machine, the upper-case spelling of a declared one in the text"
    abstract = " / ".join(head(body) + " ".join(tok(x) for x in body) for body in prog)
    return "script %s %s ## %s" % (name, render(prog).encode().hex(), abstract)


class Marks:
    def __init__(self): self.n = 0
    def next(self):
        self.n += 1
        return ("mark", self.n)


def gen_timer_prog(rng, nlabels=None):
    """C06: threads that only mark, wait, spawn later labels and end"""
    nl = nlabels or rng.randint(1, 5)
    mk = Marks()
    prog = []
    for i in range(nl):
        body = [mk.next()]
        for _ in range(rng.randint(0, 5)):
            r = rng.random()
            if r < 0.5:
                body.append(("wait", rng.choice(DURS)))
                body.append(mk.next())
            elif r < 0.8 and i + 1 < nl:
                body.append(("thread", rng.randint(i + 1, nl - 1)))
                body.append(mk.next())
            elif r < 0.88 and i > 0:
                body.append(("waitparent", rng.choice(DURS)))
                body.append(mk.next())
            elif r < 0.92:
                body.append(("pause",))
                body.append(mk.next())
            else:
                body.append(mk.next())
        if rng.random() < 0.5:
            body.append(("end", rng.choice([None, 7, 42])))
        prog.append(body)
    return prog


def gen_inexact_case(rng):
    """C06 (never early): 1-3 threads waiting durations that are inexact in binary32, and a frame
    schedule that lands one millisecond before, on, and after each due time"""
    nl = rng.randint(1, 3)
    mk = Marks()
    durs = [rng.choice(INEXACT_DURS) for _ in range(nl)]
    prog = [[mk.next()] + [("thread", i + 1) for i in range(nl)] + [mk.next()]]
    for d in durs:
        body = [mk.next(), ("wait", d), mk.next()]
        if rng.random() < 0.4:
            d2 = rng.choice(INEXACT_DURS)
            body += [("wait", d2), mk.next()]
        prog.append(body)
    points = set()
    for body in prog[1:]:
        t = 0
        for ins in body:
            if ins[0] == "wait":
                t += engine_ms(ins[1])
                points |= {t - 1, t, t + 1}
    lines = ["reset", script_line(prog), "call m t0"]
    now = 0
    for t in sorted(x for x in points if x > 0):
        lines.append("step %d" % (t - now))
        now = t
    return lines + ["step 1000", "thread-result"]


def gen_hub_prog(rng):
    """threads of ONE script instance waiting on a *thread object* (their spawner, `local.p0`):
    label 1 is the hub; it spawns waiters / notifiers (labels 2..) that wait on it or notify it"""
    mk = Marks()
    nchild = rng.randint(2, 4)
    hub = [mk.next()]
    for i in range(nchild):
        hub += [("thread", 2 + i)]
        if rng.random() < 0.3:
            hub.append(mk.next())
    r = rng.random()
    cyc = rng.random() < 0.35       # wait cycle: the hub waits (waitthread) for a child that waits on the hub
    if cyc:
        hub += [("waitthread", 2 + nchild)]
    else:
        hub += [("pause",)] if r < 0.4 else [("wait", rng.choice(DURS + [500, 1000]))] if r < 0.8 else []
    hub.append(mk.next())
    if rng.random() < 0.5:
        hub.append(("end", None))
    prog = [[mk.next(), ("thread", 1), mk.next()], hub]
    for i in range(nchild):
        body = [mk.next()]
        x = rng.random()
        if x < 0.6:
            names = [rng.choice([1, 2])] if rng.random() < 0.75 else [1, 2]
            body += [("waittillparent", names), mk.next()]
        elif x < 0.85:
            body += [("wait", rng.choice(DURS)), ("notifyparent", rng.choice([1, 2])), mk.next()]
        else:
            body += [("waitparent", rng.choice(DURS)), mk.next()]
        if rng.random() < 0.3:
            body += [("wait", rng.choice(DURS)), mk.next()]
        prog.append(body)
    if cyc:
        prog.append([mk.next(), ("waittillparent", [rng.choice([1, 2])]), mk.next()])
    return prog


def gen_sync_prog(rng):
    """C07: waittill / waittill_any / notify / endon / delete / waitthread / thread / waits over
    up to 3 objects and 3 names; label 0 is the setup thread that spawns the objects first."""
    nl = rng.randint(2, 6)
    nobj = rng.randint(1, 3)
    mk = Marks()
    prog = []
    for i in range(nl):
        body = []
        if i == 0:
            body += [("spawn", o) for o in range(1, nobj + 1)]
        body.append(mk.next())
        for _ in range(rng.randint(1, 6)):
            r = rng.random()
            o = rng.randint(1, nobj)
            n = rng.randint(1, 3)
            if r < 0.04:
                body.append(("waittill_timeout", o, n, rng.choice([125, 250, 500])))
            elif r < 0.18:
                body.append(("waittill", o, [n]))
            elif r < 0.24:
                ns = sorted(set([n, rng.randint(1, 3)]))
                body.append(("waittill", o, ns))
            elif r < 0.42:
                body.append(("notify", o, n))
            elif r < 0.50:
                body.append(("endon", o, n))
            elif r < 0.55:
                body.append(("delete", o))
            elif r < 0.70 and i + 1 < nl:
                body.append(("thread", rng.randint(i + 1, nl - 1)))
            elif r < 0.80 and i + 1 < nl:
                body.append(("waitthread", rng.randint(i + 1, nl - 1)))
            elif r < 0.92:
                body.append(("wait", rng.choice(DURS)))
            else:
                x = rng.random()
                body.append(("pause",) if x < 0.3 else ("waitparent", rng.choice(DURS)) if x < 0.6 and i > 0 else mk.next())
            body.append(mk.next())
        if rng.random() < 0.4:
            body.append(("end", rng.choice([None, 7])))
        prog.append(body)
    return prog


def gen_case(rng, prog, ncalls=None, nsteps=None):
    lines = ["reset", script_line(prog)]
    ncalls = ncalls or rng.choice([1, 1, 2, 3])
    nsteps = nsteps or rng.randint(3, 10)
    # label 0 (the setup thread that spawns the objects) is called exactly once, first
    pending = [("call m t%d" % (0 if i == 0 else rng.randrange(1 if len(prog) > 1 else 0, len(prog)))) for i in range(ncalls)]
    lines.append(pending.pop(0))
    for _ in range(nsteps):
        if pending and rng.random() < 0.4:
            lines.append(pending.pop(0))
        if rng.random() < 0.2:
            lines.append("thread-result")
        lines.append("step %d" % rng.choice(STEPS))
    lines += pending
    lines.append("step 1000")
    lines.append("step 1000")
    lines.append("thread-result")
    return lines


WORDS = ["a", "zz", "hey", "", "nil", "x y"]


def gen_arg(rng):
    r = rng.random()
    if r < 0.4:
        return "i%d" % rng.choice([0, 1, 5, 42, 70000, 123456789])
    if r < 0.8:
        return "s" + rng.choice(WORDS).encode().hex()
    return "n"


def gen_call_prog(rng):
    """C05: labels with 0..8 declared parameters that print them, then finish synchronously, after k
    timed waits, after being woken by another call, or never (paused / killed through endon)."""
    nl = rng.randint(2, 4)
    mk = Marks()
    prog = [[("spawn", 1), mk.next()]]
    for i in range(1, nl):
        k = rng.randint(0, 8)
        body = [("params", k)] + [("pparam", j) for j in range(k)]
        mode = rng.choice(["sync", "waits", "waittill", "pause", "endon"])
        if mode == "waits":
            for _ in range(rng.randint(1, 3)):
                body += [("wait", rng.choice(DURS)), mk.next()]
        elif mode == "waittill":
            body += [("waittill", 1, [1]), mk.next()]
        elif mode == "pause":
            body += [("pause",), mk.next()]
        elif mode == "endon":
            body += [("endon", 1, 2), ("wait", 500), mk.next()]
        r = rng.random()
        if r < 0.3:
            body.append(("end", None))
        elif r < 0.6 or k == 0:
            body.append(("end", rng.choice([0, 7, 42])))
        else:
            body.append(("end", ("param", rng.randrange(k))))
        prog.append(body)
    # a notifier label; in a third of the programs it first tries to start a thread at the upper-case
    # spelling of a declared label (a name that is not a label: script error, nothing started)
    tail = [mk.next(), ("notify", 1, rng.choice([1, 2])), mk.next()]
    if rng.random() < 0.35:
        tail.insert(rng.choice([0, 1, 2]), ("casestart", rng.random() < 0.5, nl + 1 + rng.randint(0, 3), rng.randrange(1, nl), rng.randrange(len(CASESTART))))
    prog.append(tail)
    return prog


def gen_call_case(rng):
    prog = gen_call_prog(rng)
    lines = ["reset", script_line(prog), "call m t0"]
    for _ in range(rng.randint(2, 6)):
        r = rng.random()
        if r < 0.55:
            l = rng.randrange(1, len(prog) - 1)
            lines.append("call m t%d %s" % (l, " ".join(gen_arg(rng) for _ in range(rng.randint(0, 8)))))
            lines.append("thread-result")
        elif r < 0.7:
            lines.append("call m t%d" % (len(prog) - 1))
            lines.append("thread-result")
        elif r < 0.8:
            if rng.random() < 0.5:
                lines.append("call m t%d" % (len(prog) + rng.randint(0, 3)))      # label not found
            else:
                # the upper-case spelling of a declared label (labels are declared in lower case, names are
                # case sensitive): label not found as well, with and without arguments, with and without
                # a call record (`callv`)
                l = rng.randrange(0, len(prog))
                if rng.random() < 0.25:
                    lines.append("callv m T%d" % l)
                else:
                    lines.append(("call m T%d %s" % (l, " ".join(gen_arg(rng) for _ in range(rng.randint(0, 3))))).rstrip())
        else:
            lines.append("step %d" % rng.choice(STEPS))
            lines.append("thread-result")
    lines += ["step 1000", "thread-result", "step 1000", "thread-result"]
    # a third of the host calls go through the by-name overloads ExecuteThread(name, [event,] label)
    lines = [l.replace(" m ", " @m ", 1) if l.startswith(("call m ", "callv m ")) and rng.random() < 0.33 else l for l in lines]
    return lines


def gen_reset_case(rng):
    """C13: a sync/timer program run under a random schedule with director.Reset() or a recompile of the
    same script injected at a frame / host-call boundary, after which the script is compiled again and run"""
    r = rng.random()
    prog = gen_sync_prog(rng) if r < 0.55 else gen_timer_prog(rng) if r < 0.8 else gen_hub_prog(rng)
    base = gen_case(rng, prog)
    body = base[2:-3]
    cut = rng.randint(1, len(body)) if body else 0
    inject = rng.choice(["reset", "recompile", "recompile-other"])
    lines = base[:2] + body[:cut]
    if inject == "reset":
        lines += ["reset-director", script_line(prog)]
    elif inject == "recompile":
        lines += [script_line(prog)]
    else:
        prog2 = gen_timer_prog(rng)
        prog = prog2
        lines += [script_line(prog2)]
    # run again "as if new": objects spawned earlier are still there, so only call non-setup labels
    for _ in range(rng.randint(1, 3)):
        lines.append("call m t%d" % rng.randrange(1 if len(prog) > 1 else 0, len(prog)))
        lines.append("step %d" % rng.choice(STEPS))
    lines += ["step 1000", "step 1000", "thread-result"]
    return lines


def gen_c09_prog(rng):
    """C09 (scheduling part): threads waiting on timers and on each other (waitthread), no host objects"""
    nl = rng.randint(2, 5)
    mk = Marks()
    prog = []
    for i in range(nl):
        body = [mk.next()]
        for _ in range(rng.randint(1, 5)):
            r = rng.random()
            if r < 0.45:
                body.append(("wait", rng.choice(DURS + [1000])))
            elif r < 0.65 and i + 1 < nl:
                body.append(("thread", rng.randint(i + 1, nl - 1)))
            elif r < 0.85 and i + 1 < nl:
                body.append(("waitthread", rng.randint(i + 1, nl - 1), rng.choice([0, 0, 1, 2])))
            elif r < 0.9:
                body.append(("pause",))
            elif r < 0.94:
                body.append(("waittill", 50, [rng.randint(1, 2)]))
            elif r < 0.98:
                body.append(("notify", 50, rng.randint(1, 2)))
            else:
                body.append(("endon", 50, rng.randint(1, 2)))
            body.append(mk.next())
        prog.append(body)
    return prog


def gen_c09_case(rng, prog=None, cut=None):
    prog = prog or gen_c09_prog(rng)
    lines = ["reset", script_line(prog), "callv m t0"]
    for _ in range(rng.randint(3, 9)):
        if rng.random() < 0.25:
            lines.append("callv m t%d" % rng.randrange(len(prog)))
        lines.append("step %d" % rng.choice(STEPS))
    lines += ["step 1000", "step 1000"]
    k = cut if cut is not None else rng.randint(3, len(lines))
    return lines[:k] + ["save", "load"] + lines[k:], lines, k


VAR_SETUP = [
    'local.i = 123456789', 'local.s = "abc def"', 'local.a[1] = 5', 'local.a[2] = "x"', 'local.a["k"] = 7',
    'local.b = local.a', 'local.c = 1::2::"three"', 'local.f = 1.5', 'local.n = NIL', 'local.v = (1 2 3)',
    'local.me = local', 'group.g = 77', 'local.e = ""', 'local.big = 4294967297', 'local.neg = -5',
    'local.aa[1][2] = 9', 'local.ch = "abc"[1]', 'local.a[(0 - 1)] = 3', 'local.a[0] = 4', 'local.a[(0 - 70000)] = 8',
]
VAR_PRINTS = [
    'println "i" local.i', 'println "s" local.s', 'println "a" local.a[1] local.a[2] local.a["k"]',
    'println "b" local.b[1] local.b[2]', 'println "c" local.c[1] local.c[3]', 'println "f" local.f',
    'println "n" local.n', 'println "v" local.v', 'println "me" (local.me == local)', 'println "g" group.g',
    'println "e" local.e', 'println "big" local.big', 'println "neg" local.neg', 'println "aa" local.aa[1][2]',
    'println "ch" local.ch', 'println "sz" local.a.size', 'println "an" local.a[(0 - 1)] local.a[0] local.a[(0 - 70000)]',
]
VAR_MUTS = ['local.a[(0 - 1)] = local.a[(0 - 1)] + 1', 'local.a[1] = 6', 'local.b[2] = "y"', 'local.i = local.i + 1', 'local.s = local.s + "!"', 'group.g = group.g + 1',
            'local.a[3] = local.i', 'local.aa[1][2] = local.aa[1][2] * 2']


def gen_vars_script(rng):
    """C09 (values part, implementation A/B only): locals of every archivable kind set before a wait,
    mutated and printed after it (shared arrays must still be shared)"""
    nl = rng.randint(1, 3)
    out = []
    for i in range(nl):
        out.append("t%d:" % i)
        setup = list(VAR_SETUP) if rng.random() < 0.4 else rng.sample(VAR_SETUP, rng.randint(3, len(VAR_SETUP)))
        rng.shuffle(setup)
        # keep dependencies: b needs a
        if 'local.b = local.a' in setup and 'local.a[1] = 5' not in setup:
            setup.remove('local.b = local.a')
        out += setup
        if i + 1 < nl and rng.random() < 0.7:
            out.append("thread t%d" % (i + 1))
        for _ in range(rng.randint(1, 3)):
            out.append("wait %s" % secs(rng.choice([125, 250, 500])))
            out += rng.sample(VAR_MUTS, rng.randint(0, 3))
            out += list(VAR_PRINTS) if rng.random() < 0.4 else rng.sample(VAR_PRINTS, rng.randint(2, 8))
        out.append("end")
    return "\n".join(out) + "\n"


def gen_vars_case(rng):
    src = gen_vars_script(rng)
    lines = ["reset", "script m %s" % src.encode().hex(), "callv m t0"]
    for _ in range(rng.randint(3, 8)):
        lines.append("step %d" % rng.choice([50, 125, 125, 250, 300]))
    lines += ["step 1000", "step 1000"]
    return lines, src


# ---------------------------------------------------------------------------------------------
# thread starts at labels that do not exist (C13 "idle means empty": a failed start leaves nothing)

HOST_BADCALLS = ["call m t%d", "callv m t%d", "call @m t%d", "callv @m t%d", "call m t%d i5 s6162"]


def inject_badstarts(rng, prog, count=None):
    """a copy of `prog` with thread starts at missing labels (every receiver / file form of BADSTART)
    inserted at random positions of random bodies"""
    prog = [list(b) for b in prog]
    for _ in range(count or rng.randint(1, 4)):
        body = rng.choice(prog)
        lo = 1 if body and body[0][0] == "params" else 0
        hi = len(body) - 1 if body and body[-1][0] == "end" else len(body)
        pos = rng.randint(lo, max(lo, hi))
        body.insert(pos, ("badstart", rng.randrange(len(BADSTART)), len(prog) + rng.randint(0, 3), rng.randint(1, 3)))
    return prog


def inject_host_badcalls(rng, lines, nlabels, count=None):
    """host calls of labels that do not exist, between the commands that follow the first call"""
    lines = list(lines)
    first = next(i for i, l in enumerate(lines) if l.startswith("call"))
    for _ in range(count if count is not None else rng.randint(0, 3)):
        pos = rng.randint(first, len(lines) - 1)
        lines.insert(pos, rng.choice(HOST_BADCALLS) % (nlabels + rng.randint(0, 3)))
    return lines


def gen_badlabel_case(rng):
    r = rng.random()
    if r < 0.5:
        prog, ncalls = gen_sync_prog(rng), None
    elif r < 0.8:
        prog, ncalls = gen_timer_prog(rng), None
    else:
        prog, ncalls = gen_hub_prog(rng), 1
    prog = inject_badstarts(rng, prog)
    lines = gen_case(rng, prog, ncalls=ncalls)
    lines = inject_host_badcalls(rng, lines, len(prog))
    return [lines[0], source_line()] + lines[1:]


def badlabel_family():
    """deterministic: every BADSTART form before and after a timed wait, in the first thread, in a thread of
    the same instance and in a `waitthread` callee (own instance), with every host form of a bad call"""
    cases = []
    for v in range(len(BADSTART)):
        bad = ("badstart", v, 7, 1)
        for shape in range(3):
            if shape == 0:
                prog = [[("spawn", 1), ("mark", 1), bad, ("mark", 2), ("wait", 125), ("mark", 3), bad, ("mark", 4)]]
            elif shape == 1:
                prog = [[("spawn", 1), ("mark", 1), ("thread", 1), ("mark", 2)],
                        [("mark", 10), bad, ("mark", 11), ("wait", 125), bad, ("mark", 12), ("end", 5)]]
            else:
                prog = [[("spawn", 1), ("mark", 1), ("waitthread", 1), ("mark", 2), bad, ("mark", 3)],
                        [("mark", 10), bad, ("mark", 11), ("wait", 125), bad, ("mark", 12), ("end", 5)]]
            host = HOST_BADCALLS[(v + shape) % len(HOST_BADCALLS)] % (len(prog) + shape)
            cases.append(["reset", source_line(), script_line(prog), "call m t0", host, "step 0", "step 125", host,
                          "step 1000", "step 1000", "thread-result"])
    # the host forms alone: nothing was ever started
    for h in HOST_BADCALLS:
        prog = [[("mark", 1)]]
        cases.append(["reset", script_line(prog), h % 1, "step 0", h % 4, "step 1000", "thread-result"])
    return cases


# ---------------------------------------------------------------------------------------------
# C07: one object carrying `endon` registrations under several event names at the same time

def _orders(names):
    """every non-empty sequence of distinct names (every subset in every order)"""
    import itertools
    res = []
    for r in range(1, len(names) + 1):
        res += [list(p) for p in itertools.permutations(names, r)]
    return res


def endon_family(quick=True):
    """k threads each `$o1 endon n_i` (distinct names, same object), then parked (on a gate object, on a
    timer, paused); the names are notified in every order — inside one command by the first thread, or by
    separate host calls between frames — and the gate is opened at the end: the markers show exactly the
    threads whose own event was never notified.  Plus: a thread named under two names, two threads under
    one name beside a third name, the same names on a second object (must be unaffected)."""
    cases = []
    GATE = 9
    parks = [[("waittill", 2, [GATE])], [("wait", 250)], [("pause",)]]
    for k in ((2, 3) if quick else (2, 3, 4)):
        names = list(range(1, k + 1))
        for shape in range(4):
            # victims: label index 1..; (list of (obj, name) endon registrations)
            if shape == 0:
                regs = [[(1, n)] for n in names]
            elif shape == 1:
                regs = [[(1, 1), (1, 2)]] + [[(1, n)] for n in names[2:]] + [[(1, names[-1])]]
            elif shape == 2:
                regs = [[(1, n)] for n in names] + [[(1, 1)]]
            else:
                regs = [[(1, n)] for n in names] + [[(3, n)] for n in names]      # object 3: same names, never notified
            for pi, park in enumerate(parks):
                if shape and pi and quick:
                    continue
                for order in _orders(names):
                    if shape and quick and len(order) < 2:
                        continue
                    nv = len(regs)
                    victims = [[("endon", o, n) for (o, n) in r] + [("mark", 10 + i)] + park + [("mark", 20 + i)]
                               for i, r in enumerate(regs)]
                    start = [("spawn", 1), ("spawn", 2), ("spawn", 3), ("mark", 1)] + [("thread", 1 + i) for i in range(nv)] + [("mark", 2)]
                    # (a) every notify inside the first command
                    body = list(start)
                    for j, n in enumerate(order):
                        body += [("notify", 1, n), ("mark", 30 + j)]
                    body += [("notify", 2, GATE), ("mark", 3)]
                    cases.append(["reset", script_line([body] + victims), "call m t0", "step 125", "step 125", "step 1000", "thread-result"])
                    # (b) notifier labels called by the host between frames
                    notifiers = [[("notify", 1, n), ("mark", 40 + n)] for n in names]
                    gate = [[("notify", 2, GATE), ("mark", 4)]]
                    prog = [start] + victims + notifiers + gate
                    lines = ["reset", script_line(prog), "call m t0"]
                    for j, n in enumerate(order):
                        lines += ["call m t%d" % (1 + nv + n - 1), "step %d" % (0 if j % 2 == 0 else 50)]
                    lines += ["call m t%d" % (1 + nv + k), "step 125", "step 1000", "thread-result"]
                    cases.append(lines)
    return cases


def gen_endon_prog(rng):
    """C07 (random): 2-5 threads with 1-3 `endon` registrations each over few objects and up to 4 names
    (so that one object usually carries several names at once), parked in different ways; the first thread
    and notifier labels notify / delete in random order"""
    nobj = rng.choice([1, 1, 2])
    nnames = rng.randint(2, 4)
    nv = rng.randint(2, 5)
    mk = Marks()
    GATE = 9
    victims = []
    for i in range(nv):
        body = [mk.next()]
        for _ in range(rng.choice([1, 1, 2, 3])):
            body.append(("endon", rng.randint(1, nobj), rng.randint(1, nnames)))
        for _ in range(rng.choice([1, 1, 2])):
            r = rng.random()
            if r < 0.35:
                body.append(("waittill", 3, [GATE]))
            elif r < 0.6:
                body.append(("wait", rng.choice([125, 250, 500])))
            elif r < 0.8:
                body.append(("waittill", rng.randint(1, nobj), [rng.randint(1, nnames)]))
            elif r < 0.9:
                body.append(("pause",))
            else:
                body.append(("endon", rng.randint(1, nobj), rng.randint(1, nnames)))
            body.append(mk.next())
        victims.append(body)
    nnot = rng.randint(1, 3)
    notifiers = []
    for _ in range(nnot):
        body = [mk.next()]
        for _ in range(rng.randint(1, 3)):
            r = rng.random()
            if r < 0.8:
                body.append(("notify", rng.randint(1, nobj), rng.randint(1, nnames)))
            elif r < 0.9:
                body.append(("notify", 3, GATE))
            else:
                body.append(("delete", rng.randint(1, nobj)))
            body.append(mk.next())
        notifiers.append(body)
    first = [("spawn", o) for o in range(1, nobj + 1)] + [("spawn", 3), mk.next()]
    order = list(range(1, nv + 1))
    rng.shuffle(order)
    for v in order:
        first.append(("thread", v))
    first.append(mk.next())
    for _ in range(rng.randint(0, 4)):
        r = rng.random()
        if r < 0.7:
            first.append(("notify", rng.randint(1, nobj), rng.randint(1, nnames)))
        elif r < 0.85:
            first.append(("wait", rng.choice([0, 125, 250])))
        else:
            first.append(("thread", nv + rng.randint(1, nnot)))
        first.append(mk.next())
    if rng.random() < 0.5:
        first += [("notify", 3, GATE), mk.next()]
    return [first] + victims + notifiers, nv


def gen_endon_case(rng):
    prog, nv = gen_endon_prog(rng)
    lines = ["reset", script_line(prog), "call m t0"]
    for _ in range(rng.randint(2, 8)):
        r = rng.random()
        if r < 0.5:
            lines.append("call m t%d" % rng.randint(nv + 1, len(prog) - 1))
        elif r < 0.55:
            lines.append("call m t%d" % rng.randint(1, nv))
        lines.append("step %d" % rng.choice(STEPS))
    lines += ["step 1000", "step 1000", "thread-result"]
    return lines


# ---------------------------------------------------------------------------------------------
# C09: threads suspended in the MIDDLE OF AN EXPRESSION at the save point (`waitthread` whose result is
# used: operands on the caller's VM stack while the callee sleeps across the save), results visible

def c09_expr_programs(quick=True):
    """deterministic programs (machine-comparable) + frame schedules; the callers print `m<base+result>`"""
    progs = []
    steps7 = ["step 125"] * 6 + ["step 1000"]
    for form in range(6):
        # two calls one after the other, the callees sleep over one / two frame boundaries
        progs.append(([[("mark", 1), ("wait", 125), ("waitsum", 1, form, 107, 7), ("mark", 2), ("waitsum", 2, form, 504, 4), ("mark", 3)],
                       [("mark", 10), ("wait", 250), ("mark", 11), ("end", 7)],
                       [("mark", 20), ("wait", 125), ("mark", 21), ("wait", 125), ("end", 4)]], steps7))
        # nested: the callee is itself suspended mid-expression on a third thread
        f2 = (form + 1) % 6
        progs.append(([[("mark", 1), ("waitsum", 1, form, 307, 7), ("mark", 2)],
                       [("mark", 10), ("wait", 125), ("waitsum", 2, f2, 242, 42), ("mark", 11), ("wait", 125), ("end", 7)],
                       [("mark", 20), ("wait", 250), ("mark", 21), ("end", 42)]], ["step 125"] * 5 + ["step 1000"]))
    for form in ((0, 1, 3) if quick else range(6)):
        # two callers suspended at the same time beside a ticker; frames of 50 ms so that saves fall everywhere
        progs.append(([[("mark", 1), ("thread", 1), ("thread", 2), ("thread", 5), ("mark", 2)],
                       [("mark", 10), ("waitsum", 3, form, 207, 7), ("mark", 11), ("wait", 125), ("mark", 12)],
                       [("mark", 20), ("wait", 50), ("waitsum", 4, (form + 2) % 6, 904, 4), ("mark", 21)],
                       [("mark", 30), ("wait", 125), ("mark", 31), ("wait", 125), ("end", 7)],
                       [("wait", 250), ("mark", 40), ("end", 4)],
                       [("wait", 125), ("mark", 50), ("wait", 125), ("mark", 51), ("wait", 125), ("mark", 52)]],
                      ["step 50", "step 75", "step 125", "step 50", "step 75", "step 125", "step 1000"]))
        # control: the callee ends inside the call (no suspension), and a callee that waits 0
        progs.append(([[("mark", 1), ("waitsum", 1, form, 107, 7), ("mark", 2), ("wait", 125), ("waitsum", 2, form, 204, 4), ("mark", 3)],
                       [("mark", 10), ("end", 7)],
                       [("mark", 20), ("wait", 0), ("mark", 21), ("end", 4)]], ["step 0", "step 125", "step 125", "step 1000"]))
    return [(p, ["reset", script_line(p), "callv m t0"] + steps) for p, steps in progs]


def c09_expr_model_cases(quick=True):
    """the programs above with `save; load` at EVERY boundary, for the machine-vs-engine comparison"""
    cases = []
    for i, (prog, base) in enumerate(c09_expr_programs(quick)):
        for k in range(3, len(base)):
            cases.append(("expr%d@%d" % (i, k), base[:k] + ["save", "load"] + base[k:]))
    return cases


def gen_c09_expr_prog(rng):
    """random: like gen_c09_prog (timers, thread, waitthread, pause, level waittill/notify; no endon: nothing
    is killed, so every callee's result is the literal it ends with) with `waitthread` mostly in expression
    position and its result printed"""
    nl = rng.randint(2, 5)
    mk = Marks()
    ends = [rng.choice([4, 7, 42]) for _ in range(nl)]
    prog = []
    for i in range(nl):
        body = [mk.next()]
        for _ in range(rng.randint(1, 5)):
            r = rng.random()
            if r < 0.4:
                body.append(("wait", rng.choice(DURS + [1000])))
            elif r < 0.5 and i + 1 < nl:
                body.append(("thread", rng.randint(i + 1, nl - 1)))
            elif r < 0.88 and i + 1 < nl:
                l = rng.randint(i + 1, nl - 1)
                body.append(("waitsum", l, rng.randrange(6), 100 * rng.randint(1, 9) + ends[l], ends[l]))
            elif r < 0.9:
                body.append(("pause",))
            elif r < 0.95:
                body.append(("waittill", 50, [rng.randint(1, 2)]))
            else:
                body.append(("notify", 50, rng.randint(1, 2)))
            body.append(mk.next())
        body.append(("end", ends[i]))
        prog.append(body)
    return prog


# engine A/B only (free script text): results of suspended calls used as arguments, in string / array /
# vector expressions, in conditions; level variables printed at the end; threads sleeping inside try blocks
# into which other threads throw catch labels (the machine has no try/catch)
AB_EXPR_SCRIPTS = [
    # the shape of seeded/C09-ind-6: assignment + arithmetic, level variable
    """t0:
level.acc = 0
thread ticker 0.15
wait 0.2
local.r = waitthread slow 7
println "slow returned " local.r
println ("sum " + (100 + (waitthread slow 4)))
level.result = local.r
println "result " level.result " acc " level.acc
end
slow local.x:
wait 0.25
level.acc += local.x
wait 0.1
end (local.x * 2)
ticker local.period:
for (local.i = 1; local.i <= 6; local.i++) {
  wait local.period
  println "tick " local.i
}
end
""",
    # results as arguments of another call, left and right operands both pending in turn
    """t0:
local.r = waitthread add (waitthread slow 3) (waitthread slow 5)
println "r " local.r
local.s = (waitthread slow 1) + (waitthread slow 2) * (waitthread slow 3)
println "s " local.s
level.out = local.r + local.s
println "level " level.out
end
add local.a local.b:
wait 0.125
end (local.a + local.b)
slow local.x:
wait 0.125
println "slow " local.x
wait 0.125
end (local.x * 2)
""",
    # strings, arrays, vectors, a listener reference under the pending slot
    """t0:
local.a[1] = "x" + (waitthread wordf "mid") + "y"
println local.a[1]
local.a[(waitthread numf 2)] = "two"
println local.a[2]
local.v = (1 2 3) + (waitthread vecf)
println local.v
local.me = local
local.same = (local.me == (waitthread selff local))
println "same " local.same
local.b[1][(waitthread numf 3)] = (waitthread numf 4)
println local.b[1][3]
end
wordf local.w:
wait 0.25
end (local.w + "!")
numf local.n:
wait 0.125
end local.n
vecf:
wait 0.125
end (10 20 30)
selff local.o:
wait 0.125
end local.o
""",
    # conditions and loop bounds
    """t0:
if ((waitthread numf 2) == 2) {
  println "yes"
} else {
  println "no"
}
local.i = 0
while (local.i < (waitthread numf 2)) {
  println "loop " local.i
  local.i++
}
local.k = ((waitthread numf 1) && (waitthread numf 5)) + ((waitthread numf 0) || (waitthread numf 6))
println "k " local.k
switch (waitthread numf 3) {
case 3:
  println "three"
  break
default:
  println "other"
  break
}
end
numf local.n:
wait 0.125
end local.n
""",
    # try/catch (the shape of seeded/C09-ind-9): workers sleeping inside a try block, each with a watchdog thread that
    # throws the catch label into it after its own delay (before the first wake-up, between the two, never): for
    # the save points between a worker's last instruction and the throw, the throw reaches a restored thread that
    # has not run since the load; the output says which path ran
    """t0:
thread worker 1 0.1
thread worker 2 0.2
thread worker 3 0.35
thread worker 4 0.55
thread worker 5 2
wait 1.5
println "main done"
end
worker local.id local.when:
thread watchdog local local.when local.id
local.progress = 0
try
{
  println "worker " local.id " starts"
  wait 0.3
  local.progress = 1
  wait 0.3
  local.progress = 2
  println "worker " local.id " finished normally"
}
catch
{
aborted:
  println "worker " local.id " aborted at progress " local.progress
}
println "worker " local.id " leaves"
end
watchdog local.target local.when local.id:
wait local.when
if (local.target)
{
  println "watchdog " local.id " fires"
  local.target throw aborted
  println "watchdog " local.id " fired"
}
else
{
  println "watchdog " local.id ": target gone"
}
end
""",
    # nested try blocks; the target is suspended in `waitthread` (mid-expression), in a catch handler's own wait
    # and in `waittill`; throws of the inner label, the outer label and a label nobody catches (ends the thread)
    """t0:
thread worker
wait 1.2
println "main done"
end
ctl local.w:
wait 0.13
println "throw inner"
local.w throw inner 5
wait 0.3
if (local.w) {
  println "throw outer"
  local.w throw outer "bye"
}
wait 0.2
if (local.w) {
  println "throw unknown"
  local.w throw nobody
}
wait 0.2
if (local.w) {
  println "worker still there"
}
println "ctl done"
end
worker:
thread ctl local
local.stage = 0
try
{
  local.stage = 1
  try
  {
    local.stage = 2
    local.r = waitthread slow 3
    println "inner done " local.r
  }
  catch
  {
  inner local.code:
    println "caught inner " local.code " at stage " local.stage
    local.stage = 3
    wait 0.2
    println "inner handler done"
  }
  local.stage = 4
  level waittill "never"
  println "not reached"
}
catch
{
outer local.msg:
  println "caught outer " local.msg " at stage " local.stage
}
println "worker leaves"
wait 0.5
println "worker end"
end
slow local.x:
wait 0.4
println "slow done"
end (local.x * 2)
""",
    # `throw` and `delaythrow` with arguments into threads sleeping in a loop inside try and in `level waittill`
    """t0:
level.caught = 0
thread sleeper 1 0.125
thread sleeper 2 0.3
thread sleeper 3 0.45
thread listener 4 0.2
thread listener 5 0.7
wait 1.4
println "caught " level.caught
end
sleeper local.id local.when:
thread nudge local local.when local.id
try
{
  for (local.i = 1; local.i <= 4; local.i++)
  {
    wait 0.25
    println "sleeper " local.id " lap " local.i
  }
}
catch
{
stop local.why local.n:
  level.caught++
  println "sleeper " local.id " stopped: " local.why " " local.n " in lap " local.i
  wait 0.1
  println "sleeper " local.id " cleanup done"
}
end local.id
listener local.id local.when:
thread nudge local local.when local.id
try
{
  level waittill "go"
  println "listener " local.id " went"
}
catch
{
stop local.why local.n:
  level.caught++
  println "listener " local.id " stopped: " local.why " " local.n
}
end
nudge local.t local.when local.id:
wait local.when
if (local.id == 2 || local.id == 5)
{
  local.t delaythrow stop "delayed" local.id
}
else
{
  local.t throw stop "now" local.id
}
println "nudged " local.id
end
""",
]


def c09_expr_ab_cases(quick=True):
    """(description, base lines) for the engine-vs-engine run with save;load at every boundary"""
    res = []
    for prog, base in c09_expr_programs(quick):
        res.append((base[1].split("## ", 1)[-1], base))
    for src in AB_EXPR_SCRIPTS:
        res.append((src, ["reset", "script m %s" % src.encode().hex(), "callv m t0"] + ["step 50", "step 75"] * 9 + ["step 125"] * 4 + ["step 1000"]))
    return res


# ---------------------------------------------------------------------------------------------
# C06: one huge single clock advance (a suspended host) before waits whose frames straddle the due time

# values around the limits of exact integers in binary32 / of 32-bit arithmetic; odd ones and ones that
# are not a multiple of the float spacing at their magnitude (2 above 2^24, 4 above 2^25, 256 above 2^31 …)
HUGE_ADVANCES = [2 ** 24 - 1, 2 ** 24 + 1, 2 ** 24 + 3, 2 ** 25 + 1, 2 ** 25 + 2, 2 ** 25 + 3, 123456789, 2 ** 31 - 1, 2 ** 31 + 1,
                 2 ** 31 + 129, 2 ** 32 - 1, 2 ** 32 + 1, 2 ** 32 + 257, 2 ** 33 + 513, 2 ** 40 + 1, 3 * 2 ** 24 + 5, 10 ** 12 + 1]


def _straddle(d):
    """frames one millisecond before, on and after a due time `d` ms from now (d >= 2)"""
    return ["step %d" % (d - 1), "step 1", "step 1"]


def huge_advance_family(quick=True):
    """The injected clock jumps once by a huge amount (2^24±1, ±3, 2^31±1, 2^32+1 …), then a thread waits
    `d` and the frames land at due-1 / due / due+1; again for a second wait.  Shapes: (0) nothing alive
    during the jump, the thread is started after it; (1) a thread sleeps across the jump (it resumes in that
    frame) and waits again; (2) two jumps in a row; (3) `advance` + `execute` instead of `step`, the thread
    being started between the two; (4) three threads with different durations after the jump."""
    cases = []
    durs = [125, 250] if quick else [125, 250, 50, 700, 1000]
    for H in (HUGE_ADVANCES if not quick else HUGE_ADVANCES[:13]):
        for d in durs:
            d1 = engine_ms(d)
            d2 = engine_ms(250 if d != 250 else 125)
            worker = [("mark", 1), ("wait", d), ("mark", 2), ("wait", 250 if d != 250 else 125), ("mark", 3)]
            tail = _straddle(d1) + ["step %d" % (d2 - 2), "step 1", "step 1", "step 1000", "thread-result"]
            sl = script_line([worker])
            cases.append(["reset", sl, "step %d" % H, "call m t0"] + tail)
            sleeper = [("mark", 1), ("wait", 500)] + worker[1:]
            cases.append(["reset", script_line([sleeper]), "call m t0", "step 125", "step %d" % H] + tail)
            if not quick or d == 125:
                cases.append(["reset", sl, "step %d" % H, "step %d" % (H + 2), "call m t0"] + tail)
                cases.append(["reset", sl, "advance %d" % H, "call m t0", "execute"] + tail)
                three = [[("mark", 1), ("thread", 1), ("thread", 2), ("wait", d), ("mark", 2)],
                         [("mark", 10), ("wait", 2 * d), ("mark", 11)], [("mark", 20), ("wait", d), ("mark", 21), ("wait", d), ("mark", 22)]]
                cases.append(["reset", script_line(three), "step 50", "step %d" % H, "call m t0"] + _straddle(d1) + ["step %d" % (d1 - 2), "step 1", "step 1", "step 1000"])
    return cases


def gen_huge_case(rng):
    """random timer program; somewhere in the schedule one huge advance (from the list, or a random odd
    value up to 2^34); afterwards the frames land at k*125-1, k*125, k*125+1 (the generator's durations are
    multiples of 125 ms), host calls in between"""
    prog = gen_timer_prog(rng)
    lines = ["reset", script_line(prog)]
    if rng.random() < 0.5:
        lines.append("call m t0")
        for _ in range(rng.randint(0, 3)):
            lines.append("step %d" % rng.choice(STEPS))
    H = rng.choice(HUGE_ADVANCES) if rng.random() < 0.6 else (rng.randrange(2 ** 24, 2 ** 34) | 1)
    lines.append("step %d" % H)
    lines.append("call m t%d" % rng.randrange(len(prog)))
    for k in range(rng.randint(2, 6)):
        lines += ["step 123" if k else "step 124", "step 1", "step 1"]
        if rng.random() < 0.3:
            lines.append("call m t%d" % rng.randrange(len(prog)))
        if rng.random() < 0.1:
            lines.append("step %d" % (rng.choice(HUGE_ADVANCES) + 125 - 1))
            lines += ["step 1", "step 1"]
    lines += ["step 1000", "step 1000", "thread-result"]
    return lines


# ---------------------------------------------------------------------------------------------
# C07 (engine-only, with a reference oracle): one thread waiting for the same event name on SEVERAL objects
# at once — `($o1::$o2) waittill "go"`: the waittill command runs on each receiver in turn.  The machine has
# no multi-object waittill, so the expected answers come from the small oracle below, which is the property
# read literally: a thread registered on an object under a name when that name is notified there proceeds
# exactly once, at once (nested inside the notify, in registration order), and its other registrations are
# cancelled; removing any object it waits on destroys it; a notify / delete of a removed object is a script
# error (statement skipped).

MULTI_CFGS = [
    # waiter name -> (receivers, event)
    [("W", (1, 2), "go")],
    [("W", (1, 2), "go"), ("V", (2, 3), "go")],
    [("U", (1,), "go")],                                            # control: one object
    [("W", (1, 2), "go"), ("U", (1,), "go"), ("X", (2, 1), "go")],
    [("W", (1, 2, 3), "go")],
    [("W", (1, 2), "go"), ("Y", (1, 2), "other")],
    [("U", (1,), "go"), ("Q", (2,), "go")],                          # control: two single-object waiters
]


def multi_actions(maxlen, objs=(1, 2)):
    import itertools
    acts = [(k, o) for o in objs for k in ("N", "D")]
    res = []
    for n in range(1, maxlen + 1):
        res += [list(p) for p in itertools.product(acts, repeat=n)]
    return res


def _recv(objs):
    return "$o%d" % objs[0] if len(objs) == 1 else "(" + "::".join("$o%d" % o for o in objs) + ")"


def _act_stmt(a):
    return '$o%d notify "go"' % a[1] if a[0] == "N" else "$o%d delete" % a[1]


def multi_script(cfg, actions, inline):
    out = ["t0:"] + ['local.sp%d = spawn SimpleEntity targetname "o%d"' % (o, o) for o in (1, 2, 3)]
    out += ["thread w%d" % i for i in range(len(cfg))]
    out.append('println "S"')
    if inline:
        for k, a in enumerate(actions):
            out += [_act_stmt(a), 'println "M%d"' % k]
    out.append("end")
    for i, (name, objs, ev) in enumerate(cfg):
        out += ["w%d:" % i, '%s waittill "%s"' % (_recv(objs), ev), 'println "%s"' % name, "end"]
    if not inline:
        for k, a in enumerate(actions):
            out += ["a%d:" % k, 'println "A%d"' % k, _act_stmt(a), 'println "B%d"' % k, "end"]
    out += ["fin:"] + ['$o%d notify "go"\nprintln "F%d"' % (o, o) for o in (1, 2, 3)] + ['$o%d notify "other"\nprintln "G%d"' % (o, o) for o in (1, 2, 3)] + ["end"]
    return "\n".join(out) + "\n"


class MultiOracle:
    def __init__(self, cfg):
        self.alive = {1, 2, 3}
        # registrations in the order the engine makes them: waiter by waiter, receiver by receiver
        self.wait = [(name, list(objs), ev) for name, objs, ev in cfg]      # still waiting

    def notify(self, o, ev):
        """markers printed by the released waiters, in registration order on `o`"""
        if o not in self.alive:
            return []
        rel = [w for w in self.wait if o in w[1] and w[2] == ev]
        self.wait = [w for w in self.wait if w not in rel]
        return [w[0] for w in rel]

    def delete(self, o):
        if o not in self.alive:
            return
        self.alive.discard(o)
        self.wait = [w for w in self.wait if o not in w[1]]

    def act(self, a):
        if a[0] == "N":
            return self.notify(a[1], "go")
        self.delete(a[1])
        return []

    def fin(self):
        out = []
        for ev, tag in (("go", "F"), ("other", "G")):
            for o in (1, 2, 3):
                out += self.notify(o, ev) + ["%s%d" % (tag, o)]
        return out


def multi_case(cfg, actions, inline):
    """(lines, expected) — expected[i] = (markers printed by line i, number of live threads after it) or None"""
    src = multi_script(cfg, actions, inline)
    orc = MultiOracle(cfg)
    lines = ["reset", "script m %s" % src.encode().hex(), "call m t0"]
    exp = [None, None]
    if inline:
        out = ["S"]
        for k, a in enumerate(actions):
            out += orc.act(a) + ["M%d" % k]
        exp.append((out, len(orc.wait)))
    else:
        exp.append((["S"], len(orc.wait)))
        for k, a in enumerate(actions):
            lines.append("call m a%d" % k)
            exp.append((["A%d" % k] + orc.act(a) + ["B%d" % k], len(orc.wait)))
            lines.append("step 50")
            exp.append(([], len(orc.wait)))
    lines.append("call m fin")
    exp.append((orc.fin(), 0))
    lines.append("step 1000")
    exp.append(([], 0))
    return lines, exp


def multi_family(quick=True):
    cases = []
    for ci, cfg in enumerate(MULTI_CFGS):
        objs = (1, 2, 3) if any(3 in w[1] for w in cfg) else (1, 2)
        for actions in multi_actions(2 if (quick or len(objs) == 3) else 3, objs) + ([] if len(objs) == 3 or not quick else [a for a in multi_actions(3) if len(a) == 3][::3]):
            for inline in (True, False):
                lines, exp = multi_case(cfg, actions, inline)
                desc = "cfg%d %s %s" % (ci, " ".join("%s%d" % a for a in actions), "inline" if inline else "host")
                cases.append((desc, lines, exp))
    return cases
