"""Source-text generators for the compiler properties (C01; usable by C02..C04 as well).

(1) `program(rng, ...)`      programs from the full statement / expression grammar of
                             src/Parser/yyParser.yy + yyLexer.l (mostly valid; nesting bounded)
(2) `mutate(rng, text, n)`   token-level mutations (delete / duplicate / swap / replace tokens,
                             unbalanced braces, stray case / break / continue / catch)
(3) `noise(rng, ...)`        raw byte noise (NULs, high bytes, unterminated strings / comments,
                             huge tokens)
(4) `families(...)`          deterministic stress families: fix-up table bounds, label-set sizes,
                             deep try-in-catch / switch-in-switch nesting, peephole chains
Every function returns `bytes`.  All randomness comes from the `random.Random` passed in.
"""
import re

NORMAL_CMDS = ["println", "print", "assert", "wait", "waitframe", "pause", "goto", "thread", "waitthread",
               "exec", "end", "mprintln", "trigger", "cache", "flag_set", "flag_init", "notify", "throw", "endon"]
RETURN_CMDS = ["int", "float", "string", "bool", "abs", "randomint", "randomfloat", "isdefined", "typeof",
               "vector_length", "vector_add", "thread", "waitthread", "exec", "sqrt", "isarray", "getarraykeys", "spawn"]
METHOD_CMDS = ["thread", "waitthread", "exec", "remove", "delete", "notify", "endon", "throw", "waittill", "commanddelay"]
METHOD_RET = ["thread", "waitthread", "exec", "inheritsfrom", "waitexec"]
LISTENERS = ["game", "level", "local", "parm", "self", "group", "owner"]
VARS = ["a", "b", "c", "i", "n", "x1", "3d", "self", "owner", "classname", "other", "previousthread", "size2", "end"]
BINOPS = ["+", "-", "*", "/", "%", "|", "^", "&", "==", "!=", "<", ">", "<=", ">=", "<<", ">>", "&&", "||",
          "ifequal", "ifless", "ifstrequal"]
ASSIGNOPS = ["=", "=", "=", "+=", "-=", "*=", "/=", "%=", "&=", "^=", "|=", "<<=", ">>="]
INTS = [0, 1, 2, 5, 127, 128, 255, 256, 257, 32767, 65535, 65536, 65537, 16777215, 16777216, 16777217,
        2147483647, 2147483648, 4294967295, 4294967296, 4294967297, 999999999, 1000000000,
        9223372036854775807, 9223372036854775808, 18446744073709551615, 18446744073709551616,
        123456789012345678901234567890]
FLOATS = ["1.5", "0.0", ".5", "3.0", "1.e+5", "2.5e-3", "0.1", "100000000000000000000000000000000000000000.0", "1.2.3"]
STRINGS = ['""', '"a"', '"hello world"', '"x\\ny"', '"q\\"q"', '"tab\\t"', '"\\\\"', '"case"', '"0"', '"-1"', '"local.a"',
           '"%s%d"', '"' + "z" * 300 + '"']
LABELS = ["main", "loop", "done", "l1", "l2", "default", "start", "x", "init"]


class Gen:
    def __init__(self, rng, maxdepth=6, width=4):
        self.r = rng
        self.maxdepth = maxdepth
        self.width = width
        self.labels = 0

    # ---- expressions -------------------------------------------------------------------------
    def ch(self, xs):
        return self.r.choice(xs)

    def lvalue(self, d=0):
        r = self.r
        base = self.ch(LISTENERS) if r.random() < 0.85 else self.ch(["$" + self.ch(["t", "player", "p_1"]), "$(" + self.expr(d + 1) + ")"])
        s = base + "." + self.ch(VARS)
        while r.random() < 0.25:
            k = r.random()
            if k < 0.5:
                s += "." + self.ch(VARS)
            elif d < self.maxdepth:
                s += "[" + self.expr(d + 1) + "]"
            else:
                s += "[1]"
        return s

    def literal(self):
        r = self.r
        k = r.random()
        if k < 0.45:
            return str(self.ch(INTS) if r.random() < 0.6 else r.randint(0, 70000))
        if k < 0.55:
            return self.ch(FLOATS)
        if k < 0.75:
            return self.ch(STRINGS)
        if k < 0.80:
            return "NIL"
        if k < 0.84:
            return "NULL"
        if k < 0.92:
            return self.ch(LISTENERS)
        return "( %s %s %s )" % (self.literal(), self.literal(), self.literal())

    def nonident(self, d):
        """nonident_prim_expr: what a unary operator or a method call can be applied to"""
        r = self.r
        k = r.random()
        if k < 0.35:
            return self.literal()
        if k < 0.75 or d >= self.maxdepth:
            return self.lvalue(d)
        return "(" + self.expr(d + 1) + ")"

    def prim(self, d):
        """something that can stand as a command parameter (prim_expr)"""
        r = self.r
        k = r.random()
        if d >= self.maxdepth or k < 0.35:
            return self.literal() if r.random() < 0.6 else self.lvalue(d)
        if k < 0.50:
            return "(" + self.expr(d + 1) + ")"
        if k < 0.58:
            return self.ch([" -", "~", "!", " -", "!"]) + self.nonident(d + 1)
        if k < 0.64:
            return self.lvalue(d) + ".size"
        if k < 0.70:
            return "::".join(self.prim(d + 1) if r.random() < 0.5 else self.ch(["a", "b1", "1", '"s"']) for _ in range(r.randint(2, 5)))
        if k < 0.76:
            return self.ch(["ident", "foo_bar", "maps/x.scr", "a::b", "x::y::z", "1a"])
        return self.lvalue(d)

    def expr(self, d):
        r = self.r
        k = r.random()
        if d >= self.maxdepth or k < 0.30:
            return self.prim(d)
        if k < 0.62:
            return "%s %s %s" % (self.expr(d + 1), self.ch(BINOPS), self.expr(d + 1))
        if k < 0.70:
            n = r.choice([0, 1, 1, 2, 3, 5, 6, 9])
            c = self.ch(RETURN_CMDS)
            return "(%s %s)" % (c, " ".join(self.prim(d + 1) for _ in range(max(n, 1))))
        if k < 0.78:
            n = r.choice([0, 1, 2, 5, 6, 7])
            return "(%s %s %s)" % (self.nonident(d + 1), self.ch(METHOD_RET), " ".join(self.prim(d + 1) for _ in range(n)))
        if k < 0.86:
            return self.ch(["!", " -", "~", "!!", "! !", " -~", "!~", "! -"]) + "(" + self.expr(d + 1) + ")"
        if k < 0.90:
            return "(" + self.expr(d + 1) + ")"
        return self.prim(d)

    # ---- statements --------------------------------------------------------------------------
    def block(self, d, loop, sw):
        r = self.r
        n = r.randint(0, self.width)
        if d >= self.maxdepth:
            n = min(n, 1)
        body = [self.stmt(d + 1, loop, sw) for _ in range(n)]
        sep = self.ch(["\n", "\n", "; ", "\n\n"])
        return "{" + self.ch(["\n", " ", ""]) + sep.join(body) + self.ch(["\n", " "]) + "}"

    def body(self, d, loop, sw):
        """statement_for_condition"""
        if self.r.random() < 0.75 or d >= self.maxdepth:
            return self.block(d, loop, sw)
        return self.stmt(d + 1, loop, sw, simple=True) + self.ch(["", ";"])

    def parm(self):
        """a label parameter: a plain variable of a script object (anything else is a compile error)"""
        if self.r.random() < 0.04:
            return self.lvalue(self.maxdepth)
        return self.ch(["local", "group", "level", "game", "parm"]) + "." + self.ch(["a", "b", "c", "p1", "p2", "3d"])

    def label(self):
        self.labels += 1
        if self.r.random() < 0.03:
            return self.ch(LABELS)          # may collide: DuplicateLabel
        return "%s%d" % (self.ch(LABELS), self.labels)

    def case(self, d):
        r = self.r
        k = r.random()
        if k < 0.55:
            v = str(r.choice([0, 1, 2, 3, 10, 255, 70000, 2147483647, 2147483648, 4294967295, 1000000000, 5000000000]) if r.random() < 0.3 else r.randint(0, 5000))
        elif k < 0.70:
            v = " -" + str(r.choice([1, 2, 999999999, 1000000000, 2147483647, 2147483648, 4294967295]) if r.random() < 0.3 else r.randint(1, 5000))
        elif k < 0.94:
            v = self.ch(['"a"', '"b"', 'idcase', '"1"', '"-1"', '"c%d"' % r.randint(0, 50)])
        elif k < 0.955:
            v = self.ch(["NIL", "local.a", "1.5", " -local.a", ' -"s"', " -NIL", "(1 2 3)", "~1", " - -1", "game"])
        elif k < 0.965:
            v = "(" + self.expr(d + 1) + ")"
        else:
            v = '"k%d"' % r.randint(0, 5000)
        parms = "" if r.random() < 0.85 else " " + " ".join(self.parm() for _ in range(r.randint(1, 3)))
        return "case %s%s:" % (v, parms)

    def stmt(self, d, loop, sw, simple=False):
        r = self.r
        k = r.random()
        deep = d >= self.maxdepth
        if k < 0.22 or (deep and k < 0.6):
            return "%s %s %s" % (self.lvalue(d), self.ch(ASSIGNOPS), self.expr(d + 1))
        if k < 0.27:
            return self.lvalue(d) + self.ch(["++", "--"])
        if k < 0.40 or deep:
            c = self.ch(NORMAL_CMDS) if r.random() < 0.985 else self.ch(["nosuchcmd", "int", "typeof"])
            n = r.choice([0, 0, 1, 1, 2, 3, 5, 6, 7, 12])
            return (c + " " + " ".join(self.prim(d + 1) for _ in range(n))).rstrip()
        if k < 0.46:
            n = r.choice([0, 1, 2, 5, 6, 8])
            return ("%s %s %s" % (self.nonident(d + 1), self.ch(METHOD_CMDS), " ".join(self.prim(d + 1) for _ in range(n)))).rstrip()
        if k < 0.53:
            s = "if (%s) %s" % (self.expr(d + 1), self.body(d, loop, sw))
            if r.random() < 0.45:
                s += self.ch([" ", "\n"]) + "else " + (self.body(d, loop, sw) if r.random() < 0.8 else self.stmt(d + 1, loop, sw))
            return s
        if k < 0.60:
            return "while (%s) %s" % (self.expr(d + 1), self.body(d, True, sw))
        if k < 0.66:
            init = "" if r.random() < 0.3 else "%s = %s" % (self.lvalue(self.maxdepth), self.literal())
            inc = "; ".join("%s%s" % (self.lvalue(self.maxdepth), self.ch(["++", "--", " += 2"])) for _ in range(r.randint(1, 2)))
            return "for (%s; %s; %s) %s" % (init, self.expr(d + 1), inc, self.body(d, True, sw))
        if k < 0.70:
            return "do %s while (%s)" % (self.body(d, True, sw), self.expr(d + 1))
        if k < 0.77:
            n = r.choice([0, 1, 2, 3, 3, 5, 9])
            parts = []
            for _ in range(n):
                parts.append(self.case(d) if r.random() < 0.8 else self.ch(["default:", self.label() + ":"]))
                for _ in range(r.randint(0, 2)):
                    parts.append(self.stmt(d + 1, loop, True))
                if r.random() < 0.6:
                    parts.append("break")
            return "switch (%s) {\n%s\n}" % (self.expr(d + 1), "\n".join(parts))
        if k < 0.82:
            cat = []
            for _ in range(r.choice([0, 1, 1, 2, 4])):
                cat.append(self.label() + ":")
                cat.append(self.stmt(d + 1, loop, sw))
            return "try %s catch {\n%s\n}" % (self.block(d, loop, sw), "\n".join(cat))
        if k < 0.86:
            ok = loop or sw
            return "break" if (ok or r.random() < 0.03) else "println 1"
        if k < 0.89:
            return "continue" if (loop or r.random() < 0.03) else "println 2"
        if k < 0.93 and not simple:
            parms = "" if r.random() < 0.7 else " " + " ".join(self.parm() for _ in range(r.randint(1, 3)))
            return self.ch(["", "", "+", "-"]) + self.label() + parms + ":"
        if k < 0.95:
            return self.block(d, loop, sw)
        if k < 0.97:
            rows = "\n".join(" ".join(self.prim(self.maxdepth) for _ in range(r.randint(1, 4))) for _ in range(r.randint(0, 3)))
            return "%s = makeArray\n%s\nendArray" % (self.lvalue(self.maxdepth), rows)
        if k < 0.98:
            return ";"
        return "end" if r.random() < 0.5 else "end " + self.prim(d + 1)


def program(rng, maxdepth=6, width=4, nstmts=None):
    g = Gen(rng, maxdepth, width)
    n = nstmts if nstmts is not None else rng.randint(1, 12)
    parts = []
    for _ in range(n):
        parts.append(g.stmt(0, False, False))
        # the LOAD -> LOAD_STORE fusion wants `X = ..` directly followed by a read of X
        if rng.random() < 0.25:
            v = g.lvalue(maxdepth)
            parts.append("%s = %s" % (v, g.literal()))
            parts.append(rng.choice(["{v} = {v} + 1", "println {v}", "if ({v}) {{ println 1 }}", "local.q = {v}",
                                     "while ({v}) {{ break }}", "local.q = -{v}", "{v}++", "{v} += 2", "local.q = !{v}"]).format(v=v))
    sep = rng.choice(["\n", "\n", "\n\n", "\r\n"])
    txt = sep.join(parts) + rng.choice(["\n", "", "\nend\n"])
    return txt.encode("latin1", "replace")


def nested(rng, depth, kinds=None):
    """one chain of block statements nested `depth` deep, kinds drawn from loops/switch/try/if"""
    kinds = kinds or ["while", "for", "do", "switch", "try", "catch", "if", "else", "block"]
    open_, close = [], []
    loop = False
    sw = False
    for lvl in range(depth):
        k = rng.choice(kinds)
        v = "local.v%d" % (lvl % 7)
        if k == "while":
            open_.append("while (%s < %d) {" % (v, lvl + 2)); close.append("%s++\n}" % v); loop = True
        elif k == "for":
            open_.append("for (%s = 0; %s < 2; %s++) {" % (v, v, v)); close.append("}"); loop = True
        elif k == "do":
            open_.append("do {"); close.append("} while (%s)" % v); loop = True
        elif k == "switch":
            open_.append("switch (%s) {\ncase %d:\n%scase \"s%d\":" % (v, lvl, "lbl%d:\n" % lvl if rng.random() < 0.3 else "", lvl)); close.append("break\ndefault:\nbreak\n}"); sw = True
        elif k == "try":
            open_.append("try {"); close.append("} catch {\nc%d:\nprintln %d\n}" % (lvl, lvl))
        elif k == "catch":
            open_.append("try { println %d } catch {\ncc%d:" % (lvl, lvl)); close.append("}")
        elif k == "if":
            open_.append("if (%s == %d) {" % (v, lvl)); close.append("}")
        elif k == "else":
            open_.append("if (%s) { println 0 } else {" % v); close.append("}")
        else:
            open_.append("{"); close.append("}")
        if rng.random() < 0.3:
            open_.append("%s = %d" % (v, lvl))
        if loop and rng.random() < 0.35:
            open_.append(rng.choice(["if (%s) { break }", "if (%s) { continue }", "if (%s) break"]) % v)
        elif sw and rng.random() < 0.2:
            open_.append("if (%s) { break }" % v)
    inner = rng.choice(["println \"inner\"", "local.z = local.z + 1", "break" if (loop or sw) else "end", "continue" if loop else "end"])
    return ("\n".join(open_) + "\n" + inner + "\n" + "\n".join(reversed(close)) + "\n").encode()


def nested_expr(rng, depth):
    forms = ["(%s + 1)", "(1 - %s)", "!%s", " -%s", "~%s", "(%s && local.a)", "(local.b || %s)", "(int %s)", "local.a[%s]",
             "(%s)", "(%s == 2)", "$(%s)", "(0 1 %s)", "(%s::1)", "(local thread f %s)", "!(%s)", " -(%s)"]
    e = rng.choice(["local.x", "1", "0", "255", "1.5", "\"s\"", "4294967296", "NIL"])
    for _ in range(depth):
        e = rng.choice(forms) % e
    return ("local.r = %s\n" % e).encode()


# --------------------------------------------------------------------------------------------
# (4) deterministic stress families

def fam_breaks(n, kind="break", loop="while", wrap=None):
    """a loop with n break/continue statements (each in its own `if`), optionally each inside `wrap`"""
    stm = []
    for i in range(n):
        if wrap == "switch":
            stm.append("switch (local.i) { case %d: %s }" % (i, kind))
        elif wrap == "try":
            stm.append("try { if (local.i == %d) { %s } } catch { }" % (i, kind))
        elif wrap == "catch":
            stm.append("try { } catch { if (local.i == %d) { %s } }" % (i, kind))
        else:
            stm.append("if (local.i == %d) { %s }" % (i, kind))
    body = "\n".join(stm)
    if loop == "while":
        return ("while (local.i < 5) {\n%s\nlocal.i++\n}\n" % body).encode()
    if loop == "for":
        return ("for (local.i = 0; local.i < 5; local.i++) {\n%s\n}\n" % body).encode()
    if loop == "do":
        return ("do {\n%s\nlocal.i++\n} while (local.i < 5)\n" % body).encode()
    if loop == "switch":     # break only
        return ("switch (local.i) {\ncase 1:\n%s\n}\n" % body).encode()
    raise ValueError(loop)


def fam_break_continue(nb, nc, loop="while", order="bc", nest=0):
    """a loop holding nb `break`s and nc `continue`s (each in its own `if`), breaks first (`bc`), continues first
    (`cb`) or interleaved (`mix`); optionally inside `nest` outer loops that hold a break / continue of their own"""
    br = ["if (local.i == %d) { break }" % i for i in range(nb)]
    co = ["if (local.i == %d) { continue }" % (100 + i) for i in range(nc)]
    if order == "bc":
        stm = br + co
    elif order == "cb":
        stm = co + br
    else:
        stm = [x for pair in zip(br, co) for x in pair] + br[len(co):] + co[len(br):]
    body = "\n".join(stm)
    if loop == "while":
        s = "while (local.i < 5) {\n%s\nlocal.i++\n}" % body
    elif loop == "for":
        s = "for (local.i = 0; local.i < 5; local.i++) {\n%s\n}" % body
    else:
        s = "do {\n%s\nlocal.i++\n} while (local.i < 5)" % body
    for k in range(nest):
        s = "while (local.j%d < 2) {\nif (local.j%d == 1) { %s }\n%s\nlocal.j%d++\n}" % (k, k, "break" if k % 2 else "continue", s, k)
    return (s + "\nend\n").encode()


def fam_param_limit(kind, n):
    """parameter lists / array literals of n elements, around the width of the count operand (255 / 65535)"""
    ones = " ".join(str(i % 7) for i in range(n))
    if kind == "cmd":
        return ("println " + ones + "\nend\n").encode()
    if kind == "cmdx":
        return ("local.r = (int " + ones + ")\nend\n").encode()
    if kind == "mcmd":
        return ("local notify " + ones + "\nend\n").encode()
    if kind == "mcmdx":
        return ("local.r = (local waitthread " + ones + ")\nend\n").encode()
    if kind == "thread":
        return ("local thread f " + ones + "\nend\nf:\nend\n").encode()
    if kind == "carr":
        return ("local.a = " + "::".join(str(i % 7) for i in range(n)) + "\nend\n").encode()
    if kind == "marr":
        return ("local.a = makeArray\n" + "\n".join(str(i % 7) for i in range(n)) + "\nendArray\nend\n").encode()
    raise ValueError(kind)


def fam_lexical():
    """deterministic lexical edge cases: long tokens around flex's buffer sizes, NUL bytes, unterminated strings /
    comments, stray escapes"""
    out = []
    for n in (8190, 8191, 8192, 16382, 16383, 16384, 16385, 32768, 70000):
        out.append(b"println " + b"a" * n + b"\n")
        out.append(b'println "' + b"s" * n + b'"\n')
        out.append(b"local." + b"v" * n + b" = 1\n")
        out.append(b"local.a = " + b"7" * n + b"\n")
        out.append(b"/*" + b"c" * n)
        out.append(b"//" + b"c" * n)
        out.append(b'println "' + b"u" * n)
    for core in (b'"\x00"', b'"a\x00b"', b'"\x00', b'\x00"', b"\x00", b"println \x00 1\n", b"local.\x00 = 1\n", b"local.a\x00b = 1\n",
                 b"$\x00\n", b"/*\x00*/println 1\n", b"//\x00\nprintln 1\n", b'println "x\\\x00"\n', b"println 1\n\x00", b"\x00" * 64):
        out.append(core)
        out.append(b"println 1\n" + core + b"\nprintln 2\n")
    for core in (b'"', b'"abc', b'"abc\\', b'"abc\\"', b'"a\nb"', b"/*", b"/* a", b"/*/", b"/**", b"*/", b"/* a */ /*", b'println "a" "', b"local.a\\ = 1\n",
                 b"println abc\\\n", b"$foo\\\n", b"local.a\\", b"\\", b"println \\\n1\n", b'println "\\q"\n', b"println a\\ b\n", b"local.a\\\\ = 1\n"):
        out.append(core)
        out.append(b"println 1\n" + core)
        out.append(core + b"\nprintln 2\n")
    return out


def fam_cases(n, nested=0, in_catch=False, plain_labels=0, private=0, dup=False):
    parts = []
    for i in range(n):
        parts.append(("case %d:" % i) if i % 3 else ('case "s%d":' % i if i % 2 else "case -%d:" % (i + 1)).replace("case -", "case  -"))
        parts.append("local.a = %d" % i)
        if i % 4 == 0:
            parts.append("break")
    for i in range(plain_labels):
        parts.append("pl%d:" % i)
    for i in range(private):
        parts.append("-pv%d:" % i)
    if dup and n:
        parts.append("case 1:")
    inner = "\n".join(parts)
    s = "switch (local.k) {\n%s\n}" % inner
    for lvl in range(nested):
        s = "switch (local.k%d) {\ncase %d:\nouter%d:\n%s\nbreak\n}" % (lvl, lvl, lvl, s)
    if in_catch:
        s = "try { println 1 } catch {\nca:\ncb:\n%s\ncc:\n}" % s
    return (s + "\n").encode()


def fam_try_in_catch(depth, labels=2):
    s = "println \"deep\""
    for lvl in range(depth):
        labs = "\n".join("e%d_%d:" % (lvl, j) for j in range(labels))
        s = "try { println %d } catch {\n%s\n%s\n}" % (lvl, labs, s)
    return (s + "\n").encode()


def fam_try_in_try(depth):
    s = "println \"deep\""
    for lvl in range(depth):
        s = "try {\n%s\n} catch {\nt%d:\n}" % (s, lvl)
    return (s + "\n").encode()


def fam_switch_in_switch(depth, labels=2):
    s = "println \"deep\""
    for lvl in range(depth):
        labs = "\n".join("case %d:" % j for j in range(labels))
        s = "switch (local.a%d) {\n%s\n%s\nbreak\n}" % (lvl % 5, labs, s)
    return (s + "\n").encode()


def fam_peephole(kind, n):
    if kind == "ints":
        return ("println " + " ".join(str(INTS[i % len(INTS)]) for i in range(n)) + "\n").encode()
    if kind == "negs":
        return ("local.a = " + " -(" * n + " -5" + ")" * n + "\n").encode()
    if kind == "negparen":
        return ("local.a = " + " -(" * n + "7" + ")" * n + "\n").encode()
    if kind == "nots":
        return ("local.a = " + "!" * n + "local.b\n").encode()
    if kind == "notlit":
        return ("local.a = " + "!" * n + "1\nif (" + "!" * n + "0) { println 1 }\n").encode()
    if kind == "fusion":
        return "\n".join("local.v%d = %d\nlocal.w%d = local.v%d" % (i % 3, i, i, i % 3) for i in range(n)).encode() + b"\n"
    if kind == "fusion-neg":
        return "\n".join("local.v = %d\nlocal.w = -local.v\nlocal.v = 1.5\nif (local.v) { local.v = 2 }\nwhile (local.v) { local.v = 0 }" % i for i in range(n)).encode() + b"\n"
    if kind == "negfloat":
        return ("local.a = -1.5\nlocal.b = -( -2.5)\nlocal.c = -0.0\nlocal.d = " + " -(" * n + "3.25" + ")" * n + "\n").encode()
    if kind == "andor":
        return ("local.a = " + " && ".join("local.b%d" % i for i in range(n)) + " || 1\n").encode()
    if kind == "params":
        return ("println " + " ".join("local.p%d" % i for i in range(n)) + "\nlocal.r = (int " + " ".join("%d" % i for i in range(n)) + ")\nlocal thread f " + " ".join("1" for i in range(n)) + "\n").encode()
    if kind == "labelparams":
        return ("f " + " ".join("local.p%d" % i for i in range(n)) + ":\nend\n").encode()
    if kind == "long":
        return "\n".join("local.v%d = local.v%d + %d" % (i % 9, (i + 1) % 9, i) for i in range(n)).encode() + b"\n"
    raise ValueError(kind)


# --------------------------------------------------------------------------------------------
# (2) token-level mutation

TOKEN_RE = re.compile(rb'"(?:[^"\\\n]|\\.)*"|//[^\n]*|/\*|\*/|[A-Za-z_0-9.$]+|\r?\n|[ \t]+|::|&&|\|\||[=!<>+\-*/%&|^]=|<<=?|>>=?|\+\+|--|.', re.S)
STRAY = [b"case", b"break", b"continue", b"catch", b"try", b"switch", b"default:", b"else", b"{", b"}", b"(", b")", b"[", b"]",
         b":", b"::", b";", b"=", b"end", b"while", b"for", b"do", b"if", b"makeArray", b"endArray", b"NIL", b"local", b".", b"$",
         b"\"", b"/*", b"*/", b"//", b"\\", b"-", b" -", b"!", b"~", b"size", b"game", b"0", b"1", b"4294967296", b"\n", b"case 1:",
         b"catch {", b"} catch {", b"switch (1) {", b"try {", b"while (1) {", b"1.5", b".", b"..", b"&&", b"||", b"++", b"--",
         b"+=", b"<<=", b"?", b",", b"'", b"@", b"#", b"`", b"ifequal"]


def tokens(text):
    return TOKEN_RE.findall(text)


def mutate(rng, text, n=None):
    toks = tokens(text)
    if not toks:
        toks = [b"end"]
    n = n if n is not None else rng.choice([1, 1, 1, 2, 2, 3, 5, 8])
    for _ in range(n):
        k = rng.random()
        i = rng.randrange(len(toks))
        if k < 0.25 and len(toks) > 1:
            del toks[i]
        elif k < 0.40:
            toks.insert(i, toks[i])
        elif k < 0.55 and len(toks) > 1:
            j = rng.randrange(len(toks))
            toks[i], toks[j] = toks[j], toks[i]
        elif k < 0.75:
            toks[i] = rng.choice(STRAY)
        elif k < 0.92:
            toks.insert(i, rng.choice(STRAY))
            if rng.random() < 0.5:
                toks.insert(i, b" ")
        elif k < 0.96:
            # drop every closing (or opening) brace after i
            b = rng.choice([b"}", b"{", b")", b"("])
            toks = toks[:i] + [t for t in toks[i:] if t != b]
            if not toks:
                toks = [b"{"]
        else:
            toks = toks[:i] if i else toks
    return b"".join(toks)


# --------------------------------------------------------------------------------------------
# (3) raw byte noise

def noise(rng, maxlen=400):
    k = rng.random()
    n = rng.randint(0, maxlen)
    if k < 0.20:
        return bytes(rng.randrange(256) for _ in range(n))
    if k < 0.35:
        alphabet = b" \t\n\r{}()[]:;=.$\"'\\/*-+!~<>&|^%,?@#`abcdelnostrw0123456789_\x00\x80\xff"
        return bytes(rng.choice(alphabet) for _ in range(n))
    if k < 0.45:
        return rng.choice([b'"', b'println "abc', b'local.a = "x\\', b'"\\', b'"a\nb"', b'println "a" "', b'local."', b'$"'])
    if k < 0.55:
        return rng.choice([b"/*", b"/* unterminated\nprintln 1\n", b"println 1 /* x */ /* y", b"*/", b"println 1 */", b"/*/", b"//", b"// c", b"/", b"local.a = 1 /", b"\\", b"\\\n", b"println \\\n 1\n"])
    if k < 0.70:
        big = rng.choice([100, 4000, 8191, 8192, 16383, 16384, 16385, 20000, 40000, 70000, 140000])
        kind = rng.random()
        if kind < 0.25:
            return b"println " + b"a" * big + b"\n"
        if kind < 0.45:
            return b'println "' + b"s" * big + b'"\n'
        if kind < 0.60:
            return b"local.a = " + b"9" * big + b"\n"
        if kind < 0.70:
            return b"local." + b"v" * big + b" = 1\n"
        if kind < 0.80:
            return b"/*" + b"c" * big + b"*/ println 1\n"
        if kind < 0.88:
            return b"//" + b"c" * big
        if kind < 0.94:
            return b"println 1" + b" " * big + b"2\n"
        return b"\n" * big + b"println 1\n"
    if k < 0.80:
        base = program(rng, maxdepth=3, width=3)
        b = bytearray(base)
        for _ in range(rng.randint(1, 6)):
            if not b:
                break
            i = rng.randrange(len(b))
            c = rng.random()
            if c < 0.4:
                b[i] = rng.choice([0, 0x80, 0xff, 0x0d, 0x1a, 0x7f, 0x22, 0x5c])
            elif c < 0.7:
                b.insert(i, rng.choice([0, 0x80, 0xfe, 0x22, 0x0d]))
            else:
                del b[i:i + rng.randint(1, 8)]
        return bytes(b)
    if k < 0.88:
        d = rng.choice([10, 50, 200, 1000, 3000])
        o, c = rng.choice([(b"(", b")"), (b"{", b"}"), (b"[", b"]"), (b"((", b")"), (b"(", b""), (b"{", b""), (b"", b"}"), (b"!", b""), (b" -", b""), (b"$", b"")])
        return b"local.a = " + o * d + b"1" + c * d + b"\n" if o in (b"(", b"((", b"[", b"!", b" -", b"$") else o * d + b"println 1\n" + c * d
    if k < 0.94:
        return rng.choice([b"", b"\n", b"\r", b"\r\n\r\n", b" ", b"\t", b"\x00", b"\x00\x00println 1", b"println 1\x00println 2\n", b"\xef\xbb\xbfprintln 1\n", b"\x1a", b"end", b":", b"::", b"case", b"case 1:", b"break", b"continue", b"catch", b"try", b"try {}", b"else", b"}", b"{", b")", b"local", b"local.", b".", b"$", b"-", b" -", b"1", b"1.", b".5", b"1e", b"\"\"", b"makeArray", b"makeArray\nendArray", b"local.a = makeArray\n\nendArray\n", b"size", b"local.size", b"game.", b"for", b"for (", b"for (;;) {}", b"do", b"do {} while", b"while", b"if", b"switch", b"switch (1)", b"switch (1) {", b"?", b","])
    return bytes(rng.choice(b"\x00\xff\x80\n") for _ in range(n))
