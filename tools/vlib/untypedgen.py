"""Untyped program generator for C04: deliberately mixes every value kind into every operator, index,
field, command and thread-call position, with object removal (self, objects other threads wait on),
unknown labels and commands on removed objects.

A program is a set of short test threads started one after the other by `main`, a bystander thread
that must keep running, and a few helper labels.  Every test thread prints a marker before and after
each statement; a statement is *transparent* when nothing in it can legitimately end, block or
redirect its thread (no thread/wait/end/goto/throw/remove command), so the marker after it must appear
whenever the marker before it did — that is the "error confined to the statement" observation.
"""

INTS = ["0", "1", "2", "3", "( -1)", "7", "63", "64", "65", "255", "256", "65536", "100000", "2147483647", "2147483648",
        "4294967296", "9223372036854775807", "( -9223372036854775807 - 1)", "( -2)"]
FLOATS = ["0.0", "1.5", "( -1.5)", "0.5", "2.0", "3.25", "100000.0", "0.00005", "(100000.0 * 100000.0)",
          "(100000.0 * 100000.0 * 100000.0 * 100000.0)", "(0.0 - 3000000000.0)", "(1.0 / 3.0)", "1.05"]
STRINGS = ['""', '"abc"', '"a"', '"12"', '"-7"', '"1.5"', '"ta"', '"tb"', '"nope"', '"(1 2 3)"', '"1 2"', '"x y z"',
           '"NIL"', '"9999999999999999999999"', '"main"', '"helper"']
VECTORS = ["(0 0 0)", "(1 2 3)", "(1.5 -2 0)", "(0 1 0)", "(level.int level.flt 1)"]
OBJECTS = ["level.e", "level.s", "level.dead", "$ta", "$tb", "$nope", "self", "local", "game", "level", "parm", "group",
           "NULL", "level.e2", "$tb[1]", "$tb[2]", "$tb[3]", "$tb[0]", "level.s.target"]
ARRAYS = ["level.arr", "level.sarr", "level.nest", "level.carr", "(1::2::3)", '("a"::NIL::level.e)', "level.arr[1]",
          "level.nest[1]", "level.carr[2]", "level.empty", "($tb)", "(level.e::level.s::NULL)", "(level.e::5)"]
MISC = ["NIL", "local.undefined", "level.str[0]", '"abc"[1]', "level.vec[0]", "level.vec", "level.flt", "level.int", "level.str",
        "level.e.fieldx", "level.s.origin", "level.s.targetname", "level.s.angles", "level.e.owner", "level.e.classname",
        "local.r", "local.q"]
BINOPS = ["+", "-", "*", "/", "%", "&", "|", "^", "<<", ">>", "==", "!=", "<", ">", "<=", ">=", "&&", "||"]
UNOPS = ["-", "~", "!"]
PURE_FUNCS = ["int", "float", "string", "bool", "abs", "isdefined", "isarray", "vector_length", "vector_normalize",
              "chartoint", "sqrt", "floor", "ceil", "randomint", "getarraykeys", "getarrayvalues", "typeof"]
FIELDS = ["fieldx", "fieldy", "origin", "angles", "targetname", "target", "owner", "classname", "size", "scale", "other",
          "previousthread", "health"]
LVARS = ["local.r", "local.q", "level.int", "level.flt", "level.str", "level.vec", "level.arr", "level.sarr", "level.nest",
         "level.carr", "level.e", "level.shared", "game.g", "group.gr", "level.e.fieldx", "level.s.fieldy", "parm.other",
         "self.sf", "local.undefined2", "level.s.origin", "level.s.targetname", "level.s.angles", "level.s.scale",
         "level.dead.fieldx", "level.int.sub", "level.e.owner", "local.owner", "level.s.target", "$ta.f", "$tb.f", "$nope.f",
         "(NULL).f", "level.e2.fieldx"]
LABELS = ["helper", "helper2", "blocker", "remover", "nolabel", "ender", "twaiter"]
# delays of delayed events: the harness pumps 12 frames of 60 ms, so every one of them comes due inside the run
DELAYS = ["0", "0.03", "0.05", "0.1", "0.2", "0.3", "0.5", "0.65", "( -1)", "NIL", '"x"']
DELAYED_CMDS = ['remove', 'delete', 'immediateremove', 'println "late"', 'notify "sig"', 'thread helper 1 2', 'nosuchcmd', 'commanddelay 0.1 remove',
                'unregister "sig"', 'waittill "sig"', 'endon "sig"']
REMOVALS = ["remove", "delete", "immediateremove"]
# members of command-receiver lists: the running thread, its group, live / dead / absent listeners, non-listeners
LIST_MEMBERS = ["local", "group", "self", "local.me", "local.th", "level.e", "level.e2", "level.s", "level.dead", "$ta", "$tb", "$nope", "NULL", "NIL",
                "5", '"abc"', "1.5", "(1 2 3)", "level.arr", "level.carr", "game", "level", "parm", "local.fresh"]
LIST_CMDS = ["remove", "delete", "immediateremove", 'notify "sig"', 'println "lst"', "commanddelay 0.1 remove", 'commanddelay 0.05 println "late"',
             'waittill "sig"', 'waittill_timeout 0.1 "sig"', 'endon "sig"', "thread helper 1 2", "waitthread helper 1 2", "thread remover group",
             'unregister "sig"', "nosuchcmd", "targetname \"tz\"", "origin (1 2 3)", "cancelFor \"sig\"", "end", "pause"]

SETUP = """ level.e = spawn Listener
 level.e2 = spawn Listener
 level.s = spawn SimpleEntity "targetname" "ta"
 level.s2 = spawn SimpleEntity "targetname" "tb"
 level.s3 = spawn SimpleEntity "targetname" "tb"
 level.dead = spawn Listener
 level.dead immediateremove
 level.int = 7
 level.flt = 2.5
 level.str = "hello"
 level.vec = (1 2 3)
 level.arr[1] = 5
 level.arr[2] = "two"
 level.arr[3] = level.e
 level.sarr["k"] = 1
 level.sarr["e"] = level.s
 level.nest[1][1] = 3
 level.nest[1][2] = level.arr
 level.carr = 1::"b"::level.e::2.5
 level.shared = level.arr
 level.empty[1] = 1
 level.empty[1] = NIL
"""

HELPERS = """bystander:
 println "by1"
 wait 0.1
 println "by2"
 wait 0.1
 println "by3"
end
helper local.a local.b:
 local.h = local.a
 println "hp"
end local.b
helper2:
 println "hp2"
 wait 0.05
 println "hp2b"
end 5
blocker local.o:
 println "bl1"
 local.o waittill "sig"
 println "bl2"
end
remover local.o:
 println "rm1"
 local.o remove
 println "rm2"
end
ender:
 end (1::2)
twaiter local.o local.t:
 println "tw1"
 local.o waittill_timeout local.t "sig"
 println "tw2"
end
runaway:
 thread runaway
end
runaway2 local.n:
 local.r = waitthread runaway2 (local.n + 1)
end local.r
runawayo:
 self thread runawayo
end
later local.k local.how:
 wait (local.k * 0.02)
 println "go"
 switch (local.how) { case 1: local.r = waitthread runaway2 0; break; case 2: level.e thread runawayo; break; default: thread runaway; break }
 println "never"
end
"""


class Gen:
    def __init__(self, rng):
        self.rng = rng
        self.hist = {}

    def count(self, k):
        self.hist[k] = self.hist.get(k, 0) + 1

    def value(self, depth=0):
        r = self.rng
        x = r.random()
        if depth > 2 or x < 0.55:
            pool = r.choice([INTS, FLOATS, STRINGS, VECTORS, OBJECTS, ARRAYS, MISC, OBJECTS, ARRAYS, MISC])
            return r.choice(pool)
        if x < 0.75:
            self.count("binop")
            op = r.choice(BINOPS)
            return "(%s %s %s)" % (self.value(depth + 1), op, self.value(depth + 1))
        if x < 0.80:
            self.count("unop")
            return "( %s%s)" % (r.choice(UNOPS), self.value(depth + 1))
        if x < 0.90:
            self.count("index")
            return "%s[%s]" % (self.indexable(depth + 1), self.value(depth + 1))
        if x < 0.95:
            self.count("field")
            return "%s.%s" % (self.indexable(depth + 1), r.choice(FIELDS))
        self.count("func")
        return "(%s %s)" % (r.choice(PURE_FUNCS), self.value(depth + 1))

    def indexable(self, depth):
        r = self.rng
        if r.random() < 0.7:
            b = r.choice(r.choice([OBJECTS, ARRAYS, MISC, ["level.str", "level.vec", "level.int", "local.r", "(1::2::3)", '"abc"']]))
            if b in ("NULL", "NIL") or b[0] in '"0123456789':
                b = "(%s)" % b
            return b
        return "(%s)" % self.value(depth + 1)

    def lvalue(self):
        r = self.rng
        x = r.random()
        base = r.choice(LVARS)
        if x < 0.45:
            return base
        if x < 0.8:
            self.count("lvalue-index")
            return "%s[%s]" % (base, self.value(1))
        if x < 0.93:
            self.count("lvalue-index2")
            return "%s[%s][%s]" % (base, self.value(1), self.value(1))
        self.count("lvalue-field-index")
        return "%s.%s[%s]" % (r.choice(OBJECTS[:8]), r.choice(FIELDS), self.value(1))

    def transparent_stmt(self):
        r = self.rng
        x = r.random()
        if x < 0.45:
            self.count("assign")
            return "%s = %s" % (self.lvalue(), self.value())
        if x < 0.6:
            self.count("compound-assign")
            return "%s %s %s" % (self.lvalue(), r.choice(["+=", "-=", "*=", "/=", "%=", "&=", "|=", "^=", "<<=", ">>="]), self.value())
        if x < 0.68:
            self.count("incdec")
            return "%s%s" % (r.choice(LVARS), r.choice(["++", "--"]))
        if x < 0.8:
            self.count("println")
            return "println %s" % self.value()
        if x < 0.88:
            self.count("if")
            return "if (%s) { local.r = %s } else { local.q = %s }" % (self.value(), self.value(1), self.value(1))
        if x < 0.93:
            self.count("switch")
            return "switch (%s) { case 1: local.r = 1; break; case \"abc\": local.r = 2; break; default: local.r = %s; break }" % (self.value(), self.value(2))
        if x < 0.97:
            self.count("for")
            return "for (local.li = 0; local.li < 3; local.li++) { %s }" % self.transparent_stmt()
        self.count("method-pure")
        return "local.r = %s %s %s" % (r.choice(OBJECTS), r.choice(["isinheritedby", "inheritsfrom"]), r.choice(['"Listener"', '"SimpleEntity"', '"Nope"', "5", "NIL"]))

    def opaque_stmt(self):
        """statements that may end / block / redirect the thread or remove objects"""
        r = self.rng
        x = r.random()
        obj = r.choice(OBJECTS + ["level.arr", "level.int", "NIL", "level.str", "level.carr", "(level.e::level.s)", "local.r"])
        if x < 0.14:
            self.count("remove")
            return "%s %s" % (obj, r.choice(["remove", "delete", "immediateremove"]))
        if x < 0.28:
            self.count("thread-call")
            lab = r.choice(LABELS)
            a1, a2 = self.value(1), self.value(1)
            return r.choice([
                "thread %s %s %s" % (lab, a1, a2), "%s thread %s %s %s" % (obj, lab, a1, a2),
                "waitthread %s %s %s" % (lab, a1, a2), "%s waitthread %s %s %s" % (obj, lab, a1, a2),
                "local.r = thread %s %s %s" % (lab, a1, a2), "local.r = waitthread %s %s %s" % (lab, a1, a2),
                "local.r = %s waitthread %s %s %s" % (obj, lab, a1, a2)])
        if x < 0.38:
            self.count("wait")
            return r.choice(["wait %s" % self.value(1), "waitframe", "wait 0.05", "wait -1", "wait NIL", "wait \"x\""])
        if x < 0.48:
            self.count("notify")
            return "%s %s %s" % (obj, r.choice(["notify", "waittill", "endon", "unregister", "cancelFor"]), r.choice(['"sig"', '"other"', "5", "NIL", "level.e"]))
        if x < 0.55:
            self.count("goto")
            return r.choice(["goto nolabel", "goto helper2", "thread nolabel", "waitthread nolabel", "exec nofile.scr", "waitexec nofile.scr::lbl"])
        if x < 0.62:
            self.count("end")
            return r.choice(["end", "end %s" % self.value(1), "error \"boom\"", "pause", "throw nolabel", "delaythrow nolabel"])
        if x < 0.72:
            self.count("cmd-on-value")
            return "%s %s %s" % (self.value(1), r.choice(["notify", "remove", "thread helper", "commanddelay 0.05 remove", "classname", "println", "targetname", "origin", "angles", "scale", "target", "delete", "waittill", "endon", "exec", "isinheritedby"]), self.value(1))
        if x < 0.82:
            self.count("try")
            return "try { %s; throw tc %s } catch { tc: println \"caught\"; %s }" % (self.transparent_stmt(), self.value(1), self.transparent_stmt())
        if x < 0.88:
            self.count("blocker")
            return r.choice(["thread blocker %s" % obj, "thread remover %s" % obj, "%s thread blocker %s" % (obj, obj)])
        if x < 0.93:
            return self.delayed_stmt()
        if x < 0.96:
            return self.list_stmt()
        if x >= 0.985:
            # unbounded recursion (nesting deeper than the limit), now or from a later frame
            self.count("runaway")
            return r.choice(["thread runaway", "local.r = waitthread runaway2 0", "%s thread runawayo" % r.choice(["level.e", "level.s", "local", "self"]),
                             "thread later %d %d" % (r.randint(1, 6), r.randint(0, 2)), "thread later %d %d" % (r.randint(1, 6), r.randint(0, 2))])
        self.count("spawn")
        return r.choice(['local.r = spawn %s' % self.value(1), 'local.r = spawn Listener "targetname" "tb"', 'local.r = spawn SimpleEntity "origin" %s' % self.value(1),
                         'local.r = spawn Nope', 'level.e = spawn Listener', 'local.r = local CreateListener'])

    def delayed_stmt(self):
        """a delayed event (commanddelay / waittill_timeout / waittill_any_timeout: posted to the event queue with a
        delay) on an object that is removed before the event is due, or on the running thread / its group that end first"""
        r = self.rng
        self.count("delayed")
        delay = r.choice(DELAYS[:8]) if r.random() < 0.85 else r.choice(DELAYS)
        cmd = r.choice(DELAYED_CMDS)
        rem = r.choice(REMOVALS)
        x = r.random()
        if x < 0.3:
            # a fresh object: queue, then remove before the event is due (and use it again afterwards)
            mk = r.choice(["local CreateListener", "spawn Listener", "spawn SimpleEntity", 'spawn SimpleEntity "targetname" "tb"'])
            tail = r.choice(["", "\n local.fresh commanddelay %s %s" % (r.choice(DELAYS[:8]), r.choice(DELAYED_CMDS)), "\n wait %s" % r.choice(DELAYS[:8]),
                             '\n println local.fresh'])
            return "local.fresh = %s\n local.fresh commanddelay %s %s\n local.fresh %s%s" % (mk, delay, cmd, rem, tail)
        if x < 0.5:
            obj = r.choice(OBJECTS + ["(level.e::level.s)", "(level.e2::$tb)", "local.fresh"])
            return "%s commanddelay %s %s\n %s %s" % (obj, delay, cmd, obj, rem)
        if x < 0.62:
            # events queued on the running thread / its group / self, which end or are removed before they are due
            obj = r.choice(["local", "group", "self", "local", "group"])
            return "%s commanddelay %s %s%s" % (obj, delay, cmd, r.choice(["", "\n end", "\n %s %s" % (obj, rem), "\n wait 0.05\n %s %s" % (obj, rem)]))
        if x < 0.85:
            # a thread waiting with a timeout on an object that is removed first (the waiter carries the queued timeout event)
            obj = r.choice(["level.e", "level.e2", "level.s", "$ta", "$tb", "level.s2", "level.fresh2"])
            pre = "level.fresh2 = spawn Listener\n " if obj == "level.fresh2" else ""
            how = r.choice(["thread twaiter %s %s" % (obj, delay), "%s thread twaiter %s %s" % (obj, obj, delay), "level.e2 thread twaiter %s %s" % (obj, delay)])
            gap = r.choice(["", "", "\n wait 0.03", "\n waitframe"])
            fin = r.choice(["%s %s" % (obj, rem), "thread remover %s" % obj, '%s notify "sig"\n %s %s' % (obj, obj, rem), "%s commanddelay 0.05 %s" % (obj, rem)])
            return "%s%s%s\n %s" % (pre, how, gap, fin)
        if x < 0.93:
            obj = r.choice(OBJECTS)
            return r.choice(['%s waittill_timeout %s "sig"' % (obj, delay), '%s waittill_any_timeout %s "sig" "other"' % (obj, delay),
                             '%s waittill_timeout %s %s' % (obj, delay, self.value(1))])
        return r.choice(["local settimer %s helper" % r.choice(["1", "50", "0", " -1", "NIL"]), "delaythrow nolabel", "level.e settimer 50 helper\n level.e %s" % rem,
                         "thread helper2\n local.th = parm.previousthread\n local.th commanddelay %s %s\n local.th %s" % (delay, cmd, rem)])

    def list_stmt(self):
        """a command applied to a receiver list (`a::b`) mixing the running thread, its group, listeners and
        non-listeners: members are served in turn, so an error can be raised after an earlier member removed the
        running thread's own group"""
        r = self.rng
        self.count("recv-list")
        n = r.choice([2, 2, 2, 3, 3, 4])
        ms = [r.choice(LIST_MEMBERS) for _ in range(n)]
        if r.random() < 0.5:
            ms[r.randrange(n)] = r.choice(["group", "local", "local.me", "self"])
        lst = "::".join(ms)
        cmd = r.choice(LIST_CMDS[:3]) if r.random() < 0.45 else r.choice(LIST_CMDS)
        pre = "local.me = %s\n local.fresh = spawn Listener\n " % r.choice(["group", "group", "local", "self"])
        x = r.random()
        if x < 0.55:
            return pre + "(%s) %s" % (lst, cmd)
        if x < 0.7:
            return pre + "local.lst = %s\n local.lst %s" % (lst, cmd)
        if x < 0.8:
            return pre + "local.r = (%s) %s" % (lst, r.choice(["waitthread helper 1 2", "thread remover group", "isinheritedby \"Listener\"", "thread helper 1 2"]))
        if x < 0.9:
            return pre + "(%s).fieldx = %s" % (lst, self.value(1))
        return pre + "(%s) thread remover (%s)" % (lst, "::".join(r.choice(LIST_MEMBERS) for _ in range(2)))

    def program(self, nthreads=None):
        r = self.rng
        nthreads = nthreads or r.randint(3, 8)
        threads = []
        body = ["main:", SETUP.rstrip("\n")]
        meta = []
        for k in range(nthreads):
            who = r.choice(["", "", "level.e ", "level.s ", "level.dead ", "$tb ", "NULL "])
            body.append(" %sthread t%d %s %s" % (who, k, self.value(2), self.value(2)))
            body.append(' println "s%d"' % k)
        body.append(' println "done"')
        body.append("end")
        for k in range(nthreads):
            lines = ["t%d local.p1 local.p2:" % k]
            nst = r.randint(1, 5)
            marks = []
            lines.append(' println "m%d.0"' % k)
            for j in range(nst):
                if r.random() < 0.72:
                    st = self.transparent_stmt()
                    tr = True
                else:
                    st = self.opaque_stmt()
                    tr = False
                lines.append(" " + st)
                lines.append(' println "m%d.%d"' % (k, j + 1))
                marks.append(tr)
            lines.append("end")
            threads.append("\n".join(lines))
            meta.append(marks)
        src = "\n".join(body) + "\n" + "\n".join(threads) + "\n" + HELPERS
        return {"src": src, "threads": meta}


# statements that reach each repaired defect of ScriptVMOperation.cpp / ScriptVariable.cpp / str.cpp; one
# program per entry is always part of the run (the random generator finds them too, these make it certain)
TARGETED = [
    ("store-field-ref-cast", 'local.x = 5\n local.x.y[1] = 3'),
    ("load-store-self-null", 'self.a = 5\n println self.a'),
    ("store-owner-null-self", 'local.z = owner\n local.z = owner\n local.z = owner'),
    ("getter-field-ref", 'local.owner[1] = 5'),
    ("setter-throws", 'level.s thread settest'),
    ("setter-readonly", 'local.owner = 5\n level.classname = "x"\n game.owner = 1\n parm.other = 2\n group.owner = 3'),
    ("store-field-getter", 'local.r = level.int.fieldx\n local.n = NIL\n local.r = local.n.fieldx\n local.r = "nope".fieldx'),
    ("int-min-div", 'local.m = -9223372036854775807 - 1\n local.r = local.m / -1'),
    ("int-min-mod", 'local.m = -9223372036854775807 - 1\n local.r = local.m % -1'),
    ("shift", 'local.r = 1 << 64\n local.r = 1 >> -1'),
    ("vec-div", 'local.v = (1 2 3) / (1 0 2)\n local.w = (1 2 3) % (1 0 2)\n println local.v'),
    ("neg-index-string", 'local.s = "abc"\n local.i = -1\n local.s[local.i] = "x"'),
    ("neg-index-vector", 'local.v = (1 2 3)\n local.i = -1\n local.v[local.i] = 5'),
    ("float-string", 'println (100000.0 * 100000.0)\n println (1.05)\n local.a[100000.0 * 100000.0] = 1'),
    ("float-cast", 'local.r = ~(0.0 - 1.0)\n local.a = 1::2\n local.r = local.a[100000.0 * 100000.0 * 100000.0 * 100000.0 * 100000.0]'),
    ("targetlist-index", 'println $tb[0].targetname\n println $tb[3]\n println $tb[1]'),
    ("removed-target", 'local.t = $tb\n level.s2 immediateremove\n level.s3 immediateremove\n println local.t[1]\n println local.t.size'),
    ("waiter-removed", 'thread blocker level.e\n level.e immediateremove\n wait 0.1\n println "after"'),
    ("self-remove", 'local remove\n println "zombie"'),
    ("self-delete", 'local delete\n println "zombie"'),
    ("unknown-label", 'thread nolabel\n waitthread nolabel\n goto nolabel'),
    ("cmd-on-removed", 'level.dead notify "x"\n level.dead.f = 1\n println level.dead.f'),
    # delayed events (event queue entries with a delay) whose target is gone before they are due; the harness pumps
    # 12 frames of 60 ms afterwards (seeded C04-ind-5: ~Listener without CancelPendingEvents)
    ("delayed-fresh-listener", 'local.l = local CreateListener\n local.l commanddelay 0.03 delete\n local.l delete\n local.l commanddelay 0.01 delete\n println "deleted"\n wait 0.2\n println "after"'),
    ("delayed-waiter-removed", 'level.d = spawn SimpleEntity "targetname" "door"\n thread twaiter $door 0.2\n $door remove\n println "removed"\n $door commanddelay 0.05 remove\n level.d commanddelay 0.05 remove\n wait 0.4\n println "after"'),
    ("delayed-waiter-any", 'thread twaiter level.e 0.3\n level.e thread twaiter level.e2 0.1\n level.e immediateremove\n level.e2 delete\n wait 0.5\n println "after"'),
    ("delayed-on-ending-thread", 'local commanddelay 0.1 println "late"\n group commanddelay 0.2 println "late2"\n local commanddelay 0.3 remove'),
    ("delayed-entity-removed", 'level.s commanddelay 0.1 println "late"\n level.s immediateremove\n $tb commanddelay 0.3 remove\n level.s2 remove\n level.s3 delete\n level.e commanddelay 0.65 delete\n level.e commanddelay 0.05 delete\n wait 0.5\n println "after"'),
    ("delayed-timer-removed", 'level.e settimer 100 helper\n level.e delete\n local settimer 50 helper\n wait 0.3\n println "after"'),
    # commands on receiver lists: an error raised for a later member after an earlier member removed the running
    # thread's own group (seeded C04-ind-6: HandleScriptException without the m_ScriptClass check)
    ("recv-list-group-alias-then-int", 'local.me = group\n (local.me::5) remove\n println "zombie"'),
    ("recv-list-group-then-string", '(group::"abc") delete\n println "zombie"'),
    ("recv-list-local-then-float", '(local::level.e::1.5) remove\n println "zombie"'),
    ("recv-list-variable", 'local.lst = group::level.arr\n local.lst immediateremove\n println "zombie"'),
    # unbounded recursion: thread nesting deeper than the limit is refused with MaxStackDepth (an abort: it ends the
    # whole chain of nested threads and leaves the host call).  The bystander — asleep in `wait` at that moment —
    # must still be resumed by later frames and the sentinel must still run and be scheduled: once, twice, 25 times
    # (seeded C04-ind-8: the refused frame stays counted, ExecuteRunning never resumes anything again)
    ("runaway-thread", 'thread runaway\n println "zombie"'),
    ("runaway-waitthread", 'local.r = waitthread runaway2 0\n println "zombie"'),
    ("runaway-object-thread", 'level.e thread runawayo\n println "zombie"'),
    ("runaway-later", 'thread later 1 0\n println "started"'),
    ("runaway-later-x2", 'thread later 1 1\n thread later 2 2\n println "started"'),
    ("runaway-now-and-later", 'thread later 1 0\n thread later 3 1\n thread runaway\n println "zombie"'),
    ("runaway-later-x25", 'for (local.i = 1; local.i <= 25; local.i++) { thread later local.i (local.i % 3) }\n println "started"'),
    ("recv-list-nonlistener-first", '(5::level.e) remove\n println "next"\n (level.e2::NIL::level.s) notify "sig"\n (NULL::5) remove\n (level.dead::level.e2) println "x"'),
]

NOT_TRANSPARENT = {"self-remove", "self-delete", "waiter-removed", "unknown-label", "setter-throws", "delayed-fresh-listener", "delayed-waiter-removed",
                   "delayed-waiter-any", "delayed-on-ending-thread", "delayed-entity-removed", "delayed-timer-removed", "recv-list-group-alias-then-int",
                   "recv-list-group-then-string", "recv-list-local-then-float", "recv-list-variable",
                   "runaway-thread", "runaway-waitthread", "runaway-object-thread", "runaway-now-and-later"}
# host frames pumped after the start (default 12): each refused nesting aborts the frame that ran it
TARGET_FRAMES = {"runaway-later-x25": 40}

TARGET_EXTRA = """settest:
 println "st0"
 self.origin = "abc"
 println "st1"
 self.angles = NIL
 println "st2"
end
"""


def targeted_program(name, body):
    src = "main:\n" + SETUP + " thread t0\n println \"done\"\nend\nt0:\n println \"m0.0\"\n " + body + "\n println \"m0.1\"\nend\n" + HELPERS + TARGET_EXTRA
    return {"src": src, "threads": [[name not in NOT_TRANSPARENT]], "name": name, "frames": TARGET_FRAMES.get(name)}
