"""C14: abstract programs of the unwind model (lean/MorfuseModel/Unwind/Model.lean), their rendering as
script text, and the scenario generator.

A program is a list of labels `l0, l1, …`; a label is a list of statements; a statement renders to one
or more script lines AND to the exact sequence of abstract opcodes the compiler emits for it (the time
guard reads the clock once per opcode, and the injected clock is compared after every host call, so a
wrong opcode count shows up as a `clk` difference).  The opcode shapes were read off the H4 probe trace
of the compiled statements (notes/C14-design.md, "renderer table").

statement                       script                                  opcodes
("nop2",)                       local.a<u> = local.b<u>                     n n
("inc",)                        local.n<u>++                              n n n
("mark", m)                     println "m<m>"                          n p<m>
("thread", L)                   thread l<L>                             n s<L>
("waitthread", L)               waitthread l<L>                         n w<L>
("notify", k)                   level notify "k<k>"                     n n N<k>
("waittill", k)                 level waittill "k<k>"                   n n W<k>
("wait", ms)                    wait <s>                                n y<ms>
("err",)                        error "x"                               n e          (ScriptException: warning, continues)
("abort",)                      error "x" 1                             n n E        (ScriptAbortException)
("end",)                        end                                     d
("here", g) / ("goto", g)       g<g>: / goto g<g>                       - / n j<pc of g>
("while1", body)                while (1) { body }                      H: n n body j<H>
("for1", body)                  for (local.i = 0; 1; local.i++) {body}  n n H: n n body n n n j<H>
("do1", body)                   do { body } while (1)                   H: body n n j<H>
("forn", K, body)               for (local.i = 0; local.i < K; local.i++) { body }
                                                                        n c<K> H: n n n t<X> body n n n j<H> X:
("whilen", K, body)             local.i = 0 / while (local.i < K) { body local.i++ }
                                                                        n c<K> H: n n n t<X> body n n n j<H> X:
"""

_G = [0]


def secs(ms):
    if ms % 1000 == 0:
        return str(ms // 1000)
    return ("%d.%03d" % (ms // 1000, ms % 1000)).rstrip("0")


def _emit(stmts, ops, lines, marks, ind):
    """append the opcodes of `stmts` to ops (symbolic jump targets as ('@', key)) and script lines"""
    pad = "  " * ind
    for st in stmts:
        k = st[0]
        if k == "nop2":
            _G[0] += 1     # fresh names: `local.x++` directly followed by a read of local.x is fused into one opcode
            ops += ["n", "n"]; lines.append(pad + "local.a%d = local.b%d" % (_G[0], _G[0]))
        elif k == "inc":
            _G[0] += 1
            ops += ["n", "n", "n"]; lines.append(pad + "local.n%d++" % _G[0])
        elif k == "mark":
            ops += ["n", "p%d" % st[1]]; lines.append(pad + 'println "m%d"' % st[1])
        elif k == "thread":
            ops += ["n", "s%d" % st[1]]; lines.append(pad + "thread l%d" % st[1])
        elif k == "waitthread":
            ops += ["n", "w%d" % st[1]]; lines.append(pad + "waitthread l%d" % st[1])
        elif k == "notify":
            ops += ["n", "n", "N%d" % st[1]]; lines.append(pad + 'level notify "k%d"' % st[1])
        elif k == "waittill":
            ops += ["n", "n", "W%d" % st[1]]; lines.append(pad + 'level waittill "k%d"' % st[1])
        elif k == "wait":
            ops += ["n", "y%d" % st[1]]; lines.append(pad + "wait " + secs(st[1]))
        elif k == "err":
            ops += ["n", "e"]; lines.append(pad + 'error "x"')
        elif k == "abort":
            ops += ["n", "n", "E"]; lines.append(pad + 'error "x" 1')
        elif k == "end":
            ops += ["d"]; lines.append(pad + "end")
        elif k == "here":
            marks[st[1]] = len(ops); lines.append("g%d:" % st[1])
        elif k == "goto":
            ops += ["n", ("j", st[1])]; lines.append(pad + "goto g%d" % st[1])
        elif k == "while1":
            h = len(ops); ops += ["n", "n"]; lines.append(pad + "while (1) {")
            _emit(st[1], ops, lines, marks, ind + 1)
            ops.append("j%d" % h); lines.append(pad + "}")
        elif k == "for1":
            ops += ["n", "n"]; h = len(ops); ops += ["n", "n"]
            lines.append(pad + "for (local.i = 0; 1; local.i++) {")
            _emit(st[1], ops, lines, marks, ind + 1)
            ops += ["n", "n", "n", "j%d" % h]; lines.append(pad + "}")
        elif k == "do1":
            h = len(ops); lines.append(pad + "do {")
            _emit(st[1], ops, lines, marks, ind + 1)
            ops += ["n", "n", "j%d" % h]; lines.append(pad + "} while (1)")
        elif k in ("forn", "whilen"):
            _G[0] += 1
            x = "x%d" % _G[0]
            ops += ["n", "c%d" % st[1]]; h = len(ops); ops += ["n", "n", "n", ("t", x)]
            if k == "forn":
                lines.append(pad + "for (local.i = 0; local.i < %d; local.i++) {" % st[1])
                _emit(st[2], ops, lines, marks, ind + 1)
            else:
                lines.append(pad + "local.i = 0")
                lines.append(pad + "while (local.i < %d) {" % st[1])
                _emit(st[2], ops, lines, marks, ind + 1)
                lines.append(pad + "  local.i++")
            ops += ["n", "n", "n", "j%d" % h]; lines.append(pad + "}")
            marks[x] = len(ops)
        else:
            raise ValueError(st)


def render(labels):
    """labels: list of statement lists (each must end in ("end",) on every path) -> (script text, abstract program)"""
    text, absl = [], []
    for i, stmts in enumerate(labels):
        ops, lines, marks = [], [], {}
        _emit(stmts, ops, lines, marks, 1)
        res = []
        for o in ops:
            if isinstance(o, tuple):
                res.append("%s%d" % (o[0], marks[o[1]]))
            else:
                res.append(o)
        text.append("l%d:" % i)
        text += lines
        absl.append(",".join(res))
    return "\n".join(text) + "\n", "/".join(absl)


# ------------------------------------------------------------------------------------------------
# scenario generator

FILL = [("nop2",), ("inc",)]


def filler(rng, lo=0, hi=3):
    return [rng.choice(FILL) for _ in range(rng.randint(lo, hi))]


def loop_of(rng, body):
    k = rng.choice(["while1", "for1", "do1", "goto"])
    if k == "goto":
        _G[0] += 1
        gid = _G[0]
        return [("here", gid)] + (body or [("inc",)]) + [("goto", gid)]
    return [(k, body)]


class Scen:
    """one scenario: program labels + configuration + host operations"""

    def __init__(self):
        self.labels = []

    def add(self, stmts):
        self.labels.append(stmts)
        return len(self.labels) - 1


def gen_program(rng, fam, cfg):
    """returns (labels, kind) with label 0 = the program under test; labels 1.. helpers.
    label numbers of helpers are fixed after building, so build helpers first."""
    S = Scen()
    S.add(None)            # l0 placeholder
    mx, st, depth, prot = cfg["max"], cfg["step"], cfg["depth"], cfg["prot"]
    per = max(1, mx // max(st, 1))          # instructions per deadline, roughly
    if fam == "loop":
        body = filler(rng, 0, 3)
        r = rng.random()
        if r < 0.3:
            noop = S.add(filler(rng, 0, 2) + [("end",)])
            # `waitthread` in the loop body would make the thread *yield* in every round (it is re-timed with
            # delay 0 and gets a fresh deadline at every resumption): outside C14's non-yielding class, never
            # returns to the host by design (DESIGN.md 12.2, "observed and not counted")
            body.insert(rng.randint(0, len(body)), ("thread", noop))
        elif r < 0.55:
            # a loop body that raises a recoverable script error in every round (HandleScriptException, then
            # the interpreter loop is re-entered): must still be interrupted
            body.insert(rng.randint(0, len(body)), ("err",))
        main = filler(rng, 0, 2) + loop_of(rng, body) + [("end",)]
    elif fam == "fin":
        k = rng.choice([1, 2, 3]) * per // 4 + rng.randint(1, 12)
        body = filler(rng, 0, 2)
        if rng.random() < 0.2:
            noop = S.add([("end",)])
            body.append(("thread", noop))
        main = [(rng.choice(["forn", "whilen"]), min(k, 3000), body), ("mark", 9), ("end",)]
    elif fam == "chain":
        d = max(1, rng.choice([depth - 1, depth, depth + 1, depth + 2, depth + 4, 1, 2]))
        call = rng.choice(["thread", "waitthread", "mix"])
        tail = rng.choice(["end", "end", "loop", "abort", "wait"])
        ids = [S.add(None) for _ in range(d)]
        for j, lid in enumerate(ids):
            c = call if call != "mix" else rng.choice(["thread", "waitthread"])
            if j + 1 < d:
                S.labels[lid] = filler(rng, 0, 1) + [(c, ids[j + 1])] + ([("mark", 20 + j % 5)] if rng.random() < 0.3 else []) + [("end",)]
            elif tail == "loop":
                S.labels[lid] = loop_of(rng, filler(rng, 0, 2)) + [("end",)]
            elif tail == "abort":
                S.labels[lid] = [("abort",), ("end",)]
            elif tail == "wait":
                S.labels[lid] = [("wait", 250), ("mark", 30), ("end",)]
            else:
                S.labels[lid] = filler(rng, 0, 2) + [("end",)]
        c = call if call != "mix" else rng.choice(["thread", "waitthread"])
        main = filler(rng, 0, 1) + [(c, ids[0]), ("mark", 8), ("end",)]
    elif fam == "mutual":
        a, b_ = S.add(None), S.add(None)
        c1, c2 = rng.choice(["thread", "waitthread"]), rng.choice(["thread", "waitthread"])
        S.labels[a] = filler(rng, 0, 1) + [(c1, b_), ("end",)]
        S.labels[b_] = filler(rng, 0, 1) + [(c2, a), ("end",)]
        main = [(rng.choice(["thread", "waitthread"]), a), ("mark", 8), ("end",)]
    elif fam == "pingpong":
        nw = rng.choice([1, 1, 2, 3])
        wbody = filler(rng, 0, 2)
        r = rng.random()
        if r < 0.25:
            noop = S.add([("end",)])
            wbody.append(("thread", noop))
        q = S.add([("while1", [("waittill", 1)] + wbody), ("end",)])
        main = [("thread", q) for _ in range(nw)] + loop_of(rng, [("notify", 1)] + filler(rng, 0, 1)) + [("end",)]
    elif fam == "wakeabort":
        # the abort is raised inside a thread woken by notify: notify-loop frame + ScriptThread::Execute() frame
        kind = rng.choice(["loop", "abort", "deep"])
        others = rng.choice([0, 1, 2])
        if kind == "loop":
            bad = S.add([("waittill", 1)] + loop_of(rng, filler(rng, 0, 2)) + [("end",)])
        elif kind == "abort":
            bad = S.add([("waittill", 1), ("abort",), ("end",)])
        else:
            a, b_ = S.add(None), S.add(None)
            S.labels[a] = [("thread", b_), ("end",)]
            S.labels[b_] = [("thread", a), ("end",)]
            bad = S.add([("waittill", 1), ("thread", a), ("end",)])
        good = S.add([("waittill", 1), ("mark", 40), ("end",)])
        order = [bad] + [good] * others
        rng.shuffle(order)
        main = [("thread", x) for x in order] + filler(rng, 0, 1) + [("notify", 1), ("mark", 8), ("end",)]
    else:
        raise ValueError(fam)
    S.labels[0] = main
    return S.labels


FAMS = ["loop", "loop", "fin", "chain", "chain", "mutual", "pingpong", "wakeabort"]


def scenario(rng, fam=None, combo=None):
    """combo: 6 bits = Output, Warn, Debug, Error, Verbose attached, developer mode (None = random)"""
    _G[0] = 0
    fam = fam or rng.choice(FAMS)
    cfg = {"prot": 1, "max": rng.choice([1, 10, 100]), "step": rng.choice([1, 2, 7]),
           "depth": rng.choice([1, 5, 20])}
    if fam == "fin":
        cfg["prot"] = rng.choice([0, 0, 1])
        cfg["step"] = rng.choice([1, 3])
    elif fam in ("chain", "mutual"):
        cfg["prot"] = rng.choice([0, 1])
        cfg["max"] = rng.choice([0, 10, 100, 100])
        cfg["step"] = rng.choice([0, 0, 1])
    elif fam == "wakeabort":
        cfg["prot"] = 1
    labels = gen_program(rng, fam, cfg)
    # the chain / mutual tails that loop forever need the guard
    if fam == "chain" and any(s[0] in ("while1", "for1", "do1", "goto") for l in labels for s in l):
        cfg["prot"], cfg["max"], cfg["step"] = 1, rng.choice([1, 10, 100]), rng.choice([1, 2])
    late = rng.random() < 0.35
    if late:
        labels[0] = [("wait", 125)] + labels[0]
    sent = len(labels)
    labels.append([("mark", 1), ("wait", 500), ("mark", 2), ("end",)])
    ping = len(labels)
    labels.append([("mark", 3), ("end",)])
    text, absp = render(labels)
    script = "script m %s ## %s" % (text.encode().hex(), absp)
    if combo is None:
        combo = rng.randrange(64)
    streams = [(combo >> i) & 1 for i in range(5)]      # Output, Warn, Debug, Error, Verbose
    lines = ["c14reset"]
    for i, v in enumerate(streams):
        lines.append("cfg stream %d %d" % (i, v))
    lines += ["cfg developer %d" % ((combo >> 5) & 1), "cfg depth %d" % cfg["depth"],
              "cfg maxexec %d" % cfg["max"], "cfg loopprot %d" % cfg["prot"], script,
              "call m l%d" % sent, "cfg clockstep %d" % cfg["step"]]
    rounds = rng.choice([1, 1, 2, 3])          # several interruptions in a row
    for r in range(rounds):
        lines.append("call m l0")
        if late:
            lines += ["advance 125", "execute"]
        if rng.random() < 0.3:
            lines.append("call m l%d" % ping)
    lines += ["cfg clockstep 0", "step 1000", "call m l%d" % ping, "step 1000", "reset-director", script,
              "call m l%d" % ping, "step 10"]
    return lines, fam + (":late" if late else "")
