"""Translator, second half, for C04: the stack / code-pointer effects of every opcode of
`ScriptVM::Process` *including its error paths*, read from src/Script/ScriptVMOperation.cpp.

Each `case OP_X:` body (with the helper members it calls inlined) becomes a term of

    Act ::= nop | pop c k | push c k | read n | may | throw | jump | ret | stop | settop
          | seq a b | branch a b | try body handler | call body | setf i b | iff i a b
          | savepos i | restorepos i | loop body

`pop c k` pops `c + k*N` slots where N is the instruction's run-time operand count; `read n` advances
m_CodePos by n bytes; `may` is a call that may or may not throw; `try body handler` is
`try { body } catch (...) { handler; throw; }`.  The Lean side (VMOps/VM.lean) enumerates every
normal and raised outcome of the term and Props/C04.lean proves the confinement obligations over the
regenerated list — so removing a Pop() from a catch block changes a theorem's subject, not a test.

Trusted here: the small C++ reader below (statements: blocks, if/else, if constexpr on the template
flag, try/catch, for, throw, return, break, expression statements; expressions: calls are taken in
the order of their closing parenthesis = evaluation order of nested and chained calls) and the list
NOTHROW of callees that cannot throw and do not touch the operand stack or the code pointer.
"""
import re

from . import common
from .vmopsgen import read, strip_comments, match_brace, functions

VMOP_CPP = "src/Script/ScriptVMOperation.cpp"

SIZES = {"op_offset_t": 4, "op_name_t": 4, "op_ev_t": 4, "op_evName_t": 4, "op_parmNum_t": 1, "op_arrayParmNum_t": 2,
         "opval_t": 1, "uint8_t": 1, "int8_t": 1, "uint16_t": 2, "int16_t": 2, "short3": 3, "uint32_t": 4, "int32_t": 4,
         "uint64_t": 8, "int64_t": 8, "float": 4, "Vector": 12, "StateScript*": 8, "bool": 1}

# callees that cannot throw and leave operand stack and code pointer alone (accessors, plain setters)
NOTHROW = {
    "GetTop", "GetTopPtr", "GetTopArray", "GetData", "booleanValue", "Clear", "SetFalse", "SetTrue", "setIntValue",
    "setLongValue", "setFloatValue", "setListenerValue", "setConstStringValue", "setVectorValue", "setRefValue",
    "setContainerValue", "GetScriptClass", "GetSelf", "GetScriptOwner", "GetGame", "GetLevel", "GetParm",
    "GetScriptThread", "NumObjects", "ObjectAt", "NumArgs", "GetIndex", "GetStackSize", "GetDirector", "GetDictionary",
    "Get", "IsConstArray", "arraysize", "GetTime", "GetProgBuffer", "GetScript", "ScriptEvent", "Event", "Vars",
    "GetLastValue", "move", "uint32_t", "size_t", "Resize", "AddValue", "AddObject", "setConstArrayValue",
    "FindEventInfoChecked", "GetDef", "classinfo", "Vector", "ScriptVariable", "GetOutput", "GetOutputInfo",
    "ShouldDrop", "GetThreadExecutionProtection", "GetMaxExecutionTime", "c_str", "SetSelf", "EnterFunction",
    "transferVarsToEvent", "GetExistingConstTargetList", "CastBoolean", "GetValueChecked", "endl", "str",
    "ev", "data", "labelVar",
}
# callees with a transcribed control effect
SPECIAL = {"jump": ("jump",), "jumpBack": ("jump",), "Switch": ("branch", ("jump",), ("nop",)), "End": ("stop",),
           "SetTop": ("settop",)}


OPERATOR_TOKENS = {"+=", "-=", "*=", "/=", "%=", "&=", "|=", "^=", "<<=", ">>=", "++", "--", "==", "!="}


class Unsupported(Exception):
    pass


TOKEN = re.compile(r"\s*(?:(\d[\w.]*)|([A-Za-z_]\w*)|(\"(?:\\.|[^\"\\])*\"|'(?:\\.|[^'\\])*')|(::|->|\+\+|--|<<=|>>=|<=|>=|==|!=|&&|\|\||\+=|-=|\*=|/=|%=|&=|\|=|\^=|<<|>>|.))", re.S)


def tokenize(src):
    toks = []
    i = 0
    n = len(src)
    while i < n:
        m = TOKEN.match(src, i)
        if not m:
            break
        i = m.end()
        t = m.group(1) or m.group(2) or m.group(3) or m.group(4)
        if t is None or t.strip() == "":
            continue
        toks.append(t)
    return toks


def seq(items):
    items = [x for x in items if x != ("nop",)]
    if not items:
        return ("nop",)
    r = items[-1]
    for x in reversed(items[:-1]):
        r = ("seq", x, r)
    return r


class Parser:
    def __init__(self, helpers):
        self.helpers = helpers          # name -> (params [names], template param name or None, tokens of body)
        self.unsupported = []

    # ---------------------------------------------------------------- statements
    def block(self, toks, i, env):
        """toks[i] == '{' -> (act, index after the matching '}')"""
        assert toks[i] == "{"
        i += 1
        acts = []
        while toks[i] != "}":
            a, i = self.stmt(toks, i, env)
            acts.append(a)
        return seq(acts), i + 1

    def paren(self, toks, i):
        """toks[i] == '(' -> index after the matching ')'"""
        depth = 0
        while True:
            if toks[i] == "(":
                depth += 1
            elif toks[i] == ")":
                depth -= 1
                if depth == 0:
                    return i + 1
            i += 1

    def stmt(self, toks, i, env):
        t = toks[i]
        if t == "{":
            return self.block(toks, i, env)
        if t == ";":
            return ("nop",), i + 1
        if t == "if":
            j = i + 1
            constexpr = False
            if toks[j] == "constexpr":
                constexpr = True
                j += 1
            k = self.paren(toks, j)
            cond = toks[j + 1:k - 1]
            a1, k2 = self.stmt(toks, k, env)
            a2 = ("nop",)
            if k2 < len(toks) and toks[k2] == "else":
                a2, k2 = self.stmt(toks, k2 + 1, env)
            if constexpr:
                val = self.eval_constexpr(cond, env)
                return (a1 if val else a2), k2
            if len(cond) > 3 and cond[0] == "!" and cond[1] == "Switch" and cond[2] == "(" and toks[k2 - 1] != "else":
                # `if (!Switch(table, value)) skip;`: Switch returns true exactly when it re-aimed m_CodePos
                inner = []
                self.calls(cond[3:-1], 0, len(cond) - 4, env, inner)
                return seq(inner + [("branch", ("jump",), a1)]), k2
            flags = env.setdefault("flags", {})
            if len(cond) == 1 and cond[0] in flags:
                return ("iff", flags[cond[0]], a1, a2), k2
            if len(cond) == 2 and cond[0] == "!" and cond[1] in flags:
                return ("iff", flags[cond[1]], a2, a1), k2
            return seq([self.expr(cond, env), ("branch", a1, a2)]), k2
        if t == "try":
            body, j = self.block(toks, i + 1, env)
            if toks[j] != "catch":
                raise Unsupported("try without catch")
            k = self.paren(toks, j + 1)
            handler_toks_start = k
            handler, k2 = self.block(toks, k, env)
            htoks = toks[handler_toks_start:k2]
            # the handler must end by rethrowing
            if htoks[-3:-1] != ["throw", ";"]:
                raise Unsupported("catch block that does not rethrow")
            return ("try", body, handler), k2
        if t == "throw":
            j = i + 1
            while toks[j] != ";":
                if toks[j] == "(":
                    j = self.paren(toks, j)
                else:
                    j += 1
            e = toks[i + 1:j]
            return seq([self.expr(e, env), ("throw",)]), j + 1
        if t == "return":
            j = i + 1
            while toks[j] != ";":
                if toks[j] == "(":
                    j = self.paren(toks, j)
                else:
                    j += 1
            return seq([self.expr(toks[i + 1:j], env), ("ret",)]), j + 1
        if t == "break":
            return ("ret",), i + 2          # leaves the opcode's case = end of the instruction
        if t == "for":
            k = self.paren(toks, i + 1)
            head = toks[i + 2:k - 1]
            body, k2 = self.stmt(toks, k, env)
            h = self.expr(head, env)
            if not self.stack_free(h):
                raise Unsupported("loop head that moves the stack or the code pointer")
            if self.stack_free(body):
                return seq([h, ("branch", ("nop",), body)]), k2
            # the body moves stack / code pointer: the Lean side explores 0, 1 and 2 iterations and
            # requires the second to add no outcome the first did not have (then neither does any later one)
            return seq([h, ("loop", body)]), k2
        if t in ("while", "do", "switch", "goto"):
            raise Unsupported("statement " + t)
        # declaration or expression statement: up to the ';' at depth 0
        j = i
        depth = 0
        while True:
            if toks[j] in "([{":
                depth += 1
            elif toks[j] in ")]}":
                depth -= 1
            elif toks[j] == ";" and depth == 0:
                break
            j += 1
        e = toks[i:j]
        # local boolean flags:  bool eventCalled = false;   eventCalled = true;
        flags = env.setdefault("flags", {})
        if len(e) == 4 and e[0] == "bool" and e[2] == "=" and e[3] in ("true", "false"):
            flags[e[1]] = len(flags)
            return ("setf", flags[e[1]], e[3] == "true"), j + 1
        if len(e) == 3 and e[0] in flags and e[1] == "=" and e[2] in ("true", "false"):
            return ("setf", flags[e[0]], e[2] == "true"), j + 1
        # remember count variables:  const op_parmNum_t numParms = ReadOpcodeValue<op_parmNum_t>();
        self.note_binding(e, env)
        return self.expr(e, env), j + 1

    def stack_free(self, act):
        k = act[0]
        if k in ("pop", "push", "read", "jump", "settop", "stop", "ret", "setf", "savepos", "restorepos", "loop"):
            return False
        return all(self.stack_free(x) for x in act[1:] if isinstance(x, tuple))

    def eval_constexpr(self, cond, env):
        c = "".join(cond)
        tp = env.get("tparam")
        if tp is None:
            raise Unsupported("if constexpr outside a template helper")
        name, val = tp
        if c == "!" + name:
            return not val
        if c == name:
            return val
        raise Unsupported("if constexpr condition " + c)

    def note_binding(self, e, env):
        if "=" in e:
            k = e.index("=")
            rhs = "".join(e[k + 1:])
            if k >= 1 and re.match(r"[A-Za-z_]\w*$", e[k - 1]):
                m = re.match(r"ReadOpcodeValue<(op_parmNum_t|op_arrayParmNum_t)>\(\)$", rhs)
                if m:
                    env.setdefault("counts", {})[e[k - 1]] = (0, 1)        # the run-time count N

    # ---------------------------------------------------------------- expressions
    def amount(self, arg_toks, env):
        """slots popped/pushed: a literal, a count variable, count +- literal -> (c, k) = c + k*N"""
        s = "".join(arg_toks)
        counts = dict(env.get("counts", {}))
        counts.update(env.get("args", {}))
        if s == "":
            return (1, 0)
        if re.match(r"\d+$", s):
            return (int(s), 0)
        if s in counts:
            return counts[s]
        m = re.match(r"(\w+)([+-])(\d+)$", s)
        if m and m.group(1) in counts:
            c, k = counts[m.group(1)]
            d = int(m.group(3))
            return (c + d if m.group(2) == "+" else c - d, k)
        raise Unsupported("stack amount `%s`" % s)

    def sizeof_sum(self, toks):
        s = "".join(toks)
        total = 0
        for term in s.split("+"):
            m = re.match(r"sizeof\(([\w\*]+)\)$", term)
            if not m or m.group(1) not in SIZES:
                raise Unsupported("code pointer increment `%s`" % s)
            total += SIZES[m.group(1)]
        return total

    def expr(self, toks, env):
        """acts of the calls of an expression, in order of their closing parenthesis"""
        acts = []
        # m_CodePos += sizeof(..) + sizeof(..)
        if len(toks) >= 3 and toks[0] == "m_CodePos" and toks[1] == "+=":
            return ("read", self.sizeof_sum(toks[2:]))
        saved = env.setdefault("saved", {})
        if len(toks) == 3 and toks[0] == "m_CodePos" and toks[1] == "=" and toks[2] in saved:
            return ("restorepos", saved[toks[2]])
        if len(toks) >= 3 and toks[0] == "m_CodePos" and toks[1] in ("=", "-="):
            return ("jump",)
        # const opval_t* const fieldPos = m_CodePos;
        if len(toks) >= 3 and toks[-1] == "m_CodePos" and toks[-2] == "=" and re.match(r"[A-Za-z_]\w*$", toks[-3]) and "opval_t" in toks:
            saved[toks[-3]] = len(saved)
            return ("savepos", saved[toks[-3]])
        self.calls(toks, 0, len(toks), env, acts)
        # overloaded operators of ScriptVariable are calls too (operator+=, ==, ++ ...)
        if toks and toks[0] != "m_CodePos" and self.has_operator(toks):
            acts.append(("may",))
        return seq(acts)

    def has_operator(self, toks):
        for i, t in enumerate(toks):
            if t in ("++", "--"):
                # postfix on a call result (`m_Stack.GetTop()--`) is ScriptVariable::operator--;
                # `++fastIndex`, `i++` on plain integers are not
                if i > 0 and toks[i - 1] == ")":
                    return True
            elif t in OPERATOR_TOKENS:
                return True
        return False

    def calls(self, toks, i, end, env, acts):
        """scan toks[i:end]; for every call `name [<targs>] ( args )` first the calls inside args, then the call"""
        while i < end:
            t = toks[i]
            if re.match(r"[A-Za-z_]\w*$", t) and t not in ("sizeof", "if", "for", "catch", "static_cast", "const_cast", "new", "delete", "return"):
                j = i + 1
                targs = None
                # template argument list directly after the name:  Name<...>(
                if j < end and toks[j] == "<":
                    d = 0
                    k = j
                    while k < end:
                        if toks[k] == "<":
                            d += 1
                        elif toks[k] == ">":
                            d -= 1
                            if d == 0:
                                break
                        elif toks[k] in (";", "{", "}", "&&", "||"):
                            k = end
                            break
                        k += 1
                    if k < end and k + 1 < end and toks[k + 1] == "(":
                        targs = toks[j + 1:k]
                        j = k + 1
                if j < end and toks[j] == "(":
                    close = self.paren(toks, j)
                    args = toks[j + 1:close - 1]
                    self.calls(args, 0, len(args), env, acts)
                    acts.append(self.call(t, targs, args, env))
                    i = close
                    continue
            if t == "sizeof" and i + 1 < end and toks[i + 1] == "(":
                i = self.paren(toks, i + 1)
                continue
            i += 1

    def split_args(self, args):
        out, cur, d = [], [], 0
        for t in args:
            if t in "([{<":
                d += 1
            elif t in ")]}>":
                d -= 1
            if t == "," and d == 0:
                out.append(cur)
                cur = []
            else:
                cur.append(t)
        if cur:
            out.append(cur)
        return out

    def call(self, name, targs, args, env):
        if name == "Pop" or name == "PopAndGet":
            c, k = self.amount(args, env)
            return ("pop", c, k)
        if name == "Push" or name == "PushAndGet":
            c, k = self.amount(args, env)
            return ("push", c, k)
        if name == "ReadOpcodeValue":
            t = "".join(targs or [])
            if t not in SIZES:
                raise Unsupported("ReadOpcodeValue<%s>" % t)
            return ("read", SIZES[t])
        if name == "ReadGetOpcodeValue":
            return ("nop",)
        if name in SPECIAL:
            return SPECIAL[name]
        if name in self.helpers:
            params, tparam, body = self.helpers[name]
            henv = {"args": {}, "counts": {}}
            alist = self.split_args(args)
            for p, a in zip(params, alist):
                try:
                    henv["args"][p] = self.amount(a, env)
                except Unsupported:
                    pass
            if tparam:
                tv = "".join(targs or [])
                default = tparam[1]
                val = {"true": True, "false": False, "": default}.get(tv)
                if val is None:
                    raise Unsupported("template argument %s of %s" % (tv, name))
                henv["tparam"] = (tparam[0], val)
            act, _ = self.block(body, 0, henv)
            return ("call", act)
        if name in NOTHROW:
            return ("nop",)
        return ("may",)


def helper_table(src, hdr):
    """member functions of ScriptVM defined in ScriptVMOperation.cpp that the opcode cases call"""
    helpers = {}
    defaults = {}
    for m in re.finditer(r"template\s*<\s*bool\s+(\w+)\s*=\s*(true|false)\s*>\s*[\w\*\s]+?\b(\w+)\s*\(", hdr):
        defaults[m.group(3)] = (m.group(1), m.group(2) == "true")
    for m in re.finditer(r"\bScriptVM::(\w+)\s*(<[^>]*>)?\s*\(([^)]*)\)\s*(const)?\s*\{", src):
        name = m.group(1)
        if name in ("Process", "Execute") or m.group(2):
            continue          # explicit specialisations (executeCommand<..>) stay opaque `may` calls
        start = m.end() - 1
        end = match_brace(src, start)
        params = []
        for p in m.group(3).split(","):
            p = p.strip()
            if p:
                params.append(re.split(r"[\s\*&]+", p)[-1])
        tparam = None
        back = src[max(0, m.start() - 120):m.start()]
        tm = re.search(r"template\s*<\s*bool\s+(\w+)\s*>\s*[\w\*&:\s]*$", back)
        if tm:
            tn = tm.group(1)
            tparam = (tn, defaults.get(name, (tn, False))[1])
        helpers[name] = (params, tparam, tokenize(src[start:end]))
    return helpers


def opcode_cases(src):
    """(opcode name, token list of the case body) for every `case OP_X:` of ScriptVM::Process"""
    body = None
    for name, sig, const, b in functions(src, "ScriptVM"):
        if name == "Process":
            body = b
    if body is None:
        raise common.CheckError("ScriptVM::Process not found")
    m = re.search(r"switch\s*\(\s*opcode\s*\)\s*\{", body)
    sw = body[m.end() - 1:match_brace(body, m.end() - 1)]
    toks = tokenize(sw)
    cases = []
    i = 1
    depth = 0
    cur = None
    start = None
    n = len(toks) - 1
    while i < n:
        t = toks[i]
        if depth == 0 and t == "case" and toks[i + 2] == ":":
            if cur is not None:
                cases.append((cur, toks[start:i]))
            cur = toks[i + 1]
            start = i + 3
            i += 3
            continue
        if depth == 0 and t == "default" and toks[i + 1] == ":":
            if cur is not None:
                cases.append((cur, toks[start:i]))
            cur = None
            i += 2
            continue
        if t == "{":
            depth += 1
        elif t == "}":
            depth -= 1
        i += 1
    if cur is not None:
        cases.append((cur, toks[start:n]))
    return cases


def lean_act(a):
    k = a[0]
    if k in ("nop", "may", "throw", "jump", "ret", "stop", "settop"):
        return ".%s" % k
    if k in ("pop", "push"):
        return "(.%s (%d) (%d))" % (k, a[1], a[2])
    if k == "read":
        return "(.read %d)" % a[1]
    if k == "call":
        return "(.call %s)" % lean_act(a[1])
    if k == "seq":
        return "(.seq %s %s)" % (lean_act(a[1]), lean_act(a[2]))
    if k == "branch":
        return "(.branch %s %s)" % (lean_act(a[1]), lean_act(a[2]))
    if k == "try":
        return "(.try %s %s)" % (lean_act(a[1]), lean_act(a[2]))
    if k == "savepos":
        return "(.savepos %d)" % a[1]
    if k == "restorepos":
        return "(.restorepos %d)" % a[1]
    if k == "loop":
        return "(.loop %s)" % lean_act(a[1])
    if k == "setf":
        return "(.setf %d %s)" % (a[1], "true" if a[2] else "false")
    if k == "iff":
        return "(.iff %d %s %s)" % (a[1], lean_act(a[2]), lean_act(a[3]))
    raise ValueError(a)


def catch_block_statements(src):
    """every statement inside a `catch (...)` block of ScriptVMOperation.cpp (for the frame obligation:
    handlers only touch this VM's own stack / code pointer and rethrow)"""
    out = []
    for m in re.finditer(r"catch\s*\(\s*\.\.\.\s*\)\s*\{", src):
        s = m.end() - 1
        blk = src[s + 1:match_brace(src, s) - 1]
        for st in blk.split(";"):
            st = re.sub(r"\s+", " ", st).strip()
            st = re.sub(r"^(if \([^)]*\) \{ ?)", "", st).strip(" {}")
            if st:
                out.append(st)
    return out


def strip_preprocessor(src):
    """drop `#ifdef _DEBUG` / `#ifdef MORFUSE_VERIF` blocks (debug strings, the verification probe) and
    every other preprocessor line"""
    out = []
    skip = 0
    for line in src.split("\n"):
        t = line.strip()
        if t.startswith("#if"):
            if skip or re.match(r"#\s*ifdef\s+(_DEBUG|MORFUSE_VERIF)\b", t):
                skip += 1
            out.append("")
            continue
        if t.startswith("#endif"):
            if skip:
                skip -= 1
            out.append("")
            continue
        if t.startswith("#"):
            out.append("")
            continue
        out.append("" if skip else line)
    return "\n".join(out)


def generate_acts():
    src = strip_preprocessor(strip_comments(read(VMOP_CPP)))
    hdr = strip_comments(read("include/morfuse/Script/ScriptVM.h"))
    helpers = helper_table(src, hdr)
    p = Parser(helpers)
    rows = []
    problems = []
    for name, toks in opcode_cases(src):
        try:
            acts = []
            i = 0
            env = {"args": {}, "counts": {}}
            toks2 = toks + ["}"]
            while toks2[i] != "}":
                a, i = p.stmt(toks2, i, env)
                acts.append(a)
            rows.append((name, seq(acts)))
        except Unsupported as e:
            problems.append("%s: %s" % (name, e))
            rows.append((name, ("settop",)))
    return rows, problems, catch_block_statements(src)


if __name__ == "__main__":
    rows, problems, catches = generate_acts()
    for n, a in rows:
        print(n, lean_act(a))
    print(problems)
    print(catches)
