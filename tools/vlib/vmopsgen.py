"""Translator for C04 (area VMOps): regenerates lean/MorfuseModel/Gen/OpAccept.lean from /repo's text.

What is extracted (all by reading the *current* source, nothing is cached):
  * the order of `variableType_e` and the `typenames[]` strings        (ScriptVariable.h)
  * for every ScriptVariable member function with a
        switch (uint32_t(type + X.type * variableType_e::Max))
    the `case uint32_t(A + B * Max)` labels, grouped by the body they fall into     (pairCases)
  * for every ScriptVariable member function with `switch (type)` / `switch (X.type)` /
    `switch (GetType())`: the case labels grouped by body                            (kindCases)
  * every `class X : public A, public B` of include/ and src/ (namespace-qualified)  (excBases)
  * every `throw Q::X(` of the anchored C04 files                                    (thrown)
  * the catch clauses of ScriptVM::Execute in source order                           (executeCatches)
  * OpcodeInfo[] joined with the opcode enum                                         (opcodes)
  * "repair flags": for the five undefined behaviours found at design time, whether the source shows
    the guard that removes it (see notes/C04-design.md).  The model is parameterised by these
    flags, so it always describes the code that exists; the obligation `fixes = Fixes.all` is what
    makes C04_step_never_ub apply to the tree under check.
"""
import os
import re

from . import common

SV_CPP = "src/Script/ScriptVariable.cpp"
SV_H = "include/morfuse/Script/ScriptVariable.h"
VMOP_CPP = "src/Script/ScriptVMOperation.cpp"
OPC_CPP = "src/Script/ScriptOpcodes.cpp"
OPC_H = "include/morfuse/Script/ScriptOpcodes.h"
THROW_FILES = ["src/Script/ScriptVariable.cpp", "src/Script/ScriptVMOperation.cpp", "src/Script/ScriptVM.cpp",
               "src/Script/ScriptThread.cpp", "src/Script/Listener.cpp", "src/Script/Event.cpp",
               "src/Script/TargetList.cpp", "src/Script/ScriptClass.cpp", "src/Script/ScriptMaster.cpp",
               "src/Script/StateScript.cpp", "src/Script/EventSystem.cpp", "src/Script/Context.cpp"]


def read(rel):
    return open(os.path.join(common.REPO, rel), errors="replace").read()


def strip_comments(src):
    """remove // and /* */ comments and string/char literals' contents are kept (needed for names)"""
    out = []
    i, n = 0, len(src)
    while i < n:
        c = src[i]
        if src.startswith("//", i):
            while i < n and src[i] != "\n":
                i += 1
        elif src.startswith("/*", i):
            j = src.find("*/", i + 2)
            j = n if j < 0 else j + 2
            out.append("\n" * src.count("\n", i, j))
            i = j
        elif c == '"' or c == "'":
            q = c
            j = i + 1
            while j < n and src[j] != q:
                j += 2 if src[j] == "\\" else 1
            out.append(src[i:j + 1])
            i = j + 1
        else:
            out.append(c)
            i += 1
    return "".join(out)


def match_brace(src, i):
    """src[i] == '{' -> index just after the matching '}' (string literals skipped)"""
    assert src[i] == "{"
    depth = 0
    n = len(src)
    while i < n:
        c = src[i]
        if c == '"' or c == "'":
            q = c
            i += 1
            while i < n and src[i] != q:
                i += 2 if src[i] == "\\" else 1
        elif c == "{":
            depth += 1
        elif c == "}":
            depth -= 1
            if depth == 0:
                return i + 1
        i += 1
    raise common.CheckError("unbalanced braces")


def enum_members(src, name):
    m = re.search(r"enum\s+(?:class\s+)?%s\b[^{]*\{" % name, src)
    if not m:
        raise common.CheckError("enum %s not found" % name)
    body = src[m.end():match_brace(src, m.end() - 1) - 1]
    return [x.strip().split("=")[0].strip() for x in body.split(",") if x.strip()]


def functions(src, cls):
    """yield (name, signature, body) for every out-of-line member function `... cls::name(...) [const] {`"""
    for m in re.finditer(r"\b%s::(operator\s*[^\s(]+(?:\(\))?|~?\w+)\s*\(([^;{}]*?)\)\s*(const)?\s*(?::[^{;]*)?\{" % cls, src):
        start = m.end() - 1
        end = match_brace(src, start)
        name = re.sub(r"\s+", "", m.group(1))
        yield name, (m.group(2) or "").strip(), (m.group(3) or ""), src[start:end]


PAIR_SWITCH = re.compile(r"switch\s*\(\s*uint32_t\s*\(\s*type\s*\+\s*(\w+)\.type\s*\*\s*variableType_e::Max\s*\)\s*\)\s*\{")
PAIR_CASE = re.compile(r"case\s+uint32_t\s*\(\s*variableType_e::(\w+)\s*\+\s*variableType_e::(\w+)\s*\*\s*variableType_e::Max\s*\)\s*:")
KIND_SWITCH = re.compile(r"switch\s*\(\s*((?:\w+\.)?type|(?:\w+\.)?GetType\(\))\s*\)\s*\{")
KIND_CASE = re.compile(r"case\s+variableType_e::(\w+)\s*:")


def case_groups(body, case_re, nkeys):
    """labels of one switch body grouped by the statements they share (consecutive labels with only
    white space between them form one group); a `default:` label becomes the key 'default'.  Only the
    top level of the switch is looked at (nested braces are skipped)."""
    groups = []
    cur = []
    i, n = 1, len(body) - 1          # inside the outer braces
    pending_ws = True
    while i < n:
        if body[i] == "{":
            i = match_brace(body, i)
            if cur:
                groups.append(cur); cur = []
            continue
        m = case_re.match(body, i)
        d = re.compile(r"default\s*:").match(body, i)
        if m:
            cur.append(tuple(m.group(k + 1) for k in range(nkeys)))
            i = m.end()
            continue
        if d:
            cur.append(("default",) * nkeys)
            i = d.end()
            continue
        if not body[i].isspace() and cur:
            groups.append(cur); cur = []
        i += 1
    if cur:
        groups.append(cur)
    return groups


def first_switch(body, sw_re):
    m = sw_re.search(body)
    if not m:
        return None, None
    s = m.end() - 1
    return m, body[s:match_brace(body, s)]


def parse_variable_cpp():
    src = strip_comments(read(SV_CPP))
    pair, kind = [], []
    seen = {}
    for name, sig, const, body in functions(src, "ScriptVariable"):
        key = name + ("#const" if const and name == "operator[]" else "")
        seen[key] = seen.get(key, 0) + 1
        if seen[key] > 1:
            key += "#%d" % seen[key]
        m, sw = first_switch(body, PAIR_SWITCH)
        if sw is not None:
            pair.append((key, case_groups(sw, PAIR_CASE, 2)))
            continue
        m, sw = first_switch(body, KIND_SWITCH)
        if sw is not None:
            kind.append((key, case_groups(sw, KIND_CASE, 1)))
    return pair, kind, src


def parse_classes():
    """namespace-qualified class -> list of direct public bases (as written, then resolved)"""
    res = {}
    roots = [os.path.join(common.REPO, "include"), os.path.join(common.REPO, "src")]
    for root in roots:
        for d, _, files in os.walk(root):
            if "generated" in d:
                continue
            for fn in sorted(files):
                if not fn.endswith((".h", ".hpp")):
                    continue
                src = strip_comments(open(os.path.join(d, fn), errors="replace").read())
                scan_classes(src, res)
    return res


TOK = re.compile(r"namespace\s+([\w:]+)\s*\{|(?:class|struct)\s+(?:mfuse_\w+\s+)?([\w:<>, ]+?)\s*(?:final\s*)?:\s*([^{;]+)\{|\{|\}")


def scan_classes(src, res):
    stack = []          # (kind, name) per open brace
    for m in TOK.finditer(src):
        t = m.group(0)
        if m.group(1):
            stack.append(("ns", m.group(1)))
        elif m.group(2):
            name = m.group(2).strip()
            bases = []
            for b in m.group(3).split(","):
                b = b.strip()
                b = re.sub(r"^(public|protected|private|virtual)\s+", "", b)
                b = re.sub(r"^(public|protected|private|virtual)\s+", "", b)
                if b:
                    bases.append(b)
            ns = "::".join(n for k, n in stack if k == "ns" and n != "mfuse")
            q = (ns + "::" if ns else "") + name
            if "<" not in name:
                res[q] = (ns, bases)
            stack.append(("class", name))
        elif t == "{":
            stack.append(("blk", ""))
        else:
            if stack:
                stack.pop()


def resolve(classes):
    """bases written relative to the enclosing namespace -> qualified names where such a class is known"""
    out = {}
    for q, (ns, bases) in classes.items():
        rb = []
        for b in bases:
            b = re.sub(r"^mfuse::", "", b)
            cand = [ns + "::" + b] if ns else []
            parts = ns.split("::") if ns else []
            while parts:
                parts.pop()
                cand.append("::".join(parts + [b]))
            cand.append(b)
            hit = next((c for c in cand if c in classes), b)
            rb.append(hit)
        out[q] = rb
    return out


def parse_thrown():
    res = {}
    for rel in THROW_FILES:
        p = os.path.join(common.REPO, rel)
        if not os.path.exists(p):
            continue
        src = strip_archive_functions(strip_comments(open(p, errors="replace").read()))
        for m in re.finditer(r"\bthrow\s+([A-Za-z_][\w:]*)\s*[({]", src):
            res.setdefault(m.group(1), set()).add(os.path.basename(rel))
    return res


def strip_archive_functions(src):
    """blank the bodies of functions that take an `Archiver&`: they run only inside the host's save / load call,
    never under `ScriptVM::Execute`, so what they throw (ArchiveErrors::*, property C10/C11) is not a script error
    and not something a running script can make the VM raise"""
    out = src
    for m in re.finditer(r"\([^(){};]*\bArchiver\s*&[^(){};]*\)\s*(?:const\s*)?\{", src):
        i = m.end() - 1
        j = match_brace(src, i)
        out = out[:i + 1] + re.sub(r"[^\n]", " ", src[i + 1:j - 1]) + out[j - 1:]
    return out


def parse_execute_catches():
    src = strip_comments(read(VMOP_CPP))
    for name, sig, const, body in functions(src, "ScriptVM"):
        if name == "Execute":
            out = []
            for m in re.finditer(r"catch\s*\(\s*([^)]*?)\s*\)\s*\{", body):
                s = m.end() - 1
                blk = body[s:match_brace(body, s)]
                ty = re.sub(r"[&\s]|\bconst\b|\bexc\b|\be\b", "", m.group(1))
                rethrows = bool(re.search(r"\bthrow\s*;", blk))
                cond = "ShouldDrop" in blk
                out.append((ty, "rethrow-if-drop" if (rethrows and cond) else ("rethrow" if rethrows else "continue")))
            return out
    raise common.CheckError("ScriptVM::Execute not found")


def parse_opcodes():
    names = [n for n in enum_members(strip_comments(read(OPC_H)), r"\w*") if n.startswith("OP_")] if False else None
    hdr = strip_comments(read(OPC_H))
    m = re.search(r"enum[^{]*\{([^}]*OP_DONE[^}]*)\}", hdr)
    if not m:
        raise common.CheckError("opcode enum not found")
    names = [x.strip().split("=")[0].strip() for x in m.group(1).split(",") if x.strip()]
    src = strip_comments(read(OPC_CPP))
    m = re.search(r"OpcodeInfo\s*\[\s*\]\s*=\s*\{", src)
    body = src[m.end() - 1:match_brace(src, m.end() - 1)]
    sizes = {"op_offset_t": 4, "op_name_t": 4, "op_ev_t": 4, "op_evName_t": 4, "op_parmNum_t": 1,
             "op_arrayParmNum_t": 2, "int8_t": 1, "int16_t": 2, "short3": 3, "int32_t": 4, "int64_t": 8,
             "float": 4, "Vector": 12, "StateScript*": 8}
    # the operand typedef widths are re-read from the header so that a changed typedef is noticed
    for tm in re.finditer(r"using\s+(op_\w+)\s*=\s*u?int(\d+)_t\s*;", hdr):
        sizes[tm.group(1)] = int(tm.group(2)) // 8
    rows = []
    for rm in re.finditer(r"\{\s*\"(\w+)\"\s*,\s*([^,]+?)\s*,\s*(-?\d+)\s*,\s*(true|false)\s*\}", body):
        expr = rm.group(2)
        val = 0
        for term in expr.split("+"):
            term = term.strip()
            sm = re.match(r"sizeof\s*\(\s*([\w\*\s]+?)\s*\)$", term)
            if sm:
                t = sm.group(1).replace(" ", "")
                if t not in sizes:
                    raise common.CheckError("unknown operand type in OpcodeInfo: " + t)
                val += sizes[t]
            else:
                val += int(term)
        rows.append((rm.group(1), val, int(rm.group(3)), rm.group(4) == "true"))
    # OP_PREVIOUS / OP_MAX have no row
    table = []
    for i, n in enumerate(names):
        if i < len(rows):
            table.append((n,) + rows[i][1:] + (rows[i][0],))
    return names, table


def body_of(src, cls, fname, nth=1):
    k = 0
    for name, sig, const, body in functions(src, cls):
        if name == fname:
            k += 1
            if k == nth:
                return body
    return ""


def case_body(fn_body, lhs, rhs):
    """text between `case uint32_t(lhs + rhs * Max):` and the next `break;` at the same level"""
    m = re.search(r"case\s+uint32_t\s*\(\s*variableType_e::%s\s*\+\s*variableType_e::%s\s*\*\s*variableType_e::Max\s*\)\s*:" % (lhs, rhs), fn_body)
    if not m:
        return ""
    j = fn_body.find("break;", m.end())
    return fn_body[m.end():j if j >= 0 else len(fn_body)]


def kind_case_body(fn_body, kind):
    m = re.search(r"case\s+variableType_e::%s\s*:" % kind, fn_body)
    if not m:
        return ""
    nxt = re.compile(r"\bcase\s+variableType_e::\w+\s*:|\bdefault\s*:")
    # skip labels that share the body
    i = m.end()
    while True:
        mm = nxt.match(fn_body, i + len(fn_body[i:]) - len(fn_body[i:].lstrip()))
        if not mm:
            break
        i = mm.end()
    j = nxt.search(fn_body, i)
    return fn_body[i:j.start() if j else len(fn_body)]


def detect_fixes(src):
    """source-level evidence that each design-time undefined behaviour has been repaired.  A flag is
    True only when the guard is visible; the correspondence run cross-checks every flag (a wrong
    flag makes model and harness disagree on the boundary inputs that are always generated)."""
    div = case_body(body_of(src, "ScriptVariable", "operator/="), "Integer", "Integer")
    mod = case_body(body_of(src, "ScriptVariable", "operator%="), "Integer", "Integer")
    shl = case_body(body_of(src, "ScriptVariable", "operator<<="), "Integer", "Integer")
    shr = case_body(body_of(src, "ScriptVariable", "operator>>="), "Integer", "Integer")
    vdiv = case_body(body_of(src, "ScriptVariable", "operator/="), "Vector", "Vector")
    vmod = case_body(body_of(src, "ScriptVariable", "operator%="), "Vector", "Vector")
    ev = body_of(src, "ScriptVariable", "evalArrayAt")
    sc = kind_case_body(ev, "SafeContainer")
    sat = body_of(src, "ScriptVariable", "setArrayAtRef")
    vec_set = kind_case_body(sat, "Vector")
    str_set = kind_case_body(sat, "String")
    intv = body_of(src, "ScriptVariable", "intValue")
    longv = body_of(src, "ScriptVariable", "longValue")
    minus_guard = re.compile(r"==\s*-\s*1|INT64_MIN|numeric_limits|==\s*-1LL|uint64_t")
    flags = {
        # INT64_MIN / -1 and INT64_MIN % -1 (SIGFPE on x86): a guard on the divisor -1 / on INT64_MIN
        "divMin": bool(minus_guard.search(div)) and bool(minus_guard.search(mod)),
        # shift count outside 0..63: the count is masked or range-checked before the shift
        "shiftCount": all(bool(re.search(r"&\s*63|&\s*0x3[fF]|>=\s*64|>\s*63|<\s*64|<\s*0", b)) for b in (shl, shr)),
        # vector / vector and vector % vector re-aim the payload pointer at the static vec_zero
        "vecDivAlias": ("m_data.vectorValue = vec_zero" not in vdiv.replace("  ", " ")) and
                       ("m_data.vectorValue = vec_zero" not in vmod.replace("  ", " ")),
        # evalArrayAt(SafeContainer) bounds the index with constArrayValue->size (wrong union member)
        "safeContainerBound": "constArrayValue" not in sc,
        # setArrayAtRef: a negative index passes `intValue > 2` / `intValue >= length` and is used
        "negIndexStore": bool(re.search(r"<\s*0|unsigned|uint32_t|size_t", vec_set)) and
                         bool(re.search(r"<\s*0|unsigned|uint32_t\s+\w+\s*=|size_t\s+\w+\s*=", str_set)),
        # float -> uint32/uint64 conversion of an out-of-range value in intValue()/longValue()
        # floattoStr: `(int32_t)num`, terminator written behind uninitialised bytes
        "floatStr": float_str_fixed(),
        "floatCast": all(bool(re.search(r"isnan|isfinite|floatTo|<\s*0|>=|lrint|static_cast<int64_t>|\(int64_t\)", kind_case_body(b, "Float"))) for b in (intv, longv)),
    }
    vm = strip_comments(read(VMOP_CPP))
    m = re.search(r"case\s+OP_STORE_FIELD_REF\s*:", vm)
    blk = vm[m.end():vm.find("case OP_", m.end())] if m else ""
    # OP_STORE_FIELD_REF on a field served by a getter must not leave a plain value in the slot
    flags["getterRef"] = bool(re.search(r"if\s*\(\s*listenerVar\s*\)\s*\{[^}]*\}\s*else\s*\{[^}]*(throw|setRefValue)", blk))
    return flags


def float_str_fixed():
    src = strip_comments(read("src/Common/str.cpp"))
    m = re.search(r"floattoStr\s*\(\s*float\s+num[^)]*\)\s*\{", src)
    if not m:
        return False
    body = src[m.end() - 1:match_brace(src, m.end() - 1)]
    return "(int32_t)num" not in body.replace(" ", "").replace("(int32_t)num", "(int32_t)num") and "printf" in body


def lean_str(s):
    return '"' + s.replace("\\", "\\\\").replace('"', '\\"') + '"'


def generate():
    kinds = enum_members(strip_comments(read(SV_H)), "variableType_e")
    if kinds[-1] != "Max":
        raise common.CheckError("variableType_e does not end with Max: %r" % kinds)
    kinds = kinds[:-1]
    hdr = strip_comments(read(SV_H))
    m = re.search(r"typenames\s*\[\s*\]\s*=\s*\{([^}]*)\}", hdr)
    typenames = re.findall(r'"([^"]*)"', m.group(1))
    pair, kind, src = parse_variable_cpp()
    classes = resolve(parse_classes())
    thrown = parse_thrown()
    catches = parse_execute_catches()
    opnames, optable = parse_opcodes()
    fixes = detect_fixes(src)
    kidx = {k: i for i, k in enumerate(kinds)}

    def kcode(k):
        if k == "default":
            return 99
        if k not in kidx:
            raise common.CheckError("unknown variable kind in a case label: " + k)
        return kidx[k]

    L = []
    L.append("/-! GENERATED by tools/vlib/vmopsgen.py from the working tree of the repository under check.")
    L.append("    Never edit by hand; regenerated on every run of `tools/check.py C04`. -/")
    L.append("namespace Morfuse.Gen.OpAccept")
    L.append("")
    L.append("/-- `variableType_e` in declaration order (without `Max`) -/")
    L.append("def kindNames : List String := [%s]" % ", ".join(lean_str(k) for k in kinds))
    L.append("/-- `typenames[]` -/")
    L.append("def typeNames : List String := [%s]" % ", ".join(lean_str(k) for k in typenames))
    L.append("")
    L.append("/-- per function: the `case uint32_t(L + R * Max)` labels, one inner list per shared body,")
    L.append("    in source order; 99 = `default` -/")
    L.append("def pairCases : List (String × List (List (Nat × Nat))) := [")
    rows = []
    for name, groups in pair:
        gs = ", ".join("[" + ", ".join("(%d, %d)" % (kcode(a), kcode(b)) for a, b in g) + "]" for g in groups)
        rows.append("  (%s, [%s])" % (lean_str(name), gs))
    L.append(",\n".join(rows))
    L.append("]")
    L.append("")
    L.append("/-- per function with a `switch (type)`: case labels grouped by shared body; 99 = `default` -/")
    L.append("def kindCases : List (String × List (List Nat)) := [")
    rows = []
    for name, groups in kind:
        gs = ", ".join("[" + ", ".join("%d" % kcode(a[0]) for a in g) + "]" for g in groups)
        rows.append("  (%s, [%s])" % (lean_str(name), gs))
    L.append(",\n".join(rows))
    L.append("]")
    L.append("")
    L.append("/-- every non-template class with base classes: qualified name (without `mfuse::`) and its direct bases -/")
    L.append("def classBases : List (String × List String) := [")
    rows = []
    for q in sorted(classes):
        rows.append("  (%s, [%s])" % (lean_str(q), ", ".join(lean_str(b) for b in classes[q])))
    L.append(",\n".join(rows))
    L.append("]")
    L.append("")
    L.append("/-- every `throw X(` of the run-time files anchored by C04 -/")
    L.append("def thrown : List String := [%s]" % ", ".join(lean_str(t) for t in sorted(thrown)))
    L.append("")
    L.append("/-- the catch clauses of `ScriptVM::Execute` in source order, with what the handler does -/")
    L.append("def executeCatches : List (String × String) := [%s]" % ", ".join("(%s, %s)" % (lean_str(a), lean_str(b)) for a, b in catches))
    L.append("")
    L.append("/-- opcode enum joined with `OpcodeInfo[]`: (enum name, encoded length, stack effect, external) -/")
    L.append("def opcodes : List (String × Nat × Int × Bool) := [")
    L.append(",\n".join("  (%s, %d, %d, %s)" % (lean_str(n), ln, st, "true" if ex else "false") for n, ln, st, ex, _ in optable))
    L.append("]")
    L.append("")
    from . import vmactgen
    rows, problems, catches = vmactgen.generate_acts()
    L.append("/-- stack / code-pointer effect of one piece of C++ (see tools/vlib/vmactgen.py, VMOps/VM.lean) -/")
    L.append("inductive Act where")
    L.append("  | nop | pop (c k : Int) | push (c k : Int) | read (n : Nat) | may | throw | jump | ret | stop | settop")
    L.append("  | seq (a b : Act) | branch (a b : Act) | try (body handler : Act) | call (body : Act)")
    L.append("  | setf (i : Nat) (v : Bool) | iff (i : Nat) (a b : Act)")
    L.append("  | savepos (i : Nat) | restorepos (i : Nat) | loop (body : Act)")
    L.append("  deriving Repr, Inhabited")
    L.append("")
    L.append("/-- every `case OP_X:` of `ScriptVM::Process` with the helpers it calls inlined, in source order -/")
    L.append("def vmActs : List (String × Act) := [")
    L.append(",\n".join("  (%s, %s)" % (lean_str(n), vmactgen.lean_act(a)) for n, a in rows))
    L.append("]")
    L.append("")
    L.append("/-- opcode cases the reader could not translate (must be empty) -/")
    L.append("def vmActProblems : List String := [%s]" % ", ".join(lean_str(x) for x in problems))
    L.append("")
    L.append("/-- every statement inside a `catch (...)` block of ScriptVMOperation.cpp -/")
    L.append("def vmCatchStatements : List String := [%s]" % ", ".join(lean_str(x) for x in sorted(set(catches))))
    L.append("")
    L.append("/-- which of the design-time undefined behaviours show their repair in the source -/")
    for k in sorted(fixes):
        L.append("def fix_%s : Bool := %s" % (k, "true" if fixes[k] else "false"))
    L.append("")
    L.append("end Morfuse.Gen.OpAccept")
    text = "\n".join(L) + "\n"
    path = os.path.join(common.LEAN, "MorfuseModel", "Gen", "OpAccept.lean")
    changed = common.write_if_changed(path, text)
    info = {"kinds": kinds, "pair_functions": [n for n, _ in pair], "kind_functions": [n for n, _ in kind],
            "classes": len(classes), "thrown": sorted(thrown), "fixes": fixes, "changed": changed,
            "opcodes": len(optable), "catches": catches}
    return info


if __name__ == "__main__":
    import json
    print(json.dumps(generate(), indent=1))
